"""C10 - transpilation is a deterministic, stateless function of the source text.

Engines
  * inventory (translator harness/gen/setsites.py -> coq/Gen/SetSites.v): every iteration of a set in
    parser.py / emitter.py is sorted, order-insensitive, or one of the sites modelled in coq/Lang/Order.v
    (theorem C10_sites_accounted), and no function mutates module-level state (C10_no_module_state);
  * correspondence: the extracted model (Order.transl under the rank oracles read off the observed output) must
    reproduce the declaration/block skeleton of the real emit(parse(src)) exactly - i.e. the observed order of
    hoisted declarations is one the model allows; the real _promote_branch_decls is also run with *dictated*
    iteration orders against promote_if; sorted() sites against the model's insertion sort;
  * property oracle: sha256 of the emitted text across PYTHONHASHSEED values (subprocesses) and across dictated
    iteration orders of the transpiler's sets (sorted / reverse / keyed pseudo-random: "another platform"), repeated and
    interleaved transpilations in one process, fresh processes - all byte-identical for every program inside
    the guard.

  * statelessness across calls (harness/props/c10_roles.py, coq/Lang/DevSession.v): the inventory also lists every USE of a
    module-level mutable object (read-only / escapes - e.g. handed out as a `ctx.setdefault(key, M)` / `ctx.get(key, M)` default - /
    mutated, local aliases followed), the default of every setdefault/get site and the keys every parse() starts with
    (C10_module_objects_never_escape, C10_no_shared_default, C10_ctx_seeded_fresh); the configuration read off the source
    instantiates the session model of the device-name registries, which is stateless iff no lazily created key takes a module-level
    default (C10_session_stateless, C10_shared_default_refuted, C10_session_stateless_current_source); the model runs against real
    sessions of device programs that re-use names; the oracle transpiles, in one process, every ordered pair of ROLES of one
    name (25 roles: device classes, scalars, lists, functions, parameters, loop variables, callbacks ...) in two unrelated programs,
    pool programs in several orders, parse()/emit() interleavings, the same Program emitted twice, concurrent threads, and
    compares with the text of the program alone; a failing pair is confirmed in fresh processes and reported as the replay.

  * near-collisions (harness/props/c10_twins.py, coq/Lang/SortKey.v, coq/Lang/MemoSession.v): inputs that are distinct for the statement
    but equal for a careless canonicalisation.  NAME FAMILIES (key1 / key01 / key001, key2 / key10, Key1 / KEY1, key_1 / key1_, equal
    lengths, prefixes) are put into every set whose iteration reaches the text through sorted() - button polls, LCD ticks, ultrasonic
    helpers, the names hoisted out of if / try / while / for bodies - on devices that share all other attributes: a sorted(..., key=k)
    whose key ties on them keeps the set's iteration order (C10_keyed_sort_tie_refuted) and shows under the hash-seed / dictated-order
    oracle; the inventory flags every sorted() over a set that takes a key (C10_sorted_sites_keyless).  TWIN FAMILIES: one device call in
    every spelling of the same values (int / float / bool literals, folded constants, defaults omitted or spelled out, keyword or
    positional), at every nesting depth, on two device names, with one argument changed; one pin in several device classes; one source up
    to white space / comments / line ends - the members of a family are transpiled in one process in every rotation (each member first
    once): a memo table whose key equality is coarser than the result (functools.lru_cache: 100 == 100.0 == True + 99; a key that forgets
    the indentation, an argument, the white space) makes a member come out with another member's text (C10_memo_conflation_refuted,
    C10_lru_cache_on_duration_refuted; harmless ones: C10_format_float_cache_harmless, C10_typed_cache_harmless); the inventory lists every
    memoising decorator (C10_no_cached_helper); the emitter's literal helpers are called in sessions of one process against the model.

  * emit() as a function of the Program VALUE, and REJECTED / ABORTED transpilations (harness/props/c10_purity.py, coq/Lang/EmitSession.v,
    coq/Lang/VariantSession.v, translator harness/gen/purity.py -> coq/Gen/PuritySites.v).  (A) one Program emitted several times: a sequence
    field of an IR node that is a one-shot iterator (generator expression, map(...)) is empty after the first emit() (C10_one_shot_field_refuted,
    C10_one_shot_second_emit_differs) although every parse()+emit() flow sees the right text (C10_one_shot_invisible_to_parse_emit_flows); with
    list fields every session of parse()/emit() calls yields the script's text (C10_emit_session_stateless_partial); the inventory lists every
    lazily evaluated value and how it is consumed, IR constructors taking one, and statements of emitter.py that change what emit() was given
    (C10_no_lazy_value_escapes, C10_no_lazy_ir_field, C10_emit_never_changes_its_argument).  Oracle: EVERY program of the corpus and a corpus that
    reaches all 65 IR node classes is parsed twice and emitted five times (same Program twice, after another transpilation, second Program,
    fresh parse).  (B) a parse() that raises must leave nothing behind: the re-entrancy guard of _ensure_function_variant as a set per parse /
    at module level, released in finally / by a statement (C10_variant_session_stateless_partial, C10_variant_guard_leak_refuted,
    C10_accepted_scripts_leave_no_trace); the inventory reads where the guard set lives and how it is released
    (C10_guards_released_or_per_call, C10_current_source_variant_guard_safe).  Oracle: valid helper programs V and poisoned twins P (same helper
    names and call signatures; rejected while a variant is specialised / in a nested specialisation / from the pending-signature loop / at def
    time / after all variants exist / inside loops, branches, callbacks) in the sessions V P V P P V and P P V; V itself ABORTED at a seeded
    selection of its function calls by an injected BaseException, then V again.

F-C10-promotion-order (hoisting order of _promote_branch_decls = set iteration order) is REPAIRED in the project
(`for name in sorted(new_names)` / `sorted(promoted_set)`, known_findings.d/C10.json kind "fixed"); the model is the model
of the repaired code (C10_order_independent, no guard), so EVERY generated program is under the byte-identity oracle and
half of the random skeleton programs are drawn outside the guard that finding used to need (several new names per branch).
A fixed entry suppresses nothing: its witness is replayed first, and if it fails again it is reported as a VIOLATION whose
replay is that witness.  promotion_shape() is kept as a measured description of the source under test ("sorted" /
"follows-set-order" / "other") for the evidence; no verdict depends on it.
"""
from __future__ import annotations

import difflib
import json
import keyword
import re

from harness import common as C

META = {
    "id": "C10",
    "technique": "Coq proof (set-iteration oracle model of variable promotion as repaired: every hoisting loop walks sorted(set); sorted() sites; inventory of set iterations and module state regenerated from the source by an ast walker, with the obligation that NO set iteration reaches an order-sensitive consumer unsorted) + extracted-model correspondence with parse()+emit() and with _promote_branch_decls under dictated iteration orders + sha256 oracle for EVERY generated program across PYTHONHASHSEED subprocesses / dictated set iteration orders / process environments / repeated / interleaved transpilations; session model of the ctx registries with a module-level store (statelessness theorem + refutation for a shared default) instantiated by the regenerated inventory of module-level mutable objects, setdefault/get defaults and seeded ctx keys; one-name-two-roles sessions (every ordered pair of 25 roles), parse/emit interleavings, concurrent threads; near-collisions: name families that tie under non-injective sort keys in every sorted() site (model of sorted(set, key=k): any tie separates two iteration orders, an injective key none; inventory of key= arguments), twin families (one call in every spelling of the same values / depth / device name / with one argument changed, one pin in several classes, one source up to white space) in rotating sessions of one process (model of a memo table in front of the emitter's literal helpers: invisible iff the key equality refines the result; Python's == on 100 / 100.0 / True refutes it for _emit_duration_ms; inventory of cache decorators), the real helpers called in sessions against the model; emit() as a function of the Program value: model of IR sequence fields that may be one-shot iterators (sessions of parse()/emit() calls: stateless iff the fields are lists; refuted for a generator; invisible to parse-then-emit flows), inventory of lazily evaluated values / IR constructor arguments / statements of emitter.py that change the Program, oracle emitting every Program of the corpus (and of a corpus reaching every IR node class) five times; rejected and aborted transpilations: model of the function-variant re-entrancy guard (set per parse or at module level, released in finally or by a statement: stateless iff per parse or released on every exit path; refuted otherwise with the rejected-then-valid witness), inventory of add/remove guards, poisoned-twin sessions and transpilations aborted by an injected exception",
    "level_text": "Theorems C10_* (coq/Props/C10.v): the declaration-and-block skeleton of the translation is independent of every set-iteration oracle, for every program of the modelled fragment and every construct, without guard (C10_order_independent, C10_construct_order_independent, C10_session_order_independent; the two construct shapes that used to separate two oracles no longer do: C10_two_names_in_a_branch, C10_two_unmet_names_in_a_loop), and the order that comes out is the one a code-point-ordered walk yields (C10_promotion_order_is_canonical, C10_translation_is_canonical); sorted() sites are order independent; the same algorithm walking the sets unsorted (the code before the repair of F-C10-promotion-order) IS order dependent (C10_unsorted_walk_is_order_dependent) and the repair changed no output inside the former guard (C10_repair_conservative); the rank oracles used by the harness are permutations and reach every order; every set iteration found in the current parser.py/emitter.py by the translator is sorted or order-insensitive (C10_no_unsorted_set_iteration), the sorted() sites named by the property and the four loops of the repair are present and sorted (C10_sorted_sites_present, C10_repaired_sites_sorted), no function mutates module-level state (C10_no_module_state), only pure modules are imported and no hash/id/open/eval... is used (C10_imports_are_pure, C10_no_ambient_builtins). Statelessness across calls: the session model of the device-name registries (coq/Lang/DevSession.v: ctx keys created by setdefault / read by get, a module-level store threaded through the session) gives every program its own translation whatever was transpiled before, provided no lazily created key takes a module-level object as default (C10_session_stateless, C10_parse_leaves_module_store), one shared default suffices to refute it (C10_shared_default_refuted, witness x = SerialMonitor(..) then x = Potentiometer(..); y = x.read()), and the configuration regenerated from the current source is inside the guard (C10_current_source_defaults_fresh, C10_session_stateless_current_source); no module-level mutable object of the three files is mutated or escapes (C10_module_objects_never_escape, C10_no_shared_default, C10_ctx_seeded_fresh). Canonical order with a key (coq/Lang/SortKey.v): sorted(set, key=k) is a stable sort of the set as iterated; for EVERY key type, order and key function a tie between two different names separates two iteration orders and the tied pair comes out in the set's order (C10_keyed_sort_tie_refuted, C10_keyed_sort_tie_keeps_set_order), a key that is injective on the set under a total transitive order gives one result (C10_keyed_sort_partial), the key-less sorted() of the code is the injective instance key = name (C10_keyless_sort_is_the_identity_key, C10_identity_key_injective), natural number order ties key1 / key01 (C10_natural_key_refuted), and no sorted() over a set in the current source takes a key (C10_sorted_sites_keyless). Memoised helpers (coq/Lang/MemoSession.v): a memo table with any key equality, any hit / eviction policy and any initial table of true results in front of _emit_duration_ms / _format_float is invisible provided the calls it identifies have one result (C10_memo_stateless_partial); one conflation makes the second program come out with the first one's text (C10_memo_conflation_refuted); under Python's == the int 100 of a defaulted on_ms and the float 100.0 of a spelled-out one are conflated by a cache on _emit_duration_ms (C10_lru_cache_on_duration_refuted) whereas a cache on _format_float alone and any typed=True cache are harmless (C10_format_float_cache_harmless, C10_typed_cache_harmless); the current source has no memoising decorator, hence its helpers are stateless for every session (C10_no_cached_helper, C10_helpers_stateless_current_source). emit() as a function of the Program value (coq/Lang/EmitSession.v): a sequence field of an IR node is a list or a one-shot iterator and emit() returns the Program as it leaves it; when the parser stores the validated rows as a list, every emit() in every sequence of parse()/emit() calls of a process yields the text of the script (C10_emit_session_stateless_partial, C10_emit_repeatable_partial; masking while the node is built is harmless: C10_mask_in_parser_harmless); stored as a generator expression the second emit() of a Program differs from the first (C10_one_shot_field_refuted, C10_one_shot_second_emit_differs) while every session that parses afresh before each emit() still sees the right text (C10_one_shot_invisible_to_parse_emit_flows); in the current source every lazily evaluated value is consumed where it is made, no IR constructor takes one and no statement of emitter.py changes an object it was given (C10_no_lazy_value_escapes, C10_no_lazy_ir_field, C10_emit_never_changes_its_argument, C10_current_source_glyph_rows_reiterable, C10_emit_stateless_current_source). Rejected transpilations (coq/Lang/VariantSession.v): with the re-entrancy guard of _ensure_function_variant kept per parse, or released on every exit path, every script of every session - rejected ones included - has the outcome it has alone (C10_variant_session_stateless_partial, C10_variant_guard_per_parse_any_store, C10_parse_leaves_guard_store); kept at module level and released by a statement after the call, a script rejected while a variant is specialised makes a later valid script lose that variant and mistype its variable, and is itself accepted at the second attempt (C10_variant_guard_leak_refuted, C10_rejected_script_accepted_second_time_refuted); only a rejected script can leave such a trace (C10_accepted_scripts_leave_no_trace); the guards of the current source are per call or released in finally (C10_guards_released_or_per_call, C10_current_source_variant_guard_safe, C10_variant_session_stateless_current_source). The model is run against the real parse()+emit() skeleton and against _promote_branch_decls with dictated orders (exact equality); the property itself is tested by sha256 across hash seeds, dictated set orders, other CPython builds, processes, repetitions and interleavings, on every generated program.",
    "level_note": "Trusted: Coq kernel, translator harness/gen/setsites.py (syntactic, fail-closed ast walker), extraction, OCaml driver, CPython's PYTHONHASHSEED as the source of set-order variation. CPython set internals are over-approximated by an arbitrary permutation oracle; absence of module-level state is shown statically for the two transpiler files (ast walk) and by observation (repeated / interleaved transpilations), not by proof about CPython.",
    "design_ref": "DESIGN.md section 4 C10, Appendix B.1, B.3",
}

TYPES = ["int", "float", "bool", "String"]
LITS = {0: ["1", "7", "42", "0", "-3"], 1: ["2.5", "0.5", "10.25"], 2: ["True", "False"], 3: ['"s"', '"ab"', '""']}
RESERVED = set(keyword.kwlist) | {
    "print", "len", "abs", "min", "max", "int", "float", "bool", "str", "range", "sleep", "target", "map", "list", "True",
    "False", "None", "HIGH", "LOW", "INPUT", "OUTPUT", "INPUT_PULLUP", "Led", "RGBLed", "Buzzer", "Servo", "DCMotor",
    "Button", "Potentiometer", "Ultrasonic", "LCD", "SerialMonitor", "pin_mode", "digital_write", "analog_write",
    "digital_read", "analog_read", "A0", "A1", "A2", "A3", "A4", "A5", "cnd", "setup", "loop", "Exception", "String",
    "delay", "millis", "auto", "char", "const", "double", "long", "short", "signed", "unsigned", "void", "volatile",
    "static", "struct", "switch", "case", "default", "do", "enum", "extern", "goto", "register", "sizeof", "typedef",
    "union", "new", "delete", "this", "class", "public", "private", "template", "typename", "namespace", "using",
    "byte", "word", "boolean", "main", "NULL", "tone", "noTone", "Serial", "Wire", "B0", "B1", "PI", "E", "F", "abs",
    "operator", "friend", "inline", "virtual", "explicit", "mutable", "throw", "catch", "bitand", "bitor", "compl",
    "not_eq", "or_eq", "xor", "xor_eq", "and_eq", "asm", "wchar_t", "true", "false", "nullptr", "bit", "bitRead",
    "sq", "sqrt", "pow", "sin", "cos", "tan", "exp", "log", "round", "floor", "ceil", "random", "yield", "signal",
}
FIRST = "abcdefghijklmnopqrstuvwxyzABCDEFGHIJKLMNOPQRSTUVWXYZ_"
REST = FIRST + "0123456789"


def fresh_names(rng, n, taken):
    out = []
    while len(out) < n:
        ln = rng.choice([1, 2, 2, 3, 3, 4, 5, 6, 8])
        nm = rng.choice(FIRST) + "".join(rng.choice(REST) for _ in range(ln - 1))
        if nm in RESERVED or nm in taken or nm.startswith("__") or nm.lower() in {t.lower() for t in taken} or len(nm) < 2 and nm in "EF":
            continue
        if nm.lower() in {r.lower() for r in RESERVED}:
            continue
        taken.add(nm)
        out.append(nm)
    return out


# ---------------------------------------------------------------------------------------------------------
# skeleton programs: trees over  ("a", name, ty) | ("if", [body...], has_else) | ("wh", body) | ("for", v, body)
#                                | ("try", [body, handler...])       items: ("s", stmt) | ("def", f, body) | ("main", body)
# ---------------------------------------------------------------------------------------------------------
class SkelGen:
    def __init__(self, rng, n_names, tight, flex=False):
        self.rng = rng
        self.taken = set()
        self.names = fresh_names(rng, n_names, self.taken)
        self.ty = {n: rng.choice([0, 0, 1, 2, 3]) for n in self.names}
        self.tight = tight          # try to stay inside the guard (at most one new name per branch ...)
        self.loopvars = 0
        self.fnames = 0

    def lit(self, t):
        return self.rng.choice(LITS[t])

    def assign(self, name):
        return ("a", name, self.ty[name])

    def block(self, depth, declared, fresh, budget_new, max_stmts):
        """declared: names visible; fresh: names not yet assigned anywhere on this path; budget_new: how many new names
        this block may introduce.  Returns (stmts, new_names_introduced)"""
        rng = self.rng
        stmts, new = [], []
        n = rng.randint(1, max_stmts)
        for _ in range(n):
            kinds = ["a", "a", "a"]
            if depth < 3:
                kinds += ["if", "if", "wh", "for", "try"]
            k = rng.choice(kinds)
            if k == "a":
                if fresh and len(new) < budget_new and rng.random() < 0.7:
                    x = fresh.pop(rng.randrange(len(fresh)))
                    new.append(x)
                    declared.add(x)
                    stmts.append(self.assign(x))
                elif declared:
                    stmts.append(self.assign(rng.choice(sorted(declared))))
                continue
            room = budget_new - len(new)
            if k in ("if", "try"):
                nb = rng.choice([1, 2, 2, 3]) if k == "if" else rng.choice([2, 2, 3])
                bodies, intro = [], []
                for _b in range(nb):
                    per = min(room, 1) if self.tight else room
                    # branches may re-declare what an earlier branch of this construct introduced
                    pool = list(fresh) + [x for x in intro if rng.random() < 0.5]
                    rng.shuffle(pool)
                    body, nn = self.block(depth + 1, set(declared), pool, per, 3)
                    bodies.append(body)
                    for x in nn:
                        if x not in intro:
                            intro.append(x)
                        if x in fresh:
                            fresh.remove(x)
                for x in intro:
                    declared.add(x)
                    new.append(x)
                stmts.append((k, bodies, rng.random() < 0.5) if k == "if" else (k, bodies))
            elif k == "wh":
                body, nn = self.block(depth + 1, set(declared), fresh, room, 3)
                for x in nn:
                    declared.add(x)
                    new.append(x)
                stmts.append(("wh", body))
            else:
                self.loopvars += 1
                v = f"i{self.loopvars}_"
                body, nn = self.block(depth + 1, set(declared), fresh, room, 3)
                for x in nn:
                    declared.add(x)
                    new.append(x)
                stmts.append(("for", v, body))
        return stmts, new

    def program(self, shape=None):
        rng = self.rng
        declared = {"cnd"}
        fresh = list(self.names)
        rng.shuffle(fresh)
        items = [("s", ("a", "cnd", 0))]
        self.ty["cnd"] = 0
        nparts = rng.randint(1, 4)
        for _ in range(nparts):
            part = rng.choice(["top", "top", "def", "main"]) if shape is None else shape
            if part == "top":
                body, _new = self.block(0, declared, fresh, 6, 3)
                items += [("s", s) for s in body]
            elif part == "def":
                self.fnames += 1
                sub = [fresh.pop() for _ in range(min(len(fresh), rng.randint(0, 4)))]
                body, _new = self.block(1, set(declared), sub, 6, 4)
                items.append(("def", f"fn{self.fnames}_", body))
            elif part == "main" and not any(i[0] == "main" for i in items):
                body, _new = self.block(1, declared, fresh, 6, 4)
                items.append(("main", body))
        # the main loop must be the last thing: everything after `while True:` at column 0 still goes to setup, keep simple
        mains = [i for i in items if i[0] == "main"]
        return [i for i in items if i[0] != "main"] + mains


def template_programs(rng):
    """k = 0..6 names first assigned in one construct body, for each construct, at top level / in a function / in the
    main loop / nested in another construct"""
    out = []
    for k in range(0, 7):
        for kind in ("if", "ifelse", "elif3", "wh", "for", "try"):
            for place in ("top", "def", "main", "in_if", "in_wh", "in_for", "in_try"):
                if rng.random() < 0.35 and not (k in (1, 2, 5) and place in ("top", "def")):
                    continue
                g = SkelGen(rng, k + 2, tight=False)
                names = g.names[:k]
                extra = g.names[k:]

                def body_of(ns):
                    b = [g.assign(x) for x in ns]
                    return b or [("a", "cnd", 0)]
                if kind == "if":
                    c = ("if", [body_of(names)], False)
                elif kind == "ifelse":
                    h = (k + 1) // 2
                    c = ("if", [body_of(names[:h]), body_of(names[h:] + names[:1])], True)
                elif kind == "elif3":
                    c = ("if", [body_of(names[0::3]), body_of(names[1::3] + names[:1]), body_of(names[2::3])], rng.random() < 0.5)
                elif kind == "wh":
                    c = ("wh", body_of(names))
                elif kind == "for":
                    c = ("for", "i1_", body_of(names))
                else:
                    h = (k + 1) // 2
                    c = ("try", [body_of(names[:h]), body_of(names[h:])])
                g.ty["cnd"] = 0
                pre = [("s", ("a", "cnd", 0))]
                if place == "top":
                    items = pre + [("s", c)]
                elif place == "def":
                    items = pre + [("def", "fn1_", [c, g.assign(extra[0])])]
                elif place == "main":
                    items = pre + [("main", [c, g.assign(extra[0])])]
                elif place == "in_if":
                    items = pre + [("s", ("if", [[g.assign(extra[0]), c], [g.assign(extra[1])]], True))]
                elif place == "in_wh":
                    items = pre + [("def", "fn1_", [("wh", [c, g.assign(extra[0])])])]
                elif place == "in_for":
                    items = pre + [("s", ("for", "i9_", [g.assign(extra[0]), c]))]
                else:
                    items = pre + [("main", [("try", [[c], [g.assign(extra[0])]])])]
                out.append({"items": items, "ty": dict(g.ty), "origin": f"template k={k} {kind} {place}"})
    # branches typing the same name differently (typed from the first branch that declares it)
    for _ in range(6):
        g = SkelGen(rng, 3, tight=True)
        x, y, z = g.names
        t1, t2 = rng.sample([0, 1, 2, 3], 2)
        items = [("s", ("a", "cnd", 0)),
                 ("s", ("if", [[("a", x, t1)], [("a", x, t2), ("a", x, t1)], [("a", y, t2)]], True)),
                 ("def", "fn1_", [("try", [[("a", z, t2)], [("a", z, t1)]])])]
        out.append({"items": items, "ty": dict(g.ty), "origin": "template flex-types"})
    return out


def family_skeletons(rng, n):
    """skeleton programs whose hoisted names are one NAME FAMILY (harness/props/c10_twins.py: names that tie under plausible
    non-injective sort keys - key1 / key01 / Key1 / key_1 ...): the order sorted() gives them is under the correspondence"""
    from harness.props import c10_twins
    out = []
    for k in range(n):
        names, kinds = c10_twins.name_family(rng, {"cnd"})
        g = SkelGen(rng, 2, tight=False)
        g.names = list(names)
        t = rng.choice([0, 1, 2, 3])
        g.ty = {x: t for x in names}
        g.ty["cnd"] = 0
        h = max(1, len(names) // 2)
        order = list(names)
        rng.shuffle(order)
        body = [g.assign(x) for x in order]
        shape = ["if", "ifelse", "try", "wh", "for", "nested"][k % 6]
        if shape == "if":
            c = ("if", [body], False)
        elif shape == "ifelse":
            c = ("if", [body[:h], body[h:] + body[:1]], True)
        elif shape == "try":
            c = ("try", [body[:h], list(reversed(body))])
        elif shape == "wh":
            c = ("wh", [("if", [body], False)])
        elif shape == "for":
            c = ("for", "i1_", [("try", [body, [("a", "cnd", 0)]])])
        else:
            c = ("if", [[("wh", body[:h])], body], True)
        pre = [("s", ("a", "cnd", 0))]
        place = ["top", "def", "main"][(k // 6) % 3]
        items = pre + ([("s", c)] if place == "top" else [("def", "fn1_", [c])] if place == "def" else [("main", [c])])
        out.append({"items": items, "ty": dict(g.ty), "origin": "template name-family " + "+".join(kinds)})
    return out


def render(items, rng):
    lines = []
    cnt = [0]

    def cond():
        cnt[0] += 1
        return f"cnd > {cnt[0] % 5}"

    def lit(t):
        return rng.choice(LITS[t])

    def block(stmts, ind):
        pad = "    " * ind
        for s in stmts:
            if s[0] == "a":
                lines.append(f"{pad}{s[1]} = {lit(s[2])}")
            elif s[0] == "if":
                bodies, has_else = s[1], s[2] and len(s[1]) > 1
                for j, b in enumerate(bodies):
                    if j == 0:
                        lines.append(f"{pad}if {cond()}:")
                    elif has_else and j == len(bodies) - 1:
                        lines.append(f"{pad}else:")
                    else:
                        lines.append(f"{pad}elif {cond()}:")
                    block(b, ind + 1)
            elif s[0] == "wh":
                lines.append(f"{pad}while cnd < {rng.randint(2, 9)}:")
                block(s[1], ind + 1)
            elif s[0] == "for":
                lines.append(f"{pad}for {s[1]} in range({rng.randint(1, 5)}):")
                block(s[2], ind + 1)
            elif s[0] == "try":
                lines.append(f"{pad}try:")
                block(s[1][0], ind + 1)
                for j, h in enumerate(s[1][1:]):
                    lines.append(f"{pad}except {'ValueError' if j else 'Exception'}{' as err' if j % 2 else ''}:")
                    block(h, ind + 1)

    for it in items:
        if it[0] == "s":
            block([it[1]], 0)
        elif it[0] == "def":
            lines.append(f"def {it[1]}():")
            block(it[2], 1)
        else:
            lines.append("while True:")
            block(it[1], 1)
    return "\n".join(lines) + "\n"


def wire_stmt(s, tags, path):
    """tags: dict path -> rank list"""
    o = list(tags.get(path, []))
    if s[0] == "a":
        return [0, s[1], s[2]]
    if s[0] == "if":
        return [1, o, [[wire_stmt(x, tags, path + (j, i)) for i, x in enumerate(b)] for j, b in enumerate(s[1])]]
    if s[0] == "wh":
        return [2, o, [wire_stmt(x, tags, path + (0, i)) for i, x in enumerate(s[1])]]
    if s[0] == "for":
        return [3, o, s[1], [wire_stmt(x, tags, path + (0, i)) for i, x in enumerate(s[2])]]
    if s[0] == "try":
        return [4, o, [[wire_stmt(x, tags, path + (j, i)) for i, x in enumerate(b)] for j, b in enumerate(s[1])]]
    raise ValueError(s)


def wire_items(items, tags):
    out = []
    for k, it in enumerate(items):
        if it[0] == "s":
            out.append([0, wire_stmt(it[1], tags, (k,))])
        elif it[0] == "def":
            out.append([1, it[1], [wire_stmt(x, tags, (k, i)) for i, x in enumerate(it[2])]])
        else:
            out.append([2, [wire_stmt(x, tags, (k, i)) for i, x in enumerate(it[1])]])
    return [0, out]


# ---------------------------------------------------------------------------------------------------------
# the emitted C++ of a skeleton program -> the same tree vocabulary as the model's output
# ---------------------------------------------------------------------------------------------------------
DECL_RE = re.compile(r"^\s*(int|float|bool|String)\s+([A-Za-z_]\w*)\s*=\s*(.*);$")
ASSIGN_RE = re.compile(r"^\s*([A-Za-z_]\w*)\s*=\s*(.*);$")
FUNC_RE = re.compile(r"^(\w[\w<>]*)\s+(\w+)\((.*)\)\s*\{$")
# forward declaration of a user function (emitted after the globals since the fix "forward-declare functions"; C10 is about
# determinism, so the reader accepts a sketch with or without them - a declaration must belong to a definition, though)
PROTO_RE = re.compile(r"^(\w[\w<>]*)\s+(\w+)\((.*)\);$")
FOR_RE = re.compile(r"^\s*for \(int (\w+) = 0;")


def tokens_of(lines):
    toks = []
    for ln in lines:
        t = ln.strip()
        if not t or t.startswith("//"):
            continue
        m = DECL_RE.match(t)
        if m:
            toks.append(("D", m.group(2), TYPES.index(m.group(1))))
            continue
        if t.startswith("if ("):
            toks.append(("IF",))
        elif t.startswith("else if (") or t == "else {" or t.startswith("catch ("):
            toks.append(("BR",))
        elif t.startswith("while ("):
            toks.append(("WH",))
        elif FOR_RE.match(t):
            toks.append(("FOR", FOR_RE.match(t).group(1)))
        elif t == "try {":
            toks.append(("TRY",))
        elif t == "}":
            toks.append(("END",))
        else:
            m = ASSIGN_RE.match(t)
            if not m:
                raise ValueError("unexpected line in skeleton output: " + t)
            toks.append(("A", m.group(1)))
    return toks


def tree_of(toks):
    pos = [0]

    def block():
        nodes = []
        while pos[0] < len(toks) and toks[pos[0]][0] not in ("END",):
            t = toks[pos[0]]
            if t[0] == "D":
                nodes.append([0, t[1], t[2]])
                pos[0] += 1
            elif t[0] == "A":
                nodes.append([1, t[1]])
                pos[0] += 1
            elif t[0] in ("IF", "TRY"):
                pos[0] += 1
                brs = [block()]
                expect_end()
                while pos[0] < len(toks) and toks[pos[0]][0] == "BR":
                    pos[0] += 1
                    brs.append(block())
                    expect_end()
                nodes.append([2 if t[0] == "IF" else 5, brs])
            elif t[0] == "WH":
                pos[0] += 1
                b = block()
                expect_end()
                nodes.append([3, b])
            elif t[0] == "FOR":
                pos[0] += 1
                b = block()
                expect_end()
                nodes.append([4, t[1], b])
            else:
                raise ValueError(f"stray token {t}")
        return nodes

    def expect_end():
        if pos[0] >= len(toks) or toks[pos[0]][0] != "END":
            raise ValueError("unbalanced block")
        pos[0] += 1

    nodes = block()
    if pos[0] != len(toks):
        raise ValueError("unbalanced block at top")
    return nodes


EXC_DECL_RE = re.compile(r"^(?:namespace \w+ \{ )*struct \w+ \{\};(?: \})*$")


def observe(cpp):
    """-> {"globals": [[name, ty]], "funs": [[f, nodes]], "setup": nodes, "loop": nodes}"""
    lines = cpp.splitlines()
    i = 0
    glob, funs, setup, loop = [], [], [], []
    protos = []
    while i < len(lines):
        ln = lines[i]
        if ln.startswith("#include") or not ln.strip():
            i += 1
            continue
        m = PROTO_RE.match(ln)
        if m:                                 # must be the header of a definition further down (checked below)
            protos.append((m.group(1), m.group(2), m.group(3)))
            i += 1
            continue
        m = FUNC_RE.match(ln)
        if m:
            j = i + 1
            body = []
            while j < len(lines) and lines[j] != "}":
                body.append(lines[j])
                j += 1
            nodes = tree_of(tokens_of(body))
            if m.group(2) == "setup":
                setup = nodes
            elif m.group(2) == "loop":
                loop = nodes
            else:
                funs.append([m.group(2), nodes])
                if (m.group(1), m.group(2), m.group(3)) in protos:
                    protos.remove((m.group(1), m.group(2), m.group(3)))
            i = j + 1
            continue
        m = DECL_RE.match(ln)
        if m:
            glob.append([m.group(2), TYPES.index(m.group(1))])
            i += 1
            continue
        if EXC_DECL_RE.match(ln):             # the class of an `except <Name>:` clause, declared at file scope since the repair of
            i += 1                            # F-C06-named-except (coq/Lang/ExcDecl.v of C06): no variable, not part of this model
            continue
        raise ValueError("unexpected top-level line: " + ln)
    if protos:
        raise ValueError("forward declaration without a definition: " + protos[0][1])
    return {"globals": glob, "funs": funs, "setup": setup, "loop": loop}


def decode_model(m):
    """wire output of case 0 -> same shape as observe() (+ ok)"""
    def node(n):
        k = n[0]
        if k == 0:
            return [0, C.wstr(n[1]), n[2]]
        if k == 1:
            return [1, C.wstr(n[1])]
        if k in (2, 5):
            return [k, [[node(x) for x in b] for b in n[1]]]
        if k == 3:
            return [3, [node(x) for x in n[1]]]
        return [4, C.wstr(n[1]), [node(x) for x in n[2]]]
    _, g, f, s, l, ok = m
    return {"globals": [[C.wstr(d[0]), d[1]] for d in g], "funs": [[C.wstr(x[0]), [node(n) for n in x[1]]] for x in f],
            "setup": [node(n) for n in s], "loop": [node(n) for n in l]}, bool(ok)


# ---------------------------------------------------------------------------------------------------------
# ordinary (device) programs: every other set of the transpiler gets several elements
# ---------------------------------------------------------------------------------------------------------
IMPORTS = """from Reduino.Actuators import Led, RGBLed, Buzzer, Servo, DCMotor
from Reduino.Sensors import Button, Potentiometer, Ultrasonic
from Reduino.Displays import LCD
from Reduino.Communication import SerialMonitor
from Reduino.Utils import sleep
from Reduino.Core import pin_mode, digital_write, analog_write, digital_read, analog_read, OUTPUT, INPUT, HIGH, LOW
"""


def device_program(rng, skeleton=None, skeleton_ty=None):
    """-> (source, features).  Variables are first assigned at column 0 / at function top level only, never inside a
    block, so the device part triggers no promotion: the program is inside the guard iff the skeleton part is."""
    taken = set()
    if skeleton is not None:
        taken |= set(skeleton_ty)
    pins = list(range(2, 54))
    rng.shuffle(pins)
    pin = iter(pins + pins + pins)
    top, loop, feats = [], [], {}

    def names(n):
        return fresh_names(rng, n, taken)

    mon = None
    if rng.random() < 0.8:
        mon, = names(1)
        top.append(f"{mon} = SerialMonitor({rng.choice([9600, 115200])})")
        feats["serial"] = 1
    leds = names(rng.randint(0, 4))
    for l in leds:
        top.append(f"{l} = Led({next(pin)})")
    feats["leds"] = len(leds)
    for l in leds:
        top.append(rng.choice([f"{l}.on()", f"{l}.set_brightness({rng.randint(0, 255)})", f"{l}.blink(100, times=2)",
                               f"{l}.flash_pattern([1, 0, 1], delay_ms=50)", f"{l}.fade_in(step=5, delay_ms=2)"]))
        loop.append(rng.choice([f"{l}.toggle()", f"{l}.off()", f"{l}.fade_out(step=15, delay_ms=1)"]))
    rgbs = names(rng.randint(0, 2))
    for r in rgbs:
        top.append(f"{r} = RGBLed({next(pin)}, {next(pin)}, {next(pin)})")
        top.append(rng.choice([f"{r}.set_color(0, 128, 255)", f"{r}.fade(255, 0, 0, duration_ms=300)", f"{r}.on()"]))
        loop.append(rng.choice([f"{r}.blink(1, 2, 3, times=2, delay_ms=20)", f"{r}.off()"]))
    feats["rgbs"] = len(rgbs)
    bzs = names(rng.randint(0, 2))
    for b in bzs:
        top.append(f"{b} = Buzzer({next(pin)})")
        top.append(rng.choice([f'{b}.melody("startup")', f"{b}.play_tone(440, duration_ms=100)", f"{b}.beep(frequency=880, on_ms=10, off_ms=10, times=3)"]))
        loop.append(rng.choice([f"{b}.sweep(200, 800, 100, steps=5)", f"{b}.stop()"]))
    feats["buzzers"] = len(bzs)
    svs = names(rng.randint(0, 3))
    for s in svs:
        top.append(f"{s} = Servo({next(pin)})")
        top.append(f"{s}.write({rng.randint(0, 180)})")
        loop.append(rng.choice([f"{s}.write_us(1500)", f"{s}.write(10)"]))
    feats["servos"] = len(svs)
    mts = names(rng.randint(0, 2))
    for m in mts:
        top.append(f"{m} = DCMotor({next(pin)}, {next(pin)}, {next(pin)})")
        top.append(rng.choice([f"{m}.set_speed(0.5)", f"{m}.run_for(100, speed=1.0)", f"{m}.invert()"]))
        loop.append(rng.choice([f"{m}.ramp(-1.0, duration_ms=80)", f"{m}.stop()", f"{m}.coast()", f"{m}.backward(0.25)"]))
    feats["motors"] = len(mts)
    pots = names(rng.randint(0, 3))
    for p in pots:
        v, = names(1)
        top.append(f'{p} = Potentiometer("A{rng.randint(0, 5)}")')
        top.append(f"{v} = {p}.read()")
        loop.append(f"{v} = {p}.read()")
        if mon:
            loop.append(f"{mon}.write({v})")
    feats["pots"] = len(pots)
    # ultrasonic sensors: measure calls from setup, loop and callbacks (ultrasonic_measure_calls, sorted in emit)
    uss = names(rng.randint(0, 5))
    us_vars = {}
    for u in uss:
        top.append(rng.choice([f"{u} = Ultrasonic({next(pin)}, {next(pin)})", f"{u} = Ultrasonic(trig={next(pin)}, echo={next(pin)})"]))
    us_order = list(uss)
    rng.shuffle(us_order)
    for u in us_order:
        v, = names(1)
        us_vars[u] = v
        top.append(f"{v} = {u}.measure_distance()")
        if rng.random() < 0.6:
            loop.append(f"{v} = {u}.measure_distance()")
    feats["ultrasonics"] = len(uss)
    # LCDs with animations (lcd_tick_names, sorted in parse)
    lcds = names(rng.randint(0, 4))
    for l in lcds:
        if rng.random() < 0.5:
            top.append(f"{l} = LCD(rs={next(pin)}, en={next(pin)}, d4={next(pin)}, d5={next(pin)}, d6={next(pin)}, d7={next(pin)})")
        else:
            top.append(f"{l} = LCD(i2c_addr=0x{rng.choice(['27', '3F', '20'])}, cols={rng.choice([16, 20])}, rows={rng.choice([2, 4])})")
    lcd_order = list(lcds)
    rng.shuffle(lcd_order)
    n_anim = 0
    for l in lcd_order:
        for _ in range(rng.randint(0, 2)):
            st = rng.choice(["scroll", "blink", "typewriter", "bounce"])
            top.append(f'{l}.animate("{st}", {rng.randint(0, 1)}, "T{n_anim}", speed_ms={rng.choice([90, 150, 200])}, loop={rng.choice(["True", "False"])})')
            n_anim += 1
        top.append(rng.choice([f'{l}.line(0, "hello", align="center")', f'{l}.message("Top", bottom="Bottom")',
                               f'{l}.progress(1, 30, max_value=100, width=12, label="L")', f"{l}.glyph(0, [0, 2, 5, 8, 8, 5, 2, 0])",
                               f'{l}.write(0, 0, "x")']))
    feats["lcds"] = len(lcds)
    feats["lcd_anims"] = n_anim
    # buttons with callbacks (button_poll_names, sorted in parse); callbacks may poll other devices
    btns = names(rng.randint(0, 6))
    defs = []
    btn_order = list(btns)
    rng.shuffle(btn_order)
    for b in btn_order:
        if rng.random() < 0.6:
            cb, = names(1)
            body = []
            if leds:
                body.append(f"    {rng.choice(leds)}.toggle()")
            if uss and rng.random() < 0.5:
                u = rng.choice(uss)
                w, = names(1)
                body.append(f"    {w} = {u}.measure_distance()")
                if mon:
                    body.append(f"    {mon}.write({w})")
            if not body:
                body.append("    sleep(1)")
            defs.append(f"def {cb}():\n" + "\n".join(body))
            top.append(rng.choice([f"{b} = Button({next(pin)}, on_click={cb})", f"{b} = Button(pin={next(pin)}, on_click={cb})"]))
        else:
            top.append(f"{b} = Button({next(pin)})")
        if rng.random() < 0.5 and leds:
            loop.append(f"if {b}.is_pressed():\n        {rng.choice(leds)}.on()")
    feats["buttons"] = len(btns)
    # lists, len, functions with several call signatures, tuple swap (temporaries), core pins
    if rng.random() < 0.7:
        xs, n1 = names(2)
        top.append(f"{xs} = [{', '.join(str(rng.randint(0, 9)) for _ in range(rng.randint(1, 4)))}]")
        top.append(f"{xs}.append({rng.randint(0, 9)})")
        top.append(f"{n1} = len({xs})")
        if rng.random() < 0.5:
            ys, = names(1)
            top.append(f"{ys} = [{xs[0] if False else 'k'} * 2 for k in range(4)]")
        loop.append(f"{n1} = len({xs})")
        feats["lists"] = 1
    if rng.random() < 0.7:
        f, a, b, r1, r2 = names(5)
        defs.append(f"def {f}({a}, {b}):\n    return {a} + {b}")
        top.append(f"{r1} = {f}(1, 2)")
        top.append(f"{r2} = {f}(1.5, 2)")
        if rng.random() < 0.5:
            r3, = names(1)
            top.append(f"{r3} = {f}(2, 2.5)")
        feats["functions"] = 1
    if rng.random() < 0.7:
        p, q = names(2)
        top.append(f"{p}, {q} = 1, 2")
        loop.append(f"{p}, {q} = {q}, {p}")
        if rng.random() < 0.5:
            loop.append(f"{q}, {p} = {p} + 1, {q}")
        feats["tuple_swaps"] = 1
    if rng.random() < 0.5:
        pn = next(pin)
        top.append(f"pin_mode({pn}, OUTPUT)")
        top.append(f"digital_write({pn}, HIGH)")
        a, = names(1)
        top.append(f"{a} = analog_read(A0)")
        loop.append(f"analog_write({next(pin)}, {a} / 4)")
    if rng.random() < 0.5:
        loop.append("try:\n        sleep(1)\n    except Exception:\n        sleep(2)")
    loop.append(f"sleep({rng.randint(1, 50)})")
    # a few statements move between setup order positions so that insertion histories of the sets differ
    head = [t for t in top if "= " in t and "(" in t and not t.split("=")[1].strip().startswith(("len", "["))]
    src = IMPORTS + "\n".join(defs[: len(defs) // 2]) + ("\n" if defs else "")
    # devices must exist before the callbacks that use them are parsed: declarations first
    decl = [t for t in top if re.match(r"^\w+ = (Led|RGBLed|Buzzer|Servo|DCMotor|Potentiometer|Ultrasonic|LCD|SerialMonitor)\(", t)]
    btn_decl = [t for t in top if re.match(r"^\w+ = Button\(", t)]
    rest = [t for t in top if t not in decl and t not in btn_decl]
    src = IMPORTS + "\n".join(decl) + "\n" + "\n".join(defs) + "\n" + "\n".join(btn_decl) + "\n" + "\n".join(rest) + "\n"
    main_extra = ""
    if skeleton is not None:
        sk_items = [i for i in skeleton if i[0] != "main"]
        sk_main = [i for i in skeleton if i[0] == "main"]
        src += render(sk_items, rng)
        if sk_main:
            main_extra = "\n".join(render([("def", "x", sk_main[0][1])], rng).splitlines()[1:]) + "\n"
    src += "while True:\n" + main_extra + "".join(f"    {l}\n" for l in loop)
    return src, feats


# ---------------------------------------------------------------------------------------------------------
# running the implementation
# ---------------------------------------------------------------------------------------------------------
OTHER_PYTHONS = ["/usr/bin/python3.11", "/root/miniconda/bin/python", "/root/.pyenv/versions/3.10.13/bin/python"]


# another process environment: locale, time zone, home, terminal width, and the verification hook switched off
OTHER_ENV = {"LANG": "tr_TR.UTF-8", "LC_ALL": "C", "TZ": "Pacific/Kiritimati", "HOME": "/nonexistent", "COLUMNS": "20", "USER": "someone-else",
             "REDUINO_VERIF": "0", "PYTHONUTF8": "1"}


def transpile(sources, seed, texts=False, script=None, adv=None, python=None, env=None):
    payload = {"mode": "session" if script is not None else "transpile", "sources": sources, "texts": texts}
    if script is not None:
        payload["script"] = script
    if adv:
        payload["adv"] = adv
    kw = {"python": python} if python else {}
    r = C.run_impl("c10_impl.py", payload, env_extra={"PYTHONHASHSEED": str(seed), **(env or {})}, timeout=1200, **kw)
    if str(r.get("hashseed")) != str(seed):
        raise RuntimeError(f"runner reports hash seed {r.get('hashseed')} instead of {seed}")
    if (r.get("adv") or None) != (adv or None):
        raise RuntimeError(f"runner reports set order {r.get('adv')} instead of {adv}")
    return r


def other_env():
    """OTHER_ENV + the package reached through another path (a symbolic link to the same source tree): a text that embeds
    __file__, the home directory or the user name is not a function of the source"""
    import os
    alt = C.BUILD / "c10-elsewhere" / "site-packages-of-someone-else"
    try:
        alt.parent.mkdir(parents=True, exist_ok=True)
        if alt.is_symlink() and os.readlink(alt) != str(C.REPO / "src"):
            alt.unlink()
        if not alt.exists():
            os.symlink(str(C.REPO / "src"), str(alt))
        return {**OTHER_ENV, "PYTHONPATH": str(alt)}
    except OSError:
        return dict(OTHER_ENV)


def run_variant(sources, v, seed0, texts=False):
    """v = ("seed", n): PYTHONHASHSEED=n;  ("adv", key): dictated set order `key` under PYTHONHASHSEED=seed0"""
    if v[0] == "seed":
        return transpile(sources, v[1], texts=texts)
    if v[0] == "py":
        return transpile(sources, v[2], texts=texts, python=v[1])
    if v[0] == "env":
        return transpile(sources, seed0, texts=texts, env=other_env())
    return transpile(sources, seed0, texts=texts, adv=v[1])


def vname(v):
    if v[0] == "py":
        return f"{v[1]} PYTHONHASHSEED={v[2]}"
    if v[0] == "env":
        return "environment " + " ".join(f"{k}={x}" for k, x in sorted(OTHER_ENV.items()))
    return f"PYTHONHASHSEED={v[1]}" if v[0] == "seed" else f"set-order={v[1]}"


def udiff(a, b, la, lb, limit=60):
    d = list(difflib.unified_diff(a.splitlines(), b.splitlines(), la, lb, lineterm="", n=1))
    return d[:limit]


def differing_lines(a, b, limit=12):
    out = []
    for x, y in zip(a.splitlines(), b.splitlines()):
        if x != y:
            out.append([x, y])
            if len(out) >= limit:
                break
    return out


def load_findings(ctx):
    """the package's own file first (known_findings.d/C10.json), then whatever the merged known_findings.json adds"""
    fs = {}
    p = C.VERIF / "known_findings.d" / "C10.json"
    if p.exists():
        for f in json.loads(p.read_text()):
            fs.setdefault(f["id"], f)
    for f in ctx.findings:
        fs.setdefault(f["id"], f)
    return list(fs.values())


def replay_finding(f):
    """-> (still_fails, detail): the witness script transpiled in one fresh process per listed hash seed"""
    w = f["witness"]
    shas = {}
    for s in w["seeds"]:
        r = transpile([w["script"]], s, texts=True)["results"][0]
        shas[s] = (r["sha"], r.get("cpp", ""))
    distinct = {v[0] for v in shas.values()}
    detail = {}
    for s, (sha, cpp) in shas.items():
        try:
            names = " ".join(g[0] for g in observe(cpp)["globals"])
        except ValueError:
            names = None
        detail[str(s)] = {"sha256": sha[:16], "global_declaration_order": names}
    return len(distinct) > 1, detail


def replay_fixed_findings(ctx):
    """A fixed entry suppresses nothing: its witness must now PASS.  If it fails again the defect has returned and is reported
    as a violation whose replay is the witness (never as a KNOWN-FINDING).  Open entries (kind "finding") are replayed and
    listed as KNOWN-FINDING while they still fail."""
    n = 0
    for f in load_findings(ctx):
        if f.get("property") != "C10" or "script" not in f.get("witness", {}):
            continue
        still, detail = replay_finding(f)
        n += 1
        if f.get("kind") == "fixed":
            if still:
                ctx.fail(f"{f['id']} (recorded as fixed, commit {f.get('commit')}) is back: " + f["what"],
                         {"witness": f["witness"], "observed_per_hash_seed": detail, "replay": f["witness"].get("replay")},
                         expected="one sha256 / one declaration order for all hash seeds",
                         observed=f"{len({d['sha256'] for d in detail.values()})} different texts", key=f["id"])
        elif still:
            ctx.known(f"{f['id']}: {f['what']}")
    return n


def promotion_shape():
    """-> (shape, detail), a measured description of the source under test (evidence only, no verdict depends on it).
    'sorted': the hoisting order of _promote_branch_decls does not move with the dictated iteration order of the set and
    the inventory shows no unsorted set iteration in it (the code as repaired);  'follows-set-order': the order is the
    dictated one (the code before the repair of F-C10-promotion-order);  'other': anything else."""
    names = ["nb", "na", "nd", "nc"]
    orders = [names, list(reversed(names)), ["nc", "na", "nd", "nb"], sorted(names)]
    cases = [{"parent": [], "branches": [{"order": o, "types": {n: "int" for n in names}}], "else": False} for o in orders]
    rs = C.run_impl("c10_impl.py", {"mode": "promote", "cases": cases})["results"]
    got = [r.get("order") for r in rs]
    follows = all(g == o for g, o in zip(got, orders))
    constant = None not in got and len({tuple(g) for g in got}) == 1 and sorted(got[0]) == sorted(names)
    unsorted_sites = None
    try:
        from harness.gen import setsites

        def _die(msg):
            raise RuntimeError(msg)
        sites, _state = setsites.analyse(C.REPO / "src" / "Reduino" / "transpile", _die)
        unsorted_sites = [f"{x['file']}:{x['line']} {x['fn']} {x['iter']}" for x in sites if x["class"] == 0]
    except Exception as e:  # noqa - the translator step has already reported it
        unsorted_sites = [f"inventory failed: {e}"]
    detail = {"observed_orders_for_4_dictated_orders": got, "unsorted_set_iterations_reaching_a_consumer": unsorted_sites}
    if constant and not unsorted_sites:
        return "sorted", detail
    if follows:
        return "follows-set-order", detail
    return "other", detail


# ---------------------------------------------------------------------------------------------------------
def run(ctx: C.Ctx):
    rng = ctx.rng
    thorough = ctx.tier == "thorough"
    seeds = [0, 1, 2, 3] + ([rng.randrange(4, 2 ** 32 - 1) for _ in range(4)] if thorough else [])
    dist = {}
    import time as _time
    _t = [_time.time()]
    _secs = {}

    def _tick(label):
        now = _time.time()
        _secs[label] = round(now - _t[0], 1)
        _t[0] = now
    dist["seconds_per_stage(measured, informative)"] = _secs
    shape, shape_detail = promotion_shape()
    dist["promotion_shape_of_the_current_source"] = {"shape": shape, **shape_detail}

    # ------------------------------------------------------------------ listed findings first: a fixed one that fails again is
    # the first violation reported, with its witness as the replay
    dist["listed_witnesses_replayed"] = replay_fixed_findings(ctx)

    _tick("start")
    # ------------------------------------------------------------------ skeleton programs
    skels = template_programs(rng)
    n_rand = 500 if thorough else 70
    for k in range(n_rand):
        tight = k % 2 != 0          # half of them outside the guard F-C10-promotion-order used to need
        g = SkelGen(rng, rng.randint(2, 8), tight=tight)
        skels.append({"items": g.program(), "ty": dict(g.ty), "origin": "random " + ("tight" if tight else "loose")})
    if not thorough:
        # keep the quick tier inside its budget: all random programs + a seeded sample of the templates
        tmpl = [s for s in skels if s["origin"].startswith("template")]
        rnd = [s for s in skels if not s["origin"].startswith("template")]
        skels = rng.sample(tmpl, min(len(tmpl), 110)) + rnd
    # hoisted names that tie under plausible non-injective sort keys (key1 / key01 / Key1 ...)
    skels += family_skeletons(rng, 90 if thorough else 24)
    for s in skels:
        s["src"] = render(s["items"], rng)

    # every program is under the byte-identity oracle (C10_order_independent has no guard).  The model also says which programs
    # lie outside the guard the finding used to need (o_ok false: some branch contributes two or more new names) - measured.
    have_model = ctx.exe is not None
    for s in skels:
        s["in_guard"] = True
    if have_model:
        outs0 = ctx.model([wire_items(s["items"], {}) for s in skels])
        for s, m in zip(skels, outs0):
            if m[0] != 0:
                ctx.disagree("model could not decode a generated program", s["src"], m, None)
                continue
            s["model0"], s["model_ok"] = decode_model(m)

    # ------------------------------------------------------------------ ordinary and mixed programs
    n_dev = 160 if thorough else 26
    devs = []
    for k in range(n_dev):
        src, feats = device_program(rng)
        devs.append({"src": src, "feats": feats, "origin": "device", "in_guard": True})
    guard_skels = [s for s in skels if s["origin"].startswith("random")]
    rng.shuffle(guard_skels)
    for k in range(min(len(guard_skels), 80 if thorough else 12)):
        sk = guard_skels[k]
        src, feats = device_program(rng, skeleton=sk["items"], skeleton_ty=sk["ty"])
        devs.append({"src": src, "feats": feats, "origin": "mixed", "in_guard": True, "model_ok": sk.get("model_ok")})

    # near-collisions of NAMES: every sorted() site gets names that tie under plausible non-injective keys, on devices that also
    # share their other attributes (harness/props/c10_twins.py)
    from harness.props import c10_twins
    for k in range(150 if thorough else 36):
        src, feats = c10_twins.collision_program(rng, k)
        devs.append({"src": src, "feats": feats, "origin": "collision", "in_guard": True})

    # helper programs (function variants for several call signatures, nested / recursive helpers, calls before the def) and LCD glyph
    # scripts: the programs of harness/props/c10_purity.py also go through every oracle below
    from harness.props import c10_purity
    for src, origin in c10_purity.extra_corpus(rng, thorough):
        devs.append({"src": src, "feats": {}, "origin": origin, "in_guard": True})

    # functions / expressions that JOIN values of several types (a value chosen from a set of type labels, not an order of emitted
    # items): harness/props/c10_choice.py - through every oracle below, and under further hash seeds
    from harness.props import c10_choice
    for src, origin in c10_choice.join_corpus(rng, thorough):
        devs.append({"src": src, "feats": {}, "origin": origin, "in_guard": True})

    progs = skels + devs
    sources = [p["src"] for p in progs]

    _tick("generated")
    # ------------------------------------------------------------------ transpile under every seed (one process per seed)
    adv_keys = ["asc", "desc", "k%d" % rng.randrange(10 ** 6)] + (["k%d" % rng.randrange(10 ** 6) for _ in range(3)] if thorough else [])
    variants = [("seed", sd) for sd in seeds] + [("adv", k) for k in adv_keys] + [("env", "other")]
    v0 = variants[0]
    per_seed = {}
    for v in variants:
        per_seed[v] = run_variant(sources, v, seeds[0], texts=(v == v0))
    probes = {sd: tuple(per_seed[("seed", sd)]["probe"]) for sd in seeds}
    dist["distinct_set_orders_of_probe_set_across_seeds"] = len(set(probes.values()))
    base = per_seed[v0]["results"]
    evaluations = 0
    n_fail_transpile = 0
    for i, p in enumerate(progs):
        p["ref"] = base[i]
        if not base[i]["ok"]:
            n_fail_transpile += 1
    dist["programs"] = {"skeleton": len(skels), "device": sum(1 for d in devs if d["origin"] == "device"),
                        "mixed": sum(1 for d in devs if d["origin"] == "mixed"), "collision": sum(1 for d in devs if d["origin"] == "collision")}
    tie_kinds = {}
    for d in devs:
        for k in d["feats"].get("name_tie_kinds", []):
            tie_kinds[k] = tie_kinds.get(k, 0) + 1
    dist["collision_programs_by_kind_of_name_tie"] = tie_kinds
    dist["rejected_by_transpiler"] = n_fail_transpile
    for d in devs:
        if not d["ref"]["ok"]:
            ctx.disagree("generated device program is rejected by the transpiler (generator bug)", d["src"], None, d["ref"])

    _tick("variants transpiled")
    # ------------------------------------------------------------------ property oracle 1: hash seeds
    def report(kind, p, a, b, sa, sb, what):
        # fetch both texts for the replay
        ta = run_variant([p["src"]], a, seeds[0], texts=True)["results"][0]
        tb = run_variant([p["src"]], b, seeds[0], texts=True)["results"][0]
        diff = udiff(ta.get("cpp", ""), tb.get("cpp", ""), vname(a), vname(b))
        if b[0] == "py":
            how = f"PYTHONHASHSEED={a[2]} vs {b[2]} with interpreter {b[1]} (PYTHONPATH=/repo/src): emit(parse(program))"
        elif b[0] == "env":
            how = ("same hash seed, another process environment: env " + " ".join(f"{k}={x}" for k, x in sorted(OTHER_ENV.items())) +
                   " PYTHONPATH=/repo/src python -c '... print(emit(parse(open(sys.argv[1]).read())))' program.py")
        elif b[0] == "seed":
            how = (f"PYTHONHASHSEED={a[1]} vs {b[1]}: PYTHONPATH=/repo/src python -c 'import sys; from Reduino.transpile.parser import parse; "
                   "from Reduino.transpile.emitter import emit; print(emit(parse(open(sys.argv[1]).read())))' program.py")
        else:
            how = ('echo \'{"mode": "transpile", "texts": true, "adv": "%s", "sources": [<program>]}\' | PYTHONHASHSEED=%s PYTHONPATH=/repo/src '
                   'python harness/impl/c10_impl.py   (the name `set` of parser.py/emitter.py bound to a set subclass iterating in the dictated order)'
                   % (b[1], seeds[0]))
        ctx.fail(what, {"program": p["src"], "variants": [vname(a), vname(b)], "origin": p["origin"], "unified_diff": diff, "replay": how},
                 expected=f"sha256 {sa[:16]} (byte-identical text)", observed=f"sha256 {sb[:16]}", key=kind)

    n_in_guard = 0
    for i, p in enumerate(progs):
        if not p["in_guard"]:
            continue
        n_in_guard += 1
        for v in variants[1:]:
            evaluations += 1
            sb = per_seed[v]["results"][i]["sha"]
            if sb != p["ref"]["sha"]:
                if v[0] == "env":
                    report("environment", p, v0, v, p["ref"]["sha"], sb,
                           "emitted C++ differs between two processes that differ only in their environment (locale, time zone, home, user, hook switch, path under which the package is found)")
                elif v[0] == "seed":
                    report("hashseed", p, v0, v, p["ref"]["sha"], sb,
                           "emitted C++ differs between two hash seeds")
                else:
                    report("setorder", p, v0, v, p["ref"]["sha"], sb,
                           "emitted C++ depends on the iteration order of the transpiler's sets")
                break
    dist["programs_under_the_byte_identity_oracle"] = n_in_guard
    extra_seeds = list(range(4, 12)) + ([rng.randrange(12, 2 ** 32 - 1) for _ in range(8)] if thorough else [])
    evaluations += c10_choice.run_extra_seeds(ctx, C, transpile, progs, seeds[0], extra_seeds)
    dist["type_join_programs"] = {"programs": sum(1 for p in progs if p["origin"].startswith("join")), "extra_hash_seeds": extra_seeds,
                                  "by_kind": {k: sum(1 for p in progs if p["origin"].startswith("join " + k)) for k in
                                              ("returns", "neighbours", "list-display", "ifexp", "branch-retype", "append", "signatures")},
                                  "returns_of_two_or_more_list_types_and_no_scalar": sum(
                                      1 for p in progs if p["origin"].startswith("join returns") and len(set(p["origin"].split()[-1].split("+"))) > 1
                                      and all(x.startswith("list") for x in p["origin"].split()[-1].split("+")))}
    dist["of_which_outside_the_pre_repair_guard(several new names in one branch)"] = {
        "skeleton": sum(1 for p in skels if p.get("model_ok") is False),
        "mixed": sum(1 for p in devs if p.get("model_ok") is False)}
    dist["dictated_set_orders"] = adv_keys

    # ------------------------------------------------------------------ property oracle 1b: other CPython builds (thorough)
    # each interpreter is compared with ITSELF under two hash seeds (another set implementation, "platforms' set
    # ordering"); differences BETWEEN interpreter versions are only counted - the statement does not constrain them
    import os as _os
    other = [p_ for p_ in OTHER_PYTHONS if _os.path.exists(p_)] if thorough else []
    dist["other_interpreters"] = {}
    for py in other:
        try:
            ra = run_variant(sources, ("py", py, seeds[0]), seeds[0])
            rb = run_variant(sources, ("py", py, seeds[1]), seeds[0])
        except Exception as e:  # noqa - an interpreter that cannot import the package is not evidence of anything
            dist["other_interpreters"][py] = {"unusable": str(e)[:200]}
            continue
        cross = 0
        cross_guard = 0
        for i, p in enumerate(progs):
            if ra["results"][i]["sha"] != p["ref"]["sha"]:
                cross += 1
                cross_guard += 1 if p["in_guard"] else 0
            if not p["in_guard"]:
                continue
            evaluations += 1
            if ra["results"][i]["sha"] != rb["results"][i]["sha"]:
                report("hashseed", p, ("py", py, seeds[0]), ("py", py, seeds[1]), ra["results"][i]["sha"], rb["results"][i]["sha"],
                       "emitted C++ differs between two hash seeds (under another CPython build)")
        dist["other_interpreters"][py] = {"version": ra.get("python"), "programs_differing_from_the_reference_interpreter": cross,
                                           "(not constrained by the statement, recorded only)": True}

    _tick("hash-seed oracle")
    # ------------------------------------------------------------------ property oracle 2: one process, repeated and interleaved
    guard_idx = [i for i, p in enumerate(progs) if p["in_guard"] and p["ref"]["ok"]]
    all_idx = list(range(len(progs)))
    decoys = [i for i, p in enumerate(progs) if p["origin"] in ("device", "mixed")] or all_idx
    script = []
    for i in guard_idx:                       # each twice in a row
        script += [i, i]
    rev = list(reversed(guard_idx))
    for n, i in enumerate(rev):               # reversed order, unrelated programs (also out-of-guard ones) before and after
        script += [rng.choice(decoys), i, rng.choice(all_idx)]
    shuffled = list(guard_idx)
    rng.shuffle(shuffled)
    script += shuffled + shuffled[:: max(1, len(shuffled) // 20)]
    ses = transpile(sources, seeds[0], script=script)["results"]
    n_repeat = 0
    for pos, (i, r) in enumerate(zip(script, ses)):
        p = progs[i]
        if not p["in_guard"]:
            continue
        evaluations += 1
        n_repeat += 1
        if r["sha"] != p["ref"]["sha"]:
            before = [script[j] for j in range(max(0, pos - 3), pos)]
            ctx.fail("emitted C++ of a program depends on what was transpiled before it in the same process",
                     {"program": p["src"], "origin": p["origin"], "position_in_session": pos,
                      "programs_transpiled_just_before": [progs[j]["src"] for j in before][-2:],
                      "session_prefix_length": pos, "hashseed": seeds[0]},
                     expected=f"sha256 {p['ref']['sha'][:16]} (as when transpiled in the reference batch)",
                     observed=f"sha256 {r['sha'][:16]}", key="stateful")
    # fresh processes for a sample: the reference batch itself is one long session
    sample = rng.sample(guard_idx, min(len(guard_idx), 24 if thorough else 8))
    for i in sample:
        r = transpile([progs[i]["src"]], seeds[0])["results"][0]
        evaluations += 1
        if r["sha"] != progs[i]["ref"]["sha"]:
            ctx.fail("emitted C++ in a fresh process differs from the text produced after other transpilations",
                     {"program": progs[i]["src"], "origin": progs[i]["origin"], "hashseed": seeds[0],
                      "reference": "position %d of a batch of %d programs in one process" % (i, len(progs))},
                     expected=f"sha256 {r['sha'][:16]} (fresh process)", observed=f"sha256 {progs[i]['ref']['sha'][:16]}", key="stateful")
    dist["session_steps"] = len(script)
    dist["fresh_process_samples"] = len(sample)

    _tick("sessions oracle")
    # ------------------------------------------------------------------ correspondence 1: skeleton of parse()+emit() vs Order.transl
    n_corr = 0
    n_promoting = 0
    promoted_sizes = {}
    if have_model:
        idx = []
        for si, s in enumerate(skels):
            for v in variants:
                r = per_seed[v]["results"][si]
                if not r["ok"]:
                    ctx.disagree("skeleton program rejected by the transpiler", {"program": s["src"], "variant": vname(v)}, s.get("model0"), r)
                    break
            else:
                idx.append(si)
        # observed texts: the first variant has them; other variants only when the sha differs
        need = {}
        for si in idx:
            for v in variants[1:]:
                if per_seed[v]["results"][si]["sha"] != skels[si]["ref"]["sha"]:
                    need.setdefault(v, []).append(si)
        texts = {(v0, si): skels[si]["ref"]["cpp"] for si in idx}
        for v, lst in need.items():
            rs = run_variant([skels[si]["src"] for si in lst], v, seeds[0], texts=True)["results"]
            for si, r in zip(lst, rs):
                texts[(v, si)] = r["cpp"]
        seen_orders = {}
        for (sd, si), cpp in sorted(texts.items()):
            s = skels[si]
            if "model0" not in s:
                continue
            try:
                obs = observe(cpp)
            except ValueError as e:
                ctx.disagree(f"emitted text of a skeleton program has an unexpected shape: {e}", s["src"], s.get("model0"), cpp[-1500:])
                continue
            n_corr += 1
            # the model's output does not depend on its oracle (C10_order_independent): ONE skeleton per program, whatever the
            # hash seed / dictated set order the text was produced under
            if s["model0"] != obs:
                ctx.disagree("declaration/block skeleton of the emitted text vs Order.transl (hoisted names in sorted order per branch)",
                             {"program": s["src"], "variant": vname(sd), "origin": s["origin"]}, s["model0"], obs)
            seen_orders.setdefault(si, set()).add(json.dumps(obs))
        for si, s in enumerate(skels):
            if "model0" in s:
                hoisted = sum(1 for _ in _iter_hoists(s["model0"]))
                if hoisted:
                    n_promoting += 1
                promoted_sizes[min(hoisted, 8)] = promoted_sizes.get(min(hoisted, 8), 0) + 1
        dist["skeleton_programs_with_more_than_one_observed_order"] = sum(1 for v in seen_orders.values() if len(v) > 1)
    dist["skeleton_correspondence_cases"] = n_corr
    dist["hoisted_declarations_per_program(capped 8)"] = {str(k): v for k, v in sorted(promoted_sizes.items())}

    _tick("skeleton correspondence")
    # ------------------------------------------------------------------ correspondence 2: the real _promote_branch_decls with dictated orders
    n_prom = 0
    if have_model:
        pc, wc = [], []
        n_cases = 4000 if thorough else 400
        for k in range(n_cases):
            nn = rng.randint(1, 7)
            pool = fresh_names(rng, nn + 2, set())
            parent = pool[nn:] if rng.random() < 0.5 else []
            nb = rng.randint(1, 4)
            brs, wbrs, order_all = [], [], []
            for _b in range(nb):
                sz = rng.choice([0, 1, 1, 2, 3, nn])
                names = rng.sample(pool[:nn], min(sz, nn))
                types = {n: rng.choice(TYPES) for n in names}
                if rng.random() < 0.15 and names:
                    del types[names[0]]           # var_types.get(name, "int") default
                order = list(names)
                rng.shuffle(order)
                brs.append({"order": order, "types": types})
                canon = sorted(names)
                wbrs.append([[n, TYPES.index(types.get(n, "int"))] for n in canon])
                order_all.append(order)
            has_else = nb > 1 and rng.random() < 0.5
            pc.append({"parent": parent, "branches": brs, "else": has_else})
            wc.append((parent, wbrs, order_all))
        # one oracle per construct in the model: all branches of one case share it, so dictate consistent orders by rank:
        # the rank list is the concatenation of the branch orders, which sigma_rank uses per branch (first occurrence wins)
        mcases = []
        for (parent, wbrs, order_all), c in zip(wc, pc):
            rank = []
            for o in order_all:
                for n in o:
                    if n not in rank:
                        rank.append(n)
            # re-dictate the implementation's orders so that they are the rank order restricted to each branch
            mcases.append([2, rank, [0, parent, wbrs]])
        # the implementation must be run with the same (rank-consistent) orders
        for c, mc in zip(pc, mcases):
            rank = mc[1]
            for br in c["branches"]:
                br["order"] = sorted(br["order"], key=rank.index)
        impl = C.run_impl("c10_impl.py", {"mode": "promote", "cases": pc})["results"]
        # the same cases with every dictated order reversed: the real function must not move (C10_construct_order_independent)
        pc_rev = [{**c, "branches": [{**br, "order": list(reversed(br["order"]))} for br in c["branches"]]} for c in pc]
        impl_rev = C.run_impl("c10_impl.py", {"mode": "promote", "cases": pc_rev})["results"]
        mouts = ctx.model(mcases)
        kinds = {"guard_true": 0, "guard_false": 0}
        for k, (c, mc, r, m) in enumerate(zip(pc, mcases, impl, mouts)):
            n_prom += 1
            if "exc" in r:
                ctx.disagree("_promote_branch_decls raised", c, m, r)
                continue
            got = [[n, TYPES.index(r["cpp"][n])] for n in r["order"]]
            want = [[C.wstr(d[0]), d[1]] for d in m[1]]
            kinds["guard_true" if m[2] else "guard_false"] += 1
            types_ok = [TYPES.index(r["types"][n]) for n in r["order"]] == [d[1] for d in got]
            if got != want or not types_ok:
                ctx.disagree("_promote_branch_decls under a dictated iteration order vs promote (sorted walk, typed from the first recording branch)", c, want, got)
            r2 = impl_rev[k]
            if r2.get("order") != r["order"] or r2.get("cpp") != r["cpp"]:
                ctx.disagree("_promote_branch_decls moves when the dictated iteration order of its sets is reversed", c, got, r2)
        dist["promote_if_dictated_order_cases"] = kinds

    # ------------------------------------------------------------------ correspondence 3: sorted() sites
    n_sorted = 0
    if have_model:
        lists = []
        for k in range(1500 if thorough else 200):
            n = rng.randint(0, 8)
            alpha = rng.choice(["ab", "abAB_09", FIRST + "0123456789", "aàbéZzΩ_1"])
            names = {"".join(rng.choice(alpha) for _ in range(rng.randint(1, 5))) for _ in range(n)}
            lists.append(sorted(names, key=lambda _x: rng.random()))
        impl = C.run_impl("c10_impl.py", {"mode": "sorted", "lists": lists})["results"]
        mouts = ctx.model([[1, list(reversed(l)), l] for l in lists])
        for l, r, m in zip(lists, impl, mouts):
            n_sorted += 1
            got = [C.wstr(x) for x in m[1]]
            if got != r:
                ctx.disagree("sorted(set of names): CPython vs the model's insertion sort on code points", l, got, r)
        # observed order of the sorted sites in real output: button polls, LCD ticks, ultrasonic helpers
        for d in devs:
            if not d["ref"]["ok"]:
                continue
            cpp = d["ref"]["cpp"]
            loop_part = cpp.split("void loop() {", 1)[1] if "void loop() {" in cpp else ""
            polls = re.findall(r"bool __redu_button_next_(\w+) = ", loop_part)
            helpers = re.findall(r"^float __redu_ultrasonic_measure_(\w+)\(\) \{", cpp, re.M)
            ticks = []
            for t in re.findall(r"__redu_lcd_tick_\w+\(__redu_lcd_anim_(\w+)_\d+,", loop_part):
                if t not in ticks:
                    ticks.append(t)
            d["sorted_obs"] = {"button polls": polls, "ultrasonic helpers": helpers, "LCD ticks": ticks}
        cases, back = [], []
        for d in devs:
            for what, obs in d.get("sorted_obs", {}).items():
                if obs:
                    cases.append([1, [], sorted(obs, key=lambda _x: rng.random())])
                    back.append((d, what, obs))
        for (d, what, obs), m in zip(back, ctx.model(cases)):
            n_sorted += 1
            got = [C.wstr(x) for x in m[1]]
            if got != obs:
                ctx.disagree(f"order of {what} in the emitted text vs sorted_site", d["src"], got, obs)
        dist["sorted_site_sizes"] = {w: sorted({len(o) for (dd, ww, o) in back if ww == w}) for w in ("button polls", "ultrasonic helpers", "LCD ticks")}
    dist["sorted_cases"] = n_sorted

    _tick("promote+sorted correspondence")
    # ------------------------------------------------------------------ property oracle 3 + correspondence 4: one NAME, two roles,
    # two programs, one process (every ordered pair of roles; pool sessions; parse/emit interleavings; Lang/DevSession.v fragment)
    from harness.props import c10_roles
    ev_roles, nt_roles, dist_roles = c10_roles.run_collisions(ctx, C, seeds[0], have_model)
    evaluations += ev_roles
    dist["name_collisions"] = dist_roles

    _tick("role collisions")
    # ------------------------------------------------------------------ property oracle 3b: ordered pairs (A, B) in one process where A
    # BINDS a name that is an element / key of a module-level table meant to be a constant and B uses the name in its builtin meaning
    ev_sp, nt_sp, dist_sp = c10_choice.run_state_pairs(ctx, C, seeds[0], thorough)
    evaluations += ev_sp
    dist["builtin_name_pairs"] = dist_sp
    n_join = 0
    if have_model:
        n_join, dist["return_type_join_correspondence"] = c10_choice.run_join_correspondence(ctx, C, seeds[0])
    _tick("builtin-name pairs")
    # ------------------------------------------------------------------ property oracle 4: twin families (one call in every spelling
    # of the same values / at every depth) in every rotation in one process; correspondence 5: the emitter's literal helpers
    ev_tw, nt_tw, dist_tw = c10_twins.run_twins(ctx, C, seeds[0])
    evaluations += ev_tw
    dist["twin_families"] = dist_tw
    n_helper = 0
    if have_model:
        n_helper, dist_h = c10_twins.run_helper_correspondence(ctx, C, seeds[0])
        dist["emitter_literal_helpers"] = dist_h

    _tick("twin families")
    # ------------------------------------------------------------------ property oracles 5, 6 + correspondences 6, 7: one Program emitted
    # several times (every program above + a corpus reaching every IR node class); sessions that contain REJECTED scripts
    ev_pu, nt_pu, dist_pu = c10_purity.run_purity(ctx, C, seeds[0], have_model, progs)
    evaluations += ev_pu
    dist["emit_purity_and_rejected_parses"] = dist_pu

    _tick("purity")
    feats_total = {}
    for d in devs:
        for k, v in d["feats"].items():
            if not isinstance(v, (int, bool)):
                continue
            feats_total[k] = feats_total.get(k, 0) + (1 if v else 0)
    dist["device_programs_with_feature"] = feats_total
    dist["hash_seeds"] = seeds
    origins = {}
    for p in progs:
        o = p["origin"].split(" k=")[0]
        origins[o] = origins.get(o, 0) + 1
    dist["origins"] = origins
    multi = sum(1 for d in devs if max(len(v) for v in d.get("sorted_obs", {"x": []}).values() or [[]]) >= 2)
    ctx.coverage.update({
        "evaluations": evaluations + n_corr + n_prom + n_sorted + n_helper + n_join,
        "distinct_nontrivial": len({p["src"] for p in progs if p["origin"] != "device"}
                                   & {s["src"] for s in skels if sum(1 for _ in _iter_hoists(s.get("model0", {}))) > 0}) + multi + n_prom + nt_roles + nt_tw + nt_pu + nt_sp,
        "rule": "skeleton programs: templates (k = 0..6 names first assigned in an if / if-else / if-elif-else / while / for / try body, at top level, in a function, in the main loop, nested) + seeded random nested programs; device programs: random subsets of every device class with 0..6 instances, callbacks, lists, multi-signature functions, tuple swaps; mixed = both. Every program is transpiled in one subprocess per hash seed and per dictated set order (the name `set` of parser.py/emitter.py bound to a subclass iterating sorted / reverse sorted / in a keyed pseudo-random order), then in one process twice in a row, in reverse order between unrelated programs, shuffled, and (a sample) in fresh processes; sha256 of the text is compared. Name collisions (c10_roles.py): for every ordered pair (a, b) of 25 roles an identifier can have, with a name of its own, the sessions `A B B'` / `all A, then B B' reversed` against `B B'` alone (A = name in role a, B = same name in role b with all probes of b, B' = B + one probe of a); 60 (240) pool programs giving 2-4 of 6 pool names random roles, in 3 (6) orders in one process and after a module reset; parse/emit interleavings (p_i p_j e_j e_i, p_i p_j e_i e_j e_i, p_i e_i e_i, p_i t_j e_i); 4 concurrent threads; 220 (900) + 60 device-registry programs of the DevSession fragment in two orders, compared with transl_dev. Half of the random skeleton programs and most templates put several new names into one branch (the region the guard of the repaired finding F-C10-promotion-order used to exclude; counted in distribution). Near-collisions (c10_twins.py): 36 (150) collision programs + 24 (90) skeleton programs whose names are a NAME FAMILY (2-6 identifiers that tie under leading zeros / natural order / case / underscores / length / prefix / first-and-last character keys; every family keeps one pair of its first kind) in 2-7 of the sets behind sorted() (buttons with one callback, LCDs with identical animations, ultrasonics, names first assigned in if / if-else / elif / try / while / for bodies at top level, in a function, in the main loop) - they go through every oracle above; TWIN FAMILIES: for each of 26 device methods every distinct spelling (int, float, bool, folded constants, defaults omitted, all positional) at 2 (7) depths, one spelling at 4 (7) depths on two device names, the call with one argument changed; one pin in several device classes; plain statements with equal-valued literals; one source in 11 white-space / comment / line-end variants - 7 sessions in one process each (rotation r starts every family at its r-th member, odd rotations walk the families backwards), a program's text must be the same in all of them and after a module reset (12 (60) sampled); a difference is confirmed and shrunk in fresh processes. Helper sessions: 30 (120) random + 7 fixed sessions of 2-4 programs of 1-5 calls of _emit_duration_ms / _format_float with ints, whole and fractional dyadic floats, bools, negative values and expression text, one session per module reset, against MemoSession.session under the regenerated cache table. Emit purity (c10_purity.py): every accepted program above + 4 glyph scripts (setup / loop / function / branch) + a break/continue script + the statement catalog of harness/c06_pairs.py in 6 (13, twice) kinds of block (all 65 IR node classes reached, measured): p2 = parse(s); p = parse(s); emit(p); emit(p); emit(parse(other)); emit(p); emit(parse(s)); emit(p2) - one sha256; a failing catalog script is reduced by ddmin; 30 (120) glyph sessions (1-3 scripts, 1-2 displays, rows with bits above 5 / negative / float spellings, random parse/emit op sequences) against EmitSession.esession. Rejected parses: 28 (112) helper families of 14 shapes, each V with 1-2 poisoned twins, sessions V P V P P V | reset | P P V; 14 (112) V's aborted at the quarter (eighth) points and 1 (3) random points of their call sequence by an injected BaseException, then transpiled again; 40 (160) + 3 sessions of 2-5 single-level helper programs (40 % rejected) against VariantSession.vsession. 14 (42) helper programs and 6 (24) glyph scripts also join the main corpus (hash seeds, dictated orders, environments, sessions). Type joins (c10_choice.py): functions whose return statements yield values of two or three different types on different paths (every combination of list element types without a scalar in both orders; 34 (all) other combinations of int / bool / float / String / list[...] ; six control shapes; the result as a global, twice, through a second function, in the main loop), list displays / conditional expressions / append / branch-wise re-typing / several call signatures of mixed scalar types - in the main corpus and under 8 (16) further hash seeds. Builtin-name pairs (c10_choice.py): for each of len abs max min int float bool str, 2 (7) melody names, digital_read / analog_read, 1 (4) LCD progress styles, 2 (4) LCD animation names: A binds the name in 8 of 16 (all 16) roles (the A's the parser rejects included), B uses it in its builtin meaning on literals in 7 positions; one process: reset, B, (A_role, B)* and p A, p B, e A, e B; B must have the text it has alone; a failing pair is confirmed and B shrunk to one position in fresh processes. Non-trivial = programs that hoist at least one declaration, every twin family, every role pair, pool program and accepted device-registry program, device programs whose sorted sites have >= 2 elements, and every dictated-order promotion case.",
        "samples": [skels[0]["src"], skels[len(skels) // 2]["src"], devs[0]["src"][:1500]],
        "distribution": dist,
        "guard": "none: every generated program is under the byte-identity oracle and the correspondence (C10_order_independent is unconditional). F-C10-promotion-order is repaired by a fix: commit (known_findings.d/C10.json kind=fixed) - a fixed entry suppresses nothing: on a tree without the sorted() calls C10_no_unsorted_set_iteration / C10_repaired_sites_sorted do not check, the witness replay fails and is reported as a VIOLATION",
        "unmodelled": ["CPython set/dict internals (over-approximated by an arbitrary permutation per construct)",
                       "_promotion_cpp_types staleness across scopes (generated names are type-stable except in flat if/try templates)",
                       "everything of the translation except declarations and block structure (expression text, devices) - covered by the sha256 oracle only",
                       "absence of module-level state / ambient inputs: static ast inventory (module-level and class-level mutable objects: mutated by name, mutated through a followed local alias, or escaping into a call / container / return value / default argument; mutable defaults, cache decorators, imports, hash/id/open/eval...) + observation; the alias analysis is intra-procedural and flow-insensitive: an object that escapes is reported, what the receiver does with it is not followed; state kept in attributes of imported classes/modules or in closures created at import time is found by the session oracle only",
                       "the session model (Lang/DevSession.v) covers the device-name registries and the value-returning device methods read/read_us/measure_distance/is_pressed/get_state/get_brightness at column 0; every other per-call table (functions, signatures, helpers, list_info, tmp_counter ...) is covered by the role-pair oracle and the inventory only",
                       "sorted(set, key=k): modelled for an arbitrary key (Lang/SortKey.v); the three concrete keys (natural order, ASCII lower, length) are ASCII-only (Python's \\d and str.lower also cover other scripts)",
                       "memo tables: modelled in front of _emit_duration_ms and _format_float only (Lang/MemoSession.v), floats as exact rationals (-0.0 / nan / inf outside); a memo in front of any other function is covered by the inventory (cache decorators, module-level state) and the twin-family oracle only",
                       "set displays / set comprehensions keep CPython's own order under the dictated-order runs (only sets built through the name `set` are dictated); they vary with the hash seeds only",
                       "emit() purity: the model (Lang/EmitSession.v) covers the sequence field of LCDGlyph and flat node lists; every other IR field and node kind is covered by the inventory (lazy values, emit() changing its argument - syntactic: objects reached through attributes / getattr and local aliases of them; a mutation through a callee's parameter is not followed) and by the five-emits oracle over a corpus reaching every IR node class",
                       "rejected parses: the model (Lang/VariantSession.v) covers one-parameter helpers returning the parameter / literals, defined before column-0 calls, no recursion (the guard's own purpose), no redefinition; nested and recursive helpers, calls before the def, calls inside loops / branches / callbacks, two-parameter helpers are covered by the poisoned-twin oracle only; state other than the variant guard left by a rejected parse is covered by the oracle and the module-state inventory only",
                       "aborted transpilations: exceptions are injected at function-call boundaries of parser.py / emitter.py only (not between two statements of one function), from a trace function, in helper programs only",
                       "platform differences other than hash seeds (one CPython build here)"],
        "trusted_base": C.COMMON_TRUSTED + ["harness/props/c10_twins.py (name families, twin families, rotating sessions, reading the helper results back)", "harness/props/c10_choice.py (type-join programs, builtin-name pairs, fresh-process confirmation and shrinking of a failing pair)", "harness/props/c10_roles.py (role templates, session scripts, fresh-process confirmation of a failing pair)","harness/gen/setsites.py (syntactic set-kind inference over parser.py/emitter.py, fail-closed)", "harness/gen/purity.py (syntactic inventory of lazy values, IR constructor arguments, emitter statements changing their argument, add/remove guards; fail-closed)", "harness/props/c10_purity.py (IR coverage corpus from harness/c06_pairs.py, poisoned twins, glyph / helper sessions, reading glyph arrays / function definitions / global types back from the text)",
                                            "harness/impl/c10_impl.py (runs parse()+emit(); OrderedNames dictates the iteration order of `var_declared - base`; AdvSet dictates the iteration order of every set built through the name `set` in parser.py/emitter.py - set displays/comprehensions keep CPython's order)",
                                            "PYTHONHASHSEED as the only source of set-order variation exercised"],
    })
    ctx.assumptions += ["iterating a list leaves it unchanged, iterating a generator / map / zip / iter object exhausts it (CPython semantics, modelled in Lang/EmitSession.v)",
                        "a finally block runs on every exit path, a statement after a call is skipped by an exception (modelled in Lang/VariantSession.v)",
                        "sorted() is stable and a memo table compares keys by == (CPython semantics, modelled in Lang/SortKey.v / Lang/MemoSession.v)",
                        "a module-level object handed to a call / stored / returned may be mutated by whoever receives it (the inventory reports the escape, it does not follow it)","every iteration order of a Python set is some permutation of its elements (perm_oracle)",
                        "str hashing is the only hash-seed dependent ingredient of the transpiler's sets (their elements are str)"]


def _iter_hoists(mo):
    """declaration nodes that directly precede a construct, and globals beyond plain assignments - a cheap proxy: every
    declaration node in the model output"""
    def walk(nodes):
        for n in nodes:
            if n[0] == 0:
                yield n
            elif n[0] in (2, 5):
                for b in n[1]:
                    yield from walk(b)
            elif n[0] == 3:
                yield from walk(n[1])
            elif n[0] == 4:
                yield from walk(n[2])
    if not mo:
        return
    for f in mo.get("funs", []):
        yield from walk(f[1])
    yield from walk(mo.get("setup", []))
    yield from walk(mo.get("loop", []))
    for g in mo.get("globals", [])[1:]:
        yield g
