"""C10 - two classes of input the other generators of this check never drew.

(1) A VALUE CHOSEN FROM A SET (not an order of emitted items).  `_merge_return_types` puts the inferred types of all return
    statements of a function into a set and joins them; the list-element join, the conditional-expression join and the re-typing of a
    variable in two branches are neighbours.  join_corpus() yields programs whose functions return values of SEVERAL types on different
    paths: every unordered pair and many triples of {int, bool, float, String, list[int], list[float], list[bool], list[String]} in six
    control shapes (if / if-else / elif chain / loop / try / nested), the result assigned to a global, passed on, indexed, returned
    through a second function; the same for list displays, conditional expressions, list.append and branch-wise re-typing.  The programs
    join the main corpus (every hash seed, every dictated set order - a dictated order also dictates what set.pop() / next(iter(s))
    hands out -, other environment, sessions, five emits) and are additionally transpiled under extra hash seeds (run_extra_seeds).

(2) STATE THAT TRAVELS THROUGH A MODULE-LEVEL TABLE THAT IS MEANT TO BE A CONSTANT (`_SAFE_NAME_REFERENCES`, `_SAFE_CASTS`,
    `_BUILTIN_CALL_RETURN_TYPES`, `_BUZZER_MELODIES`, the emitter's `_LCD_PROGRESS_STYLES` / `_LCD_ANIMATION_*_FUNCS` ...).  run_state_pairs(): ordered pairs (A, B) in ONE process.  A BINDS a name that
    is an element / key of such a table in one of 16 roles (int / float / text / list variable, function returning int / float / text, parameter, loop variable,
    tuple target, first bound in a branch, comprehension variable, except-as name, device, augmented, global in a function) - also the
    A's the parser REJECTS (a reserved identifier is rejected only after the per-script bookkeeping ran: a parse() call all the same);
    B never binds the name and uses it in its builtin meaning on literals: global initialiser, sleep(), device argument, pin, condition,
    inside a function, inside the main loop.  B's text after A must be the text of B alone in a fresh process; A's text after the other
    A's likewise.  A failing pair is confirmed - and B shrunk to one position - in fresh processes, and reported with both scripts.
"""
from __future__ import annotations

import itertools

HEAD = ("from Reduino.Actuators import Led, Servo, Buzzer\nfrom Reduino.Communication import SerialMonitor\n"
        "from Reduino.Utils import sleep\n")

# ------------------------------------------------------------------------------------------------------------------------
# (1) joins of several types
# ------------------------------------------------------------------------------------------------------------------------
VALUES = {
    "int": ["7", "raw + 1", "0"],
    "bool": ["True", "raw > 2", "False"],
    "float": ["2.5", "raw * 0.5", "0.25"],
    "String": ['"lo"', '"hi"'],
    "list[int]": ["[0, 512, 1023]", "[1, 2]"],
    "list[float]": ["[0.0, 0.5, 1.0]", "[2.5]"],
    "list[bool]": ["[True, False]", "[False]"],
    "list[String]": ['["a", "b"]', '["z"]'],
}
KINDS = list(VALUES)
SCALARS = ["int", "bool", "float", "String"]
LISTS = [k for k in KINDS if k.startswith("list")]


def accepted_combo(kinds):
    """the parser rejects a String mixed with another type (`conflicting return types`); those are not programs of the corpus"""
    return not ("String" in kinds and len(set(kinds)) > 1)


def fn_text(name, kinds, shape, rng):
    """def name(raw): return <value of kinds[0]> on one path, kinds[1] on the next ..."""
    vals = [rng.choice(VALUES[k]) for k in kinds]
    L = [f"def {name}(raw):"]
    if shape == "if":                              # if c: return a / return b / (unreachable third)
        for j, v in enumerate(vals[:-1]):
            L += [f"    if raw > {j}:", f"        return {v}"]
        L += [f"    return {vals[-1]}"]
    elif shape == "ifelse":
        for j, v in enumerate(vals[:-1]):
            L += [f"    {'if' if j == 0 else 'elif'} raw == {j}:", f"        return {v}"]
        L += ["    else:", f"        return {vals[-1]}"]
    elif shape == "loop":
        L += ["    for k_ in range(3):", f"        if raw == k_:", f"            return {vals[0]}"]
        for j, v in enumerate(vals[1:-1]):
            L += [f"    while raw > {j + 5}:", f"        return {v}"]
        L += [f"    return {vals[-1]}"]
    elif shape == "try":
        L += ["    try:", f"        if raw > 3:", f"            return {vals[0]}"]
        if len(vals) > 2:
            L += [f"        return {vals[1]}"]
        L += ["    except Exception:", f"        return {vals[-1]}", f"    return {vals[-1]}"]
    elif shape == "nested":
        L += ["    if raw > 1:", "        if raw > 2:", f"            return {vals[0]}"]
        for v in vals[1:-1]:
            L += [f"        return {v}"]
        L += [f"    return {vals[-1]}"]
    else:                                           # "late": the deciding return comes last, after assignments
        L += ["    acc_ = raw + 1", f"    if acc_ > 4:", f"        return {vals[-1]}"]
        for j, v in enumerate(vals[1:-1]):
            L += [f"    if acc_ == {j}:", f"        return {v}"]
        L += [f"    return {vals[0]}"]
    return "\n".join(L) + "\n"


SHAPES = ["if", "ifelse", "loop", "try", "nested", "late"]


def join_program(kinds, shape, use, rng, k):
    f = f"pick{k}_"
    src = HEAD + "lamp = Led(13)\nmon = SerialMonitor(9600)\n" + fn_text(f, kinds, shape, rng)
    if use == "global":
        src += f"levels = {f}(3)\n"
    elif use == "two_calls":
        src += f"levels = {f}(3)\nother = {f}(0)\n"
    elif use == "via":
        src += f"def outer{k}_(raw):\n    got_ = {f}(raw)\n    return got_\nlevels = outer{k}_(2)\n"
    elif use == "in_loop":
        src += "levels = 0\n" if all(x in ("int", "bool") for x in kinds) else ""
    elif use == "write":
        src += f"levels = {f}(1)\nmon.write(levels)\n" if not any(x.startswith("list") for x in kinds) else f"levels = {f}(1)\nsize = len(levels)\n"
    src += "while True:\n"
    if use == "in_loop":
        src += f"    fresh_ = {f}(4)\n"
    src += "    lamp.toggle()\n    sleep(250)\n"
    return src


def neighbour_programs(rng):
    """other joins of several types: list displays, conditional expressions, append, branch-wise re-typing, parameters called with
    several signatures"""
    out = []
    lit = {"int": "3", "bool": "True", "float": "2.5", "String": '"s"'}
    for a, b in itertools.permutations(["int", "bool", "float"], 2):
        out.append((HEAD + f"flag = 1\nmixed = [{lit[a]}, {lit[b]}, {lit[a]}]\nsize = len(mixed)\nwhile True:\n    sleep(size)\n", f"join list-display {a}+{b}"))
        out.append((HEAD + f"flag = 1\nchosen = {lit[a]} if flag > 0 else {lit[b]}\nwhile True:\n    sleep(5)\n", f"join ifexp {a}+{b}"))
        out.append((HEAD + f"flag = 1\nif flag > 0:\n    later = {lit[a]}\nelse:\n    later = {lit[b]}\nwhile True:\n    sleep(5)\n", f"join branch-retype {a}+{b}"))
        out.append((HEAD + f"grow = [{lit[a]}]\ngrow.append({lit[b]})\nwhile True:\n    sleep(5)\n", f"join append {a}+{b}"))
        out.append((HEAD + f"def twice(v):\n    return v + v\nfirst = twice({lit[a]})\nsecond = twice({lit[b]})\nwhile True:\n    sleep(5)\n", f"join signatures {a}+{b}"))
    return out


def neighbour_combined():
    """one program per ordered pair of scalar types with all five neighbour joins (the quick tier's version of neighbour_programs)"""
    out = []
    lit = {"int": "3", "bool": "True", "float": "2.5"}
    for a, b in itertools.permutations(["int", "bool", "float"], 2):
        src = (HEAD + f"flag = 1\nmixed = [{lit[a]}, {lit[b]}, {lit[a]}]\nsize = len(mixed)\nchosen = {lit[a]} if flag > 0 else {lit[b]}\n"
               f"if flag > 0:\n    later = {lit[a]}\nelse:\n    later = {lit[b]}\ngrow = [{lit[a]}]\ngrow.append({lit[b]})\n"
               f"def twice(v):\n    return v + v\nfirst = twice({lit[a]})\nsecond = twice({lit[b]})\n"
               f"def mixed_list(raw):\n    return [raw, {lit[b]}, {lit[a]}]\nthird = mixed_list({lit[a]})\nwhile True:\n    sleep(size)\n")
        out.append((src, f"join neighbours {a}+{b}"))
    return out


def join_corpus(rng, thorough):
    """-> [(source, origin)]: accepted programs only (see accepted_combo)"""
    combos = [c for n in (2, 3) for c in itertools.combinations(KINDS, n) if accepted_combo(c)]
    combos += [(k, k) for k in KINDS]                                   # one type on two paths (the only case a pop() is meant for)
    list_only = [c for c in combos if all(x.startswith("list") for x in c) and len(set(c)) > 1]
    out = []
    uses = ["global", "two_calls", "via", "in_loop", "write"]
    n = 0
    # every combination of list types (no scalar): each in two shapes, both orders of the returns
    for c in list_only:
        for rev in (False, True):
            kinds = tuple(reversed(c)) if rev else c
            out.append((join_program(kinds, SHAPES[n % len(SHAPES)], uses[n % len(uses)], rng, n), "join returns " + "+".join(kinds)))
            n += 1
    rest = [c for c in combos if c not in list_only]
    rng.shuffle(rest)
    for c in (rest if thorough else rest[:34]):
        kinds = list(c)
        rng.shuffle(kinds)
        out.append((join_program(tuple(kinds), rng.choice(SHAPES), rng.choice(uses), rng, n), "join returns " + "+".join(kinds)))
        n += 1
    if thorough:
        for c in combos:
            for shape in rng.sample(SHAPES, 2):
                kinds = list(c)
                rng.shuffle(kinds)
                out.append((join_program(tuple(kinds), shape, rng.choice(uses), rng, n), "join returns " + "+".join(kinds)))
                n += 1
    nb = neighbour_programs(rng)
    out += neighbour_combined() + (nb if thorough else rng.sample(nb, 6))
    return out


def run_extra_seeds(ctx, C, transpile, progs, seed0, extra):
    """the join programs under further hash seeds (one process per seed, run side by side): a CHOICE from a set of type labels shows
    under roughly one seed in three only.  -> evaluations"""
    from concurrent.futures import ThreadPoolExecutor
    idx = [i for i, p in enumerate(progs) if p["origin"].startswith("join")]
    if not idx:
        return 0
    srcs = [progs[i]["src"] for i in idx]
    with ThreadPoolExecutor(max_workers=min(8, len(extra))) as ex:
        outs = list(ex.map(lambda sd: transpile(srcs, sd), extra))
    ev = 0
    for sd, out in zip(extra, outs):
        for i, r in zip(idx, out["results"]):
            ev += 1
            p = progs[i]
            if r["sha"] != p["ref"]["sha"]:
                a = transpile([p["src"]], seed0, texts=True)["results"][0]
                b = transpile([p["src"]], sd, texts=True)["results"][0]
                import difflib
                diff = list(difflib.unified_diff(a.get("cpp", "").splitlines(), b.get("cpp", "").splitlines(), f"PYTHONHASHSEED={seed0}", f"PYTHONHASHSEED={sd}", lineterm="", n=1))[:40]
                ctx.fail("emitted C++ differs between two hash seeds (a function / expression that joins values of several types)",
                         {"program": p["src"], "origin": p["origin"], "variants": [f"PYTHONHASHSEED={seed0}", f"PYTHONHASHSEED={sd}"], "unified_diff": diff,
                          "replay": f"PYTHONHASHSEED={seed0} vs {sd}: PYTHONPATH=/repo/src python -c 'import sys; from Reduino.transpile.parser import parse; "
                                    "from Reduino.transpile.emitter import emit; print(emit(parse(open(sys.argv[1]).read())))' program.py"},
                         expected=f"sha256 {p['ref']['sha'][:16]} (byte-identical text)", observed=f"sha256 {r['sha'][:16]}", key="hashseed")
                break
    return ev


# ------------------------------------------------------------------------------------------------------------------------
# (2) ordered pairs through module-level tables
# ------------------------------------------------------------------------------------------------------------------------
# name -> expressions that use the name in its builtin meaning on literals: (int-valued, small), usable as ms / brightness / angle
USES = {
    "len": ['len("blink") * 50', "64 * len([1, 0, 1])", 'len("ab") + 7'],
    "abs": ["abs(-120)", "abs(20 - 150)", "abs(-3) * 40"],
    "max": ["max(250, 100)", "max(3, 9) * 20", "max(12, 11) + 1"],
    "min": ["min(255, 64 * 5)", "min(90, 120)", "min(8, 13) + 2"],
    "int": ["int(120.75)", 'int("40") * 3', "int(7.5) + 9"],
    "float": ["int(float(3) * 50)", "int(float(12)) + 1", 'int(float("2.5") * 4)'],
    "bool": ["100 + bool(5)", "bool(0) + 60", "bool(3) * 90"],
    "str": ['len(str(1200)) * 30', "len(str(5)) + 9", 'len(str(2.5)) * 25'],
}
MELODIES = ["startup", "siren", "success", "error", "notify", "alarm", "scale_c"]
CORE_NAMES = ["digital_read", "analog_read"]
LCD_STYLES = ["hash", "block", "pipe", "dot"]                    # keys of emitter._LCD_PROGRESS_STYLES
LCD_ANIMS = ["scroll", "blink", "bounce", "typewriter"]          # keys of emitter._LCD_ANIMATION_START_FUNCS / _TICK_FUNCS

A_ROLES = {
    "int": "{n} = 140\nangle = 20 + {n}\n",
    "float": "{n} = 1.5\nscaled = {n} * 2\n",
    "text": '{n} = "wide"\n',
    "list": "{n} = [20, 160]\n{n}.append(90)\n",
    "function": "def {n}(a):\n    return a + 1\nres_ = {n}(2)\n",
    "function_float": "def {n}(a):\n    return a * 0.5\nres_ = {n}(2)\n",
    "function_text": "def {n}(a):\n    return \"wide\"\nres_ = {n}(2)\n",
    "parameter": "def scale_(v, {n}):\n    return v * {n}\nres_ = scale_(2, 3)\n",
    "loopvar": "for {n} in range(3):\n    sleep({n})\n",
    "tuple": "{n}, hi_ = 20, 160\n",
    "branch": "flag_ = 1\nif flag_ > 0:\n    {n} = 3\nelse:\n    {n} = 4\n",
    "compvar": "xs_ = [{n} * 2 for {n} in range(3)]\n",
    "except_as": "try:\n    sleep(1)\nexcept Exception as {n}:\n    sleep(2)\n",
    "device": "{n} = Led(3)\n{n}.on()\n",
    "augmented": "{n} = 10\n{n} += 5\n",
    "in_function": "def setter_():\n    {n} = 7\n    return {n}\nres_ = setter_()\n",
}
POSITIONS = ["global", "sleep", "device_arg", "pin", "condition", "in_function", "in_loop"]


def a_script(name, role):
    return HEAD + "arm = Servo(9)\n" + A_ROLES[role].format(n=name) + "while True:\n    arm.write(30)\n    sleep(40)\n"


def b_script(name, positions, k=0):
    """a script that never binds `name` and uses it in its builtin meaning at the given positions"""
    if name in MELODIES:
        return (HEAD + f'horn = Buzzer(8)\nhorn.melody("{name}")\nwhile True:\n    horn.melody("{name}", tempo=200)\n    sleep(500)\n')
    if name in LCD_STYLES or name in LCD_ANIMS:
        call = (f'panel.progress(1, 30, max_value=100, width=12, style="{name}")' if name in LCD_STYLES
                else f'panel.animate("{name}", 0, "hello there", speed_ms=150, loop=True)')
        return (HEAD + "from Reduino.Displays import LCD\npanel = LCD(rs=12, en=11, d4=5, d5=4, d6=3, d7=2)\n" + call
                + "\nwhile True:\n    sleep(100)\n")
    if name in CORE_NAMES:
        arg = "7" if name == "digital_read" else "A0"
        imp = f"from Reduino.Core import pin_mode, {name}, INPUT, A0\n"
        return (HEAD + imp + "lamp = Led(13)\npin_mode(7, INPUT)\n" + f"level = {name}({arg})\nhalf = {name}({arg}) / 2\n"
                + f"while True:\n    now_ = {name}({arg})\n    if now_ > 0:\n        lamp.toggle()\n    sleep(20)\n")
    e = USES[name]
    L = [HEAD.rstrip("\n")]
    L.append(f"lamp = Led({'9' if 'pin' not in positions else '1 + ' + e[(k + 2) % 3]})")
    if "in_function" in positions:
        L += ["def period_():", f"    return {e[k % 3]}"]
    if "global" in positions:
        L += [f"period = {e[k % 3]}", f"level = {e[(k + 1) % 3]}"]
    if "condition" in positions:
        L += [f"if {e[(k + 1) % 3]} > 50:", "    lamp.on()"]
    if "in_function" in positions:
        L += ["wait_ = period_()"]
    L += ["while True:"]
    if "device_arg" in positions:
        L += [f"    lamp.set_brightness({e[(k + 1) % 3]})"]
    if "in_loop" in positions:
        L += [f"    inner_ = {e[(k + 2) % 3]}", "    sleep(inner_)"]
    if "sleep" in positions:
        L += [f"    sleep({e[k % 3]})"]
    L += ["    lamp.off()", "    sleep(5)"]
    return "\n".join(L) + "\n"


def run_ops(C, sources, ops, seed, texts=False):
    r = C.run_impl("c10_impl.py", {"mode": "ops", "sources": sources, "ops": ops, "texts": texts}, env_extra={"PYTHONHASHSEED": str(seed)}, timeout=1200)
    return r["results"]


def fresh(C, src, seed):
    return C.run_impl("c10_impl.py", {"mode": "transpile", "sources": [src], "texts": True}, env_extra={"PYTHONHASHSEED": str(seed)}, timeout=600)["results"][0]


def fresh_session(C, srcs, seed):
    return C.run_impl("c10_impl.py", {"mode": "session", "sources": srcs, "script": list(range(len(srcs))), "texts": True},
                      env_extra={"PYTHONHASHSEED": str(seed)}, timeout=600)["results"]


def run_state_pairs(ctx, C, seed, thorough):
    """-> (evaluations, nontrivial, distribution)"""
    import difflib
    rng = ctx.rng
    names = list(USES) + MELODIES[: (7 if thorough else 2)] + CORE_NAMES + LCD_STYLES[: (4 if thorough else 1)] + LCD_ANIMS[: (4 if thorough else 2)]
    sources, a_idx, b_idx = [], {}, {}
    roles_of = {}
    for n in names:
        fixed = ["int", "function_float", "device"]          # quick: these three + 5 of the other 13 roles per name (seeded)
        roles = list(A_ROLES) if thorough else fixed + rng.sample([r for r in A_ROLES if r not in fixed], 5)
        roles_of[n] = roles
        for role in roles:
            a_idx[(n, role)] = len(sources)
            sources.append(a_script(n, role))
        b_idx[n] = len(sources)
        sources.append(b_script(n, POSITIONS, k=rng.randrange(3)))
    # reference: every script alone.  One fresh process with a module reset before each script stands for "a fresh process"; a
    # difference found against it is confirmed in real fresh processes before it is reported
    ref_ops = []
    for i in range(len(sources)):
        ref_ops += [["reset"], ["t", i]] if i in b_idx.values() else [["t", i]]
    ref_all = run_ops(C, sources, ref_ops, seed)
    ref = [r for op, r in zip(ref_ops, ref_all) if op[0] == "t"]
    # sessions: per name  reset, B, (A_role, B)*   - and interleaved  p A, p B, e A, e B  for a sample of roles
    ops, meta = [], []
    for n in names:
        roles = list(roles_of[n])
        rng.shuffle(roles)
        ops.append(["reset"]); meta.append(None)
        ops.append(["t", b_idx[n]]); meta.append(("B-first", n, None))
        for role in roles:
            if thorough and rng.random() < 0.4:          # thorough: a module reset in front of 40 % of the A's (the pair in isolation)
                ops.append(["reset"]); meta.append(None)
            ops.append(["t", a_idx[(n, role)]]); meta.append(("A", n, role))
            ops.append(["t", b_idx[n]]); meta.append(("B", n, role))
        role = rng.choice(roles)
        ops += [["reset"], ["p", a_idx[(n, role)]], ["p", b_idx[n]], ["e", a_idx[(n, role)]], ["e", b_idx[n]]]
        meta += [None, None, None, ("A-interleaved", n, role), ("B-interleaved", n, role)]
    got = run_ops(C, sources, ops, seed)
    ev = nt = 0
    dist = {"names": names, "roles": list(A_ROLES), "roles_per_name": {n: len(r) for n, r in roles_of.items()}, "positions_in_B": POSITIONS, "A_scripts": len(a_idx), "B_scripts": len(b_idx),
            "A_scripts_rejected_by_the_parser": sum(1 for (k, i) in a_idx.items() if not ref[i]["ok"]),
            "B_scripts_rejected_by_the_parser": sorted(n for n, i in b_idx.items() if not ref[i]["ok"]), "session_ops": len(ops), "failing_pairs": 0}
    reported = set()
    for pos, (m, r) in enumerate(zip(meta, got)):
        if m is None:
            continue
        kind, n, role = m
        i = ops[pos][1]
        ev += 1
        nt += 1 if kind.startswith("B") and role else 0
        if r.get("sha") == ref[i]["sha"] or (n, kind[0]) in reported:
            continue
        reported.add((n, kind[0]))
        dist["failing_pairs"] += 1
        # ---- confirm in fresh processes: which earlier script of this name's session is responsible, and which position of B
        start = max(j for j in range(pos + 1) if ops[j][0] == "reset")
        before = [ops[j][1] for j in range(start + 1, pos) if ops[j][0] in ("t", "p")]
        victim = sources[i]
        alone = fresh(C, victim, seed)
        confirmed = None
        cands = [[j] for j in reversed(before) if j != i] + [before]
        for cand in cands:
            ses = fresh_session(C, [sources[j] for j in cand] + [victim], seed)
            if ses[-1]["sha"] != alone["sha"]:
                confirmed = (cand, ses[-1])
                break
        if confirmed is None:
            ctx.fail("text of a script in a session (after a module reset) differs from its reference, not reproduced in fresh processes",
                     {"script": victim, "name": n, "role_of_the_name_in_the_earlier_script": role, "session": [sources[j] for j in before]},
                     expected=f"sha256 {ref[i]['sha'][:16]}", observed=f"sha256 {str(r.get('sha'))[:16]}", key="stateful-table")
            continue
        cand, after = confirmed
        small = victim
        if kind.startswith("B") and n in USES:
            for p_ in POSITIONS:                                    # shrink B to one position
                for k in range(3):
                    b1 = b_script(n, [p_], k)
                    x, y = fresh(C, b1, seed), fresh_session(C, [sources[j] for j in cand] + [b1], seed)[-1]
                    if x["sha"] != y["sha"]:
                        small, alone, after = b1, x, y
                        break
                if small is not victim:
                    break
        diff = list(difflib.unified_diff(alone.get("cpp", str(alone.get("exc"))).splitlines(), after.get("cpp", str(after.get("exc"))).splitlines(),
                                         "B alone in a fresh process", "B after A in one process", lineterm="", n=0))[:30]
        ctx.fail("the text of script B depends on a script A transpiled earlier in the same process: A binds a name that B uses in its builtin meaning",
                 {"A (transpiled first)": [sources[j] for j in cand], "B": small, "name": n, "role_of_the_name_in_A": role,
                  "A_is_rejected_by_the_parser": [not ref[j]["ok"] for j in cand], "unified_diff": diff, "hashseed": seed,
                  "replay": "one process: for s in A: try: emit(parse(s)) / except: pass; then emit(parse(B))   versus   emit(parse(B)) in a fresh process"},
                 expected=f"sha256 {str(alone['sha'])[:16]} (B alone in a fresh process)", observed=f"sha256 {str(after['sha'])[:16]}", key="stateful-table")
    return ev, nt, dist


# ------------------------------------------------------------------------------------------------------------------------
# correspondence: the real _merge_return_types against Lang/RetJoin.merge_ret, every subset of the labels, every dictated order
# ------------------------------------------------------------------------------------------------------------------------
JOIN_LABELS = ["int", "bool", "float", "String", "list[int]", "list[float]", "list[bool]", "list[String]", "list[list[int]]"]


def run_join_correspondence(ctx, C, seed):
    """-> (cases, distribution).  Exhaustive over the subsets of nine labels x has_void; the list handed to the real function repeats
    labels and contains the empty label of a return whose type is unknown (filtered by the code: `{t for t in types if t}`)."""
    rng = ctx.rng
    subsets = [[l for j, l in enumerate(JOIN_LABELS) if (m >> j) & 1] for m in range(2 ** len(JOIN_LABELS))]
    cases = []
    for u in subsets:
        for hv in (False, True):
            types = list(u) + [rng.choice(u) for _ in range(rng.randint(0, 2)) if u] + ([""] if rng.random() < 0.3 else [])
            rng.shuffle(types)
            cases.append((u, types, hv))
    payload = [[t, hv] for (_u, t, hv) in cases]
    impl = {}
    for adv in (None, "asc", "desc"):
        req = {"mode": "mergeret", "cases": payload}
        if adv:
            req["adv"] = adv
        impl[adv] = C.run_impl("c10_impl.py", req, env_extra={"PYTHONHASHSEED": str(seed)}, timeout=600)["results"]
    mcases = []
    for (u, _t, hv) in cases:
        asc = sorted(u, key=repr)
        mcases.append([10, asc, list(u), 1 if hv else 0])
        mcases.append([10, list(reversed(asc)), list(reversed(u)), 1 if hv else 0])
    mouts = ctx.model(mcases)
    dist = {"cases": len(cases), "model_labels": {}, "sets_of_two_or_more_list_types_and_no_scalar": 0}
    n = 0
    for k, (u, types, hv) in enumerate(cases):
        want = []
        for m in (mouts[2 * k], mouts[2 * k + 1]):
            want.append({"exc": "ValueError"} if m[1][0] == 1 else {"label": C.wstr(m[1][1])})
        key = want[0].get("label", "ValueError")
        dist["model_labels"][key] = dist["model_labels"].get(key, 0) + 1
        if len([x for x in u if x.startswith("list")]) >= 2 and not [x for x in u if not x.startswith("list")]:
            dist["sets_of_two_or_more_list_types_and_no_scalar"] += 1
        if want[0] != want[1]:
            ctx.disagree("merge_ret under two enumerations / dictated orders of one set (model)", [types, hv], want[0], want[1])
        for adv, w in ((None, want[0]), ("asc", want[0]), ("desc", want[1])):
            n += 1
            got = impl[adv][k]
            if got != w:
                ctx.disagree(f"_merge_return_types (set order {adv or 'of the hash seed'}) vs merge_ret", {"types": types, "has_void": hv}, w, got)
    return n, dist
