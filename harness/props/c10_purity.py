"""C10 - two kinds of history the statement quantifies over and that single parse()+emit() flows never produce:

  (A) "repeated calls", "all sequences of earlier parse()/emit() calls": ONE Program object emitted several times.  emit() must be a function
      of the Program value: it must not consume it (a one-shot iterator stored in an IR node - generator expression, map(...), iter(...) -
      is empty after the first walk) and must not change it.  Oracle: for EVERY program of the check's corpus and for a corpus that reaches
      every IR node class of ast.py (the statement catalog of harness/c06_pairs.py in 13 kinds of block + break / continue + LCD glyph
      scripts), p = parse(src); p2 = parse(src); emit(p); emit(p); emit(parse(other)); emit(p); emit(parse(src)); emit(p2) - five texts, one sha256.  The replay names
      the objects inside the Program that are not plain data and says whether a deep snapshot of the Program changed across emit().
      Correspondence: coq/Lang/EmitSession.v (sequence fields that may be one-shot; esession / espec) against real parse/emit sessions of
      glyph scripts, under the storage kind the inventory (harness/gen/purity.py) reads off the source.

  (B) "all sequences of earlier parse() calls" includes calls that were REJECTED.  Whatever a parse() has set by the time the exception
      escapes (a re-entrancy key, a registry entry, a flag) must not survive it.  Such a leak is keyed by what the rejected script and a later
      script SHARE, so the oracle builds, for every valid helper program V, poisoned twins P that share V's helper names and call
      signatures and are rejected at a different moment each (while a helper is specialised for a call signature - conflicting return
      types, arity; inside a nested specialisation; from the pending-signature loop of a def read after its call; at def time; after all
      variants exist; inside the main loop / a branch / a callback), and runs the sessions  P V,  P P,  V P V,  P P V  in one process against
      V and P alone.  Correspondence: coq/Lang/VariantSession.v (guard set per parse / at module level, released in finally / by a
      statement) against real sessions of the single-level fragment, under the configuration the inventory reads off the source.
"""
from __future__ import annotations

import re

from harness import c06_pairs
from harness.props import c10_roles

IMPORTS = c10_roles.IMPORTS

# ---------------------------------------------------------------------------------------------------------
# (A) corpus that reaches every IR node class
# ---------------------------------------------------------------------------------------------------------
GLYPH_ROWS = [[0, 10, 31, 31, 14, 4, 0, 0], [4, 14, 31, 4, 4, 4, 4, 0], [31, 17, 17, 17, 17, 17, 31, 0], [1, 2, 4, 8, 16, 32, 64, 128],
              [255, 254, 33, 32, 31, 30, 1, 0], [-1, -2, 0, 5, 37, 63, 64, 95]]


def small_ir_scripts(rng):
    """small scripts first (a failure here gives a short replay): glyphs in every place, break / continue, every LCD method"""
    out = []
    lcd_decl = ["lcd = LCD(rs=12, en=11, d4=5, d5=4, d6=3, d7=2)", "lcd = LCD(i2c_addr=0x27, cols=16, rows=2)"]
    for k, rows in enumerate(GLYPH_ROWS[:4]):
        d = lcd_decl[k % 2]
        g1 = f"lcd.glyph({k % 8}, {rows})"
        g2 = f"lcd.glyph(slot={(k + 1) % 8}, bitmap={GLYPH_ROWS[(k + 1) % len(GLYPH_ROWS)]})"
        place = ["setup", "loop", "fn", "if"][k % 4]
        if place == "setup":
            body = f"{d}\n{g1}\n{g2}\nlcd.write(0, 0, \"x\")\nwhile True:\n    sleep(5)\n"
        elif place == "loop":
            body = f"{d}\nwhile True:\n    {g1}\n    {g2}\n    sleep(5)\n"
        elif place == "fn":
            body = f"{d}\ndef draw():\n    {g1}\n    {g2}\ndraw()\nwhile True:\n    draw()\n    sleep(5)\n"
        else:
            body = f"{d}\nn = 3\nif n > 2:\n    {g1}\nelse:\n    {g2}\nwhile True:\n    sleep(5)\n"
        out.append({"src": IMPORTS + body, "origin": "ir-small glyph " + place})
    out.append({"src": IMPORTS + "n = 0\nwhile n < 9:\n    n = n + 1\n    if n == 3:\n        continue\n    if n > 6:\n        break\n"
                                 "for i in range(5):\n    if i == 2:\n        continue\n    if i == 4:\n        break\n"
                                 "while True:\n    n = n + 1\n    if n > 100:\n        continue\n    sleep(1)\n", "origin": "ir-small break/continue"})
    return out


def catalog_scripts(rng, contexts):
    out = []
    for cn in contexts:
        seq = c06_pairs.sequence(rng, cn, copies=1)
        out.append({"src": c06_pairs.wrap(cn, [l for _, l in seq]), "origin": "ir-catalog " + cn, "context": cn, "seq": seq})
    return out


def ir_class_names(C):
    txt = (C.REPO / "src" / "Reduino" / "transpile" / "ast.py").read_text(encoding="utf-8")
    return re.findall(r"^class (\w+)", txt, re.M)


def run_reemit(C, sources, other, seed):
    r = C.run_impl("c10_impl.py", {"mode": "reemit", "sources": sources, "other": other}, env_extra={"PYTHONHASHSEED": str(seed)}, timeout=1200)
    return r["results"]


def _udiff(a, b, la, lb, limit=30):
    import difflib
    return list(difflib.unified_diff((a or "").splitlines(), (b or "").splitlines(), la, lb, lineterm="", n=1))[:limit]


REEMIT_HOW = ("PYTHONPATH=/repo/src python -c 'import sys; from Reduino.transpile.parser import parse; from Reduino.transpile.emitter import emit; "
              "p = parse(open(sys.argv[1]).read()); a = emit(p); b = emit(p); print(a == b)' program.py")


def emit_oracle(ctx, C, seed, progs):
    """-> evaluations, nontrivial, dist"""
    rng = ctx.rng
    thorough = ctx.tier == "thorough"
    dist = {}
    small = small_ir_scripts(rng)
    contexts = list(c06_pairs.CONTEXTS)
    if not thorough:                               # quick tier: the kinds of block that carry node classes of their own + two drawn ones
        fixed = ["setup", "fn", "try", "hoisted-loop"]
        contexts = fixed + rng.sample([c for c in contexts if c not in fixed], 2)
    cat = catalog_scripts(rng, contexts)
    if thorough:                                   # a second drawing of the catalog: other run-time / literal choices, shuffled
        cat += catalog_scripts(rng, contexts)
    corpus = small + cat + [{"src": p["src"], "origin": "corpus " + p["origin"].split(" k=")[0]} for p in progs if p.get("ref", {}).get("ok", True)]
    other = small[0]["src"]
    res = run_reemit(C, [c["src"] for c in corpus], other, seed)
    classes = set()
    n_fail = n_mut = n_opaque = n_rej = 0
    evaluations = 0
    reported = 0
    for c, r in zip(corpus, res):
        if not r.get("ok"):
            n_rej += 1
            if c["origin"].startswith("ir-"):
                ctx.disagree("script of the IR coverage corpus is rejected by the transpiler (generator bug)", c["src"], None, r)
            continue
        evaluations += 5
        classes |= set(r["classes"])
        n_mut += 1 if r["mutated"] else 0
        n_opaque += 1 if r["opaque"] else 0
        if len(set(r["shas"])) == 1:
            continue
        n_fail += 1
        if reported >= 3:
            continue
        reported += 1
        src, seq_note = c["src"], None
        if "seq" in c:                              # catalog script: reduce the statement sequence
            def fails(cands):
                srcs = [c06_pairs.wrap(c["context"], [l for _, l in cand]) for cand in cands]
                rs = run_reemit(C, srcs, other, seed)
                return [bool(x.get("ok")) and len(set(x["shas"])) > 1 for x in rs]
            small_seq = c06_pairs.ddmin(list(c["seq"]), fails)
            src2 = c06_pairs.wrap(c["context"], [l for _, l in small_seq])
            r2 = run_reemit(C, [src2], other, seed)[0]
            if r2.get("ok") and len(set(r2["shas"])) > 1:
                src, r, seq_note = src2, r2, [lab for lab, _ in small_seq]
        first = r["texts"][0]
        j = next(i for i, s in enumerate(r["shas"]) if s != r["shas"][0])
        case = {"program": src, "origin": c["origin"], "calls": "p = parse(program); " + "; ".join(r["steps"][: j + 1]),
                "texts_differ_at_call": r["steps"][j], "unified_diff": _udiff(first, r["texts"][j], r["steps"][0], r["steps"][j]),
                "objects_in_the_Program_that_are_not_plain_data": r["opaque"], "emit_changed_the_Program_it_was_given": r["mutated"],
                "hashseed": seed, "replay": REEMIT_HOW}
        if seq_note:
            case["statements_kept_by_the_reduction"] = seq_note
        ctx.fail("emit() gives another text when the same Program is emitted again (emit() consumes or changes the Program it is given)" if j < 3
                 else "emit(parse(script)) gives another text after an earlier Program of the same script was emitted in the same process" if j == 3
                 else "emit() of a second Program of the same script (parsed before the first emit()) gives another text after the first Program was emitted",
                 case, expected=f"sha256 {r['shas'][0][:16]} (the text of the first emit())", observed=f"sha256 {r['shas'][j][:16]}", key="re-emit")
    names = ir_class_names(C)
    dist["programs_emitted_three_times_and_re-parsed"] = len(corpus) - n_rej
    dist["ir_node_classes_of_ast.py"] = len(names)
    dist["ir_node_classes_reached"] = len([n for n in names if n in classes])
    dist["ir_node_classes_not_reached"] = [n for n in names if n not in classes]
    dist["programs_whose_snapshot_changed_across_emit(measured, no verdict)"] = n_mut
    dist["programs_with_non-plain_objects_in_the_Program(measured, no verdict)"] = n_opaque
    dist["programs_with_differing_texts"] = n_fail
    return evaluations, len(small) + len(cat), dist


# ---------------------------------------------------------------------------------------------------------
# (A) correspondence: glyph sessions against Lang/EmitSession.v
# ---------------------------------------------------------------------------------------------------------
GLYPH_RE = re.compile(r"uint8_t \w+_glyph_(\w+?)_(\d+)\[8\] = \{(.*)\};")
SLOT_RE = re.compile(r"createChar\(static_cast<uint8_t>\((.*)\), ")


def glyph_script(rng):
    """-> (snodes for the wire, source): 1-2 displays, glyph / other statements in setup then in the main loop"""
    lcds = rng.sample(["lcd", "panel", "d2"], rng.randint(1, 2))
    lines = [f"{l} = LCD(i2c_addr=0x27, cols=16, rows=2)" if i % 2 else f"{l} = LCD(rs=12, en=11, d4=5, d5=4, d6=3, d7=2)" for i, l in enumerate(lcds)]
    nodes = []

    def stmts(n):
        out = []
        for _ in range(n):
            l = rng.choice(lcds)
            if rng.random() < 0.65:
                rows = [rng.choice([0, 1, 4, 10, 14, 17, 21, 31, 32, 33, 63, 64, 255, -1, -32, 1000]) for _ in range(8)]
                slot = rng.randint(0, 7)
                spell = rng.choice(["pos", "kw", "tuple", "floats"])
                if spell == "pos":
                    out.append(f"{l}.glyph({slot}, {rows})")
                elif spell == "kw":
                    out.append(f"{l}.glyph(slot={slot}, bitmap={rows})")
                elif spell == "tuple":
                    out.append(f"{l}.glyph({slot}, ({', '.join(map(str, rows))}))")
                else:
                    out.append(f"{l}.glyph({slot}, [{', '.join(str(float(v)) for v in rows)}])")
                nodes.append([0, l, str(slot), rows])
            else:
                out.append(rng.choice([f'{l}.write(0, 0, "x")', f"{l}.clear()", "sleep(3)"]))
        return out
    setup = stmts(rng.randint(0, 4))
    loop = stmts(rng.randint(0, 3))
    src = IMPORTS + "\n".join(lines + setup) + "\nwhile True:\n" + "".join(f"    {x}\n" for x in loop + ["sleep(9)"])
    return nodes, src


def observe_glyphs(cpp):
    arrays = GLYPH_RE.findall(cpp)
    slots = SLOT_RE.findall(cpp)
    if len(arrays) != len(slots):
        raise ValueError("glyph arrays and createChar calls do not pair up")
    return [[0, a[0], int(a[1]), s, [int(x) for x in a[2].split(",") if x.strip()]] for a, s in zip(arrays, slots)]


def emit_correspondence(ctx, C, seed):
    rng = ctx.rng
    thorough = ctx.tier == "thorough"
    n_ses = 120 if thorough else 30
    sessions = []
    for _ in range(n_ses):
        k = rng.randint(1, 3)
        scripts = [glyph_script(rng) for _ in range(k)]
        ops, parsed = [], set()
        for _o in range(rng.randint(3, 10)):
            i = rng.randrange(k)
            if i not in parsed or rng.random() < 0.25:
                ops.append([0, i])
                parsed.add(i)
            else:
                ops.append([1, i])
        ops += [[1, i] for i in sorted(parsed)] * rng.randint(1, 2)
        sessions.append((scripts, ops))
    mouts = ctx.model([[9, [s[0] for s in scripts], ops] for scripts, ops in sessions])
    n = 0
    emits = 0
    all_src, all_ops, spans = [], [], []
    for scripts, ops in sessions:                 # one process: the sessions use their own script indices, a Program is kept per index
        base = len(all_src)
        all_src += [s[1] for s in scripts]
        spans.append((len(all_ops), len(all_ops) + len(ops)))
        all_ops += [["p" if o[0] == 0 else "e", base + o[1]] for o in ops]
    all_real = c10_roles.run_ops(C, all_src, all_ops, seed, texts=True)
    for (scripts, ops), m, (lo, hi) in zip(sessions, mouts, spans):
        real = all_real[lo:hi]
        if m[0] != 0:
            ctx.disagree("model could not decode a glyph session", {"ops": ops}, m, None)
            continue
        want = [None if not x else [o for o in x[0] if o[0] == 0] for x in m[1]]
        want = [None if w is None else [[0, C.wstr(o[1]), o[2], C.wstr(o[3]), list(o[4])] for o in w] for w in want]
        got = []
        for o, r in zip(ops, real):
            if o[0] == 0:
                if not r["ok"]:
                    ctx.disagree("glyph script rejected by the transpiler (generator bug)", scripts[o[1]][1], None, r)
                continue
            if not r["ok"]:
                got.append(None if r.get("exc") == "NotParsed" else ["exc", r.get("exc")])
                continue
            try:
                got.append(observe_glyphs(r["cpp"]))
            except ValueError as e:
                got.append(["unreadable", str(e)])
        n += 1
        emits += len(got)
        if got != want:
            k = next((i for i, (a, b) in enumerate(zip(got, want)) if a != b), None)
            ctx.disagree("glyph arrays of the emitted text in a session of parse()/emit() calls vs EmitSession.esession (storage kind from the inventory)",
                         {"scripts": [s[1] for s in scripts], "ops": [["parse" if o[0] == 0 else "emit", o[1]] for o in ops], "first_differing_emit": k},
                         want[k] if k is not None else want, got[k] if k is not None else got)
    return n + emits, {"glyph_sessions": n, "emit_calls_compared": emits}


# ---------------------------------------------------------------------------------------------------------
# (B) helper programs and their poisoned twins
# ---------------------------------------------------------------------------------------------------------
LITS = {0: ["1", "7", "0", "42"], 1: ["2.5", "0.5"], 2: ["True", "False"], 3: ['"a"', '"bc"', '"b"']}
TNAMES = ["int", "float", "bool", "String"]
HNAMES = ["pick", "conv", "sel", "mix", "calc"]


def poison_families(rng, n):
    """-> [{"shape", "V": src, "P": [src...]}]: V valid, every P shares V's helper names and call signatures and is rejected"""
    fams = []
    shapes = ["spec-conflict", "spec-conflict-float", "nested", "arity", "late-error", "pending", "in-loop", "in-branch", "callback",
              "two-helpers", "def-conflict", "spec-conflict-bool", "recursion", "spec-conflict-2args"]
    for k in range(n):
        shape = shapes[k % len(shapes)]
        f, g = [h + (f"{k}_" if k % 3 else "") for h in rng.sample(HNAMES, 2)]
        s_lit = rng.choice(LITS[3])
        other_t = rng.choice([0, 1, 2])
        o_lit = rng.choice(LITS[other_t])
        bad_body = f"    if x == 0:\n        return x\n    return {rng.choice(LITS[rng.choice([0, 1, 2])])}\n"
        good_body = "    return x\n"
        calls = [f"v = {f}({s_lit})"] + ([f"w = {f}({o_lit})"] if rng.random() < 0.6 else [])
        if rng.random() < 0.5:
            calls.reverse()
        tail = "while True:\n    sleep(5)\n"
        fam = {"shape": shape, "P": [], "own_names": bool(k % 3)}
        if shape in ("spec-conflict", "spec-conflict-float"):
            fam["V"] = f"def {f}(x):\n{good_body}" + "\n".join(calls) + "\n" + tail
            fam["P"].append(f"def {f}(x):\n{bad_body}" + "\n".join(calls) + "\n" + tail)
            fam["P"].append(f"def {f}(x):\n{bad_body}v = {f}({s_lit})\n")
        elif shape == "nested":
            fam["V"] = f"def {f}(x):\n{good_body}def {g}(y):\n    return {f}(y)\nv = {g}({s_lit})\n" + tail
            fam["P"].append(f"def {f}(x):\n{bad_body}def {g}(y):\n    return {f}(y)\nv = {g}({s_lit})\n" + tail)
        elif shape == "arity":
            fam["V"] = f"def {f}(x, y):\n    return x\nv = {f}({s_lit}, {o_lit})\n" + tail
            fam["P"].append(f"def {f}(x):\n    return x\nv = {f}({s_lit}, {o_lit})\n" + tail)
        elif shape == "late-error":
            fam["V"] = f"def {f}(x):\n{good_body}" + "\n".join(calls) + "\n" + tail
            fam["P"].append(f"def {f}(x):\n{good_body}" + "\n".join(calls) + "\nz_ = nodev_.read()\n" + tail)
            fam["P"].append(f"def {f}(x):\n{good_body}" + "\n".join(calls) + "\nwhile True:\n    z_ = nodev_.measure_distance()\n")
        elif shape == "pending":
            fam["V"] = f"v = {f}({s_lit})\ndef {f}(x):\n{good_body}w = {f}({s_lit})\n" + tail
            fam["P"].append(f"v = {f}({s_lit})\ndef {f}(x):\n{bad_body}w = {f}({s_lit})\n" + tail)
        elif shape == "in-loop":
            fam["V"] = f"def {f}(x):\n{good_body}v = {s_lit}\nwhile True:\n    v = {f}({s_lit})\n    sleep(5)\n"
            fam["P"].append(f"def {f}(x):\n{bad_body}v = {s_lit}\nwhile True:\n    v = {f}({s_lit})\n    sleep(5)\n")
        elif shape == "in-branch":
            fam["V"] = f"def {f}(x):\n{good_body}n = 3\nif n > 2:\n    v = {f}({s_lit})\nelse:\n    v = {f}({s_lit})\nfor i in range(2):\n    u = {f}({o_lit})\n" + tail
            fam["P"].append(f"def {f}(x):\n{bad_body}n = 3\nif n > 2:\n    v = {f}({s_lit})\nelse:\n    v = {f}({s_lit})\nfor i in range(2):\n    u = {f}({o_lit})\n" + tail)
        elif shape == "callback":
            fam["V"] = f"def {f}(x):\n{good_body}def cb_():\n    v = {f}({s_lit})\nbtn_ = Button(4, on_click=cb_)\n" + tail
            fam["P"].append(f"def {f}(x):\n{bad_body}def cb_():\n    v = {f}({s_lit})\nbtn_ = Button(4, on_click=cb_)\n" + tail)
        elif shape == "two-helpers":
            fam["V"] = f"def {f}(x):\n{good_body}def {g}(x):\n    return x\nu = {g}({s_lit})\nv = {f}({s_lit})\n" + tail
            fam["P"].append(f"def {f}(x):\n{bad_body}def {g}(x):\n    return x\nu = {g}({s_lit})\nv = {f}({s_lit})\n" + tail)
            fam["P"].append(f"def {f}(x):\n{good_body}def {g}(x):\n    if x == 0:\n        return x\n    return 1\nv = {f}({s_lit})\nu = {g}({s_lit})\n" + tail)
        elif shape == "def-conflict":
            fam["V"] = f"def {f}(x):\n    return {s_lit}\nv = {f}({o_lit})\n" + tail
            fam["P"].append(f"def {f}(x):\n    if x == 0:\n        return {s_lit}\n    return x\nv = {f}({o_lit})\n" + tail)
        elif shape == "spec-conflict-bool":
            fam["V"] = f"def {f}(x):\n{good_body}" + "\n".join(calls) + "\n" + tail
            fam["P"].append(f"def {f}(x):\n    if x == 0:\n        return True\n    return x\n" + "\n".join(calls) + "\n" + tail)
        elif shape == "recursion":
            fam["V"] = f"def {f}(n):\n    if n <= 1:\n        return 1\n    return n * {f}(n - 1)\nv = {f}(5)\nw = {f}(2.5)\n" + tail
            fam["P"].append(f"def {f}(n):\n    if n <= 1:\n        return 1\n    return n * {f}(n - 1)\nv = {f}(5)\nw = {f}(2.5)\nz_ = nodev_.read()\n" + tail)
            fam["P"].append(f"def {f}(n):\n    if n <= 1:\n        return \"one\"\n    return n * {f}(n - 1)\nv = {f}(5)\nw = {f}(2.5)\n" + tail)
        else:                                        # spec-conflict-2args
            fam["V"] = f"def {f}(x, y):\n    return y\nv = {f}({o_lit}, {s_lit})\nw = {f}({o_lit}, {o_lit})\n" + tail
            fam["P"].append(f"def {f}(x, y):\n    if x == 0:\n        return y\n    return 0\nv = {f}({o_lit}, {s_lit})\nw = {f}({o_lit}, {o_lit})\n" + tail)
        fam["V"] = IMPORTS + fam["V"]
        fam["P"] = [IMPORTS + p for p in fam["P"]]
        fams.append(fam)
    return fams


def rejected_oracle(ctx, C, seed):
    rng = ctx.rng
    thorough = ctx.tier == "thorough"
    fams = poison_families(rng, 112 if thorough else 28)
    sources, ops, checks = [], [], []        # checks: (op index, reference op index, family, what, before sources, program)
    for fam in fams:
        v = len(sources)
        fam["v"] = v
        sources.append(fam["V"])
        ps = []
        for p in fam["P"]:
            ps.append(len(sources))
            sources.append(p)

        def add(seq, reset=True):
            base = len(ops)
            if reset:
                ops.append(["reset"])
            for i in seq:
                ops.append(["t", i])
            off = 1 if reset else 0
            return [base + off + j for j in range(len(seq))]
        # one long session per family (the helper names of a family are its own, see poison_families): V first - its text before any
        # rejected script - then every twin before / between / after it; and each twin alone after a module reset
        ref_v = add([v], reset=not fam.get("own_names"))[0]       # (a family whose helper names are its own needs no fresh module state)
        fam["ref_v"] = ref_v
        fam["ref_p"] = []
        seen = [v]
        for p in ps:
            a = add([p, v, p, p, v], reset=False)
            fam["ref_p"].append(a[0])
            checks.append((a[1], ref_v, fam, "V P V", list(seen) + [p], v))
            checks.append((a[2], a[0], fam, "V P V P", list(seen) + [p, v], p))
            checks.append((a[3], a[0], fam, "V P V P P", list(seen) + [p, v, p], p))
            checks.append((a[4], ref_v, fam, "V P V P P V", list(seen) + [p, v, p, p], v))
            seen += [p, v, p, p, v]
        for j_, (p, rp) in enumerate(zip(ps, list(fam["ref_p"]))):
            a = add([p, p, v], reset=(j_ == 0))
            checks.append((a[0], rp, fam, "P alone (after a module reset)", [], p))
            checks.append((a[1], rp, fam, "P P", [p], p))
            checks.append((a[2], ref_v, fam, "P P V", [p, p], v))
    res = c10_roles.run_ops(C, sources, ops, seed)
    budget = {}
    shapes = {}
    outcomes = {"V accepted": 0, "V rejected": 0, "P rejected": 0, "P accepted": 0}
    for fam in fams:
        shapes[fam["shape"]] = shapes.get(fam["shape"], 0) + 1
        outcomes["V accepted" if res[fam["ref_v"]]["ok"] else "V rejected"] += 1
        if not res[fam["ref_v"]]["ok"]:
            ctx.disagree("valid helper program rejected by the transpiler (generator bug)", fam["V"], None, res[fam["ref_v"]])
        for rp in fam["ref_p"]:
            outcomes["P rejected" if not res[rp]["ok"] else "P accepted"] += 1
            if res[rp]["ok"]:
                ctx.disagree("poisoned helper program accepted by the transpiler (generator bug: the twin is not rejected)", sources[ops[rp][1]], None, res[rp])
            elif res[rp].get("exc") != "ValueError":
                ctx.disagree("poisoned helper program raised something else than ValueError", sources[ops[rp][1]], None, res[rp])
    evaluations = 0
    for at, ref, fam, what, before, prog in checks:
        evaluations += 1
        if res[at]["sha"] == res[ref]["sha"]:
            continue
        rejected_before = [b for b in before if b != fam["v"]]
        c10_roles.report(ctx, C, seed,
                         ("a script comes out differently after an earlier script of the same process was REJECTED (the rejected parse() left state behind)"
                          if prog == fam["v"] else
                          "the outcome of transpiling a rejected script changes when it is transpiled again / after another script in the same process"),
                         "after-rejected-parse", [[sources[b] for b in rejected_before][:1] or [sources[b] for b in before], [sources[b] for b in before]],
                         sources[prog],
                         {"session": what + "  (V = the valid helper program, P = its poisoned twin: same helper names and call signatures, rejected with ValueError)",
                          "family_shape": fam["shape"], "outcome_alone": res[ref].get("exc") or "accepted", "outcome_in_the_session": res[at].get("exc") or "accepted",
                          "origin": "poisoned twin",
                          "replay": "one process: PYTHONPATH=/repo/src python -c 'import sys; from Reduino.transpile.parser import parse; from Reduino.transpile.emitter "
                                    "import emit\nfor f in sys.argv[1:-1]:\n    try: emit(parse(open(f).read()))\n    except ValueError: pass\n"
                                    "print(emit(parse(open(sys.argv[-1]).read())))' <earlier programs...> <program>   versus the same command with <program> alone"}, budget)
    # ---- ABORTED transpilations: V itself, cut short at a seeded selection of its function calls by an exception that is not a ValueError
    # (what Ctrl-C or a MemoryError does); V afterwards must come out as it does alone.  The aborted script shares every key with V.
    vs = [fam["V"] for k_, fam in enumerate(fams) if thorough or k_ % 2 == 0]
    counts = c10_roles.run_ops(C, vs, [["ti", i, 0] for i in range(len(vs))], seed)
    ops2, back = [], []
    n_abort = 0
    for i, r0 in enumerate(counts):
        total = r0.get("calls", 0)
        if not r0["ok"] or total < 2:
            continue
        parts = 8 if thorough else 4
        cuts = sorted({1 + (total * q) // parts for q in range(1, parts)} | {rng.randint(1, total) for _ in range(3 if thorough else 1)})
        for n_ in cuts:
            ops2 += [["ti", i, n_], ["t", i]]
            back.append((len(ops2) - 1, i, n_, total))
    res2 = c10_roles.run_ops(C, vs, ops2, seed) if ops2 else []
    for at, i, n_, total in back:
        evaluations += 1
        n_abort += 1 if not res2[at - 1]["ok"] else 0
        if res2[at]["sha"] != counts[i]["sha"] and budget.get("after-aborted-parse", 0) < 3:
            budget["after-aborted-parse"] = budget.get("after-aborted-parse", 0) + 1
            alone = c10_roles.run_ops(C, [vs[i]], [["t", 0]], seed, texts=True)[0]
            after = c10_roles.run_ops(C, [vs[i]], [["ti", 0, n_], ["t", 0]], seed, texts=True)[1]
            ctx.fail("a script comes out differently after an earlier transpilation of the same process was ABORTED by an exception raised inside "
                     "parse()/emit() (a BaseException injected at a function call of parser.py / emitter.py, as KeyboardInterrupt or MemoryError would be)",
                     {"program": vs[i], "aborted_at_call": n_, "calls_of_a_full_transpilation": total, "hashseed": seed,
                      "unified_diff": _udiff(alone.get("cpp") or alone["sha"], after.get("cpp") or after["sha"], "program alone (fresh process)",
                                             "after the aborted transpilation of the same program (fresh process)"),
                      "replay": 'echo \'{"mode": "ops", "texts": true, "sources": [<program>], "ops": [["ti", 0, %d], ["t", 0]]}\' | PYTHONPATH=/repo/src python harness/impl/c10_impl.py' % n_},
                     expected=f"sha256 {str(alone['sha'])[:16]} (the text of the program transpiled alone)", observed=f"sha256 {str(after['sha'])[:16]}",
                     key="after-aborted-parse")
    dist = {"helper_families_by_shape": shapes, "outcomes_alone": outcomes, "session_comparisons": evaluations, "reports_by_class": budget,
            "aborted_transpilations(cut points that really aborted)": n_abort}
    return evaluations, len(fams), dist


# ---------------------------------------------------------------------------------------------------------
# (B) correspondence: single-level helper sessions against Lang/VariantSession.v
# ---------------------------------------------------------------------------------------------------------
def frag_program(rng, pool):
    """-> (wire vprog, source): helpers `def f(x):` returning the parameter / literals on different paths, then column-0 calls"""
    fs = rng.sample(pool, rng.randint(1, 2))
    defs, lines = [], []
    for f in fs:
        n = rng.choice([1, 1, 2, 2, 3])
        body = []
        for _ in range(n):
            body.append([0] if rng.random() < 0.5 else [1, rng.choice([0, 0, 1, 2, 3])])
        defs.append([f, body])
        lines.append(f"def {f}(x):")
        for j, r in enumerate(body):
            val = "x" if r[0] == 0 else rng.choice(LITS[r[1]])
            if j < len(body) - 1:
                lines.append(f"    if x == {j}:")
                lines.append(f"        return {val}")
            else:
                lines.append(f"    return {val}")
    calls = []
    for j in range(rng.randint(0, 4)):
        f = rng.choice(fs)
        t = rng.choice([0, 1, 2, 3, 3])
        v = f"r{j}_"
        calls.append([v, f, t])
        lines.append(f"{v} = {f}({rng.choice(LITS[t])})")
    return [defs, calls], IMPORTS + "\n".join(lines) + "\nwhile True:\n    sleep(5)\n"


def variant_correspondence(ctx, C, seed):
    rng = ctx.rng
    thorough = ctx.tier == "thorough"
    n_ses = 160 if thorough else 40
    sessions = []
    for _ in range(n_ses):
        pool = [h + f"_{len(sessions)}" for h in rng.sample(HNAMES, 2)]       # the helper names of a session are its own: no module reset needed
        sessions.append([frag_program(rng, pool) for _ in range(rng.randint(2, 5))])
    # the two witness programs of the theorem, in the orders of the witness
    A = ([[["pick", [[0], [1, 0]]]], [["v", "pick", 3]]], IMPORTS + 'def pick(x):\n    if x == 0:\n        return x\n    return 0\nv = pick("a")\n')
    B = ([[["pick", [[0]]]], [["v", "pick", 3]]], IMPORTS + 'def pick(x):\n    return x\nv = pick("b")\n')
    sessions += [[A, B], [A, A], [B, A, B]]
    mouts = ctx.model([[8, [p[0] for p in ses]] for ses in sessions])
    sources, ops, resets = [], [], []
    for ses in sessions:
        resets.append(ses[0][0][0][0][0] == "pick")          # (the witness sessions share `pick`: those start from a module reset)
        if resets[-1]:
            ops.append(["reset"])
        for p in ses:
            ops.append(["t", len(sources)])
            sources.append(p[1])
    real = C.run_impl("c10_impl.py", {"mode": "outcomes", "sources": sources, "ops": ops, "texts": False},
                      env_extra={"PYTHONHASHSEED": str(seed)}, timeout=1200)["results"]
    it = iter(real)
    n = 0
    kinds = {"rejected": 0, "accepted": 0}
    for ses, m, rs in zip(sessions, mouts, resets):
        if rs:
            next(it)                               # the reset
        if m[0] != 0:
            ctx.disagree("model could not decode a helper session", [p[1] for p in ses], m, None)
            for _ in ses:
                next(it)
            continue
        for k, (p, mo) in enumerate(zip(ses, m[1])):
            r = next(it)
            n += 1
            if mo[0] == 1:
                want = ["rejected"]
            else:
                want = ["accepted", sorted([C.wstr(d[0]), TNAMES[d[1]]] for d in mo[1]),
                        sorted([TNAMES[v[2]] if v[2] < 4 else "void", C.wstr(v[0]), TNAMES[v[1]] + " x"] for v in mo[2])]
            if not r["ok"]:
                got = ["rejected"] if r.get("exc") == "ValueError" else ["raised", r.get("exc")]
            else:
                wanted_vars = {c[0] for c in p[0][1]}
                got = ["accepted", sorted([v, t] for v, t in r["vars"].items() if v in wanted_vars), sorted(r["fns"])]
            kinds[got[0]] = kinds.get(got[0], 0) + 1
            if got != want:
                ctx.disagree("helper session: VariantSession.vsession (guard configuration from the inventory) vs the real parse()+emit() at "
                             f"position {k} of a session in one process", {"program": p[1], "earlier_programs": [q[1] for q in ses[:k]]}, want, got)
    return n, {"helper_sessions": len(sessions), "programs_compared": n, "outcomes": kinds}


def extra_corpus(rng, thorough):
    """helper programs (several call signatures, nested helpers, recursion, calls before the def, in loops / branches / callbacks) and glyph
    scripts for the MAIN corpus of the check: hash seeds, dictated set orders, environments, repeated / interleaved sessions"""
    out = [(fam["V"], "helper " + fam["shape"]) for fam in poison_families(rng, 42 if thorough else 14)]
    out += [(glyph_script(rng)[1], "glyph") for _ in range(24 if thorough else 6)]
    out += [(c["src"], c["origin"]) for c in small_ir_scripts(rng)]
    return out


def run_purity(ctx, C, seed, have_model, progs):
    import time
    dist = {}
    t0 = time.time()
    ev1, nt1, d1 = emit_oracle(ctx, C, seed, progs)
    dist["re-emit_oracle"] = d1
    t1 = time.time()
    ev2, nt2, d2 = rejected_oracle(ctx, C, seed)
    dist["rejected-parse_oracle"] = d2
    t2 = time.time()
    ev3 = ev4 = 0
    if have_model:
        ev3, d3 = emit_correspondence(ctx, C, seed)
        dist["glyph_session_correspondence"] = d3
        t3 = time.time()
        ev4, d4 = variant_correspondence(ctx, C, seed)
        dist["helper_session_correspondence"] = d4
        dist["seconds"] = {"glyph sessions": round(t3 - t2, 1), "helper sessions": round(time.time() - t3, 1)}
    dist.setdefault("seconds", {}).update({"re-emit oracle": round(t1 - t0, 1), "rejected-parse oracle": round(t2 - t1, 1)})
    return ev1 + ev2 + ev3 + ev4, nt1 + nt2, dist
