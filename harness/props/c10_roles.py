"""C10 - cross-program NAME collisions: one name, two roles, two programs, one process.

The statement quantifies over "all sequences of earlier parse()/emit() calls in the same process": whatever a transpilation
leaves behind (a name registered in a device-name set, a function signature, a helper flag, a counter, any object handed out as
a `ctx.setdefault(key, D)` / `ctx.get(key, D)` default) must not reach the next one.  Such a leak is keyed by a NAME: it only
shows when a LATER program uses the same identifier in another role.  This module generates exactly that:

  * ROLES: every role an identifier can have in a script (each device class, scalar / list variable, value-returning and void
    function, parameter, loop variable, callback, tuple-swap operand, list-comprehension target), each with the statements that
    are legitimate for it (its "probes" - every lookup the transpiler makes for a name of that role);
  * pair sessions: for EVERY ordered pair of distinct roles (a, b), with a name of its own: A = name in role a; B = the same
    name in role b with b's probes; B' = B + one probe of role a (normally rejected: a leak that makes it acceptable shows too);
    B" = B' + another name in role a (so that the per-call table role a creates exists in B" as well);
    sessions `A B B' B"` (all pairs in one process) against the reference session `B B' B"` (no A ever transpiled);
    and for every role the pair (a, a) with OTHER DETAILS in B (pins, geometry, values, element types, function bodies / return types);
  * pool sessions: programs that give 3-5 names of ONE small pool random roles, transpiled in several orders in one process and
    compared with the text each has right after a module reset / in a fresh process (adjacent leaks, counters, multi-name);
  * interleavings of parse() and emit() of different programs, and emit() of one Program object twice;
  * device-registry sessions of the fragment modelled in coq/Lang/DevSession.v (correspondence with `transl_dev`).

Any difference between two sessions is a violation of the statement as written (both are "sequences of earlier calls"), so the
oracle cannot raise a false alarm; the two-program replay is confirmed in fresh processes before it is reported.
"""
from __future__ import annotations

import re

IMPORTS = """from Reduino.Actuators import Led, RGBLed, Buzzer, Servo, DCMotor
from Reduino.Sensors import Button, Potentiometer, Ultrasonic
from Reduino.Displays import LCD
from Reduino.Communication import SerialMonitor
from Reduino.Utils import sleep
"""

# role -> (top-level declaration lines, probe lines legitimate for the role, main-loop lines); {X} = the name, {q} = a fresh
# result name (numbered per use), {m} = the program's own serial monitor
ROLES = {
    "servo": (["{X} = Servo(9)"], ["{X}.write(90)", "{q} = {X}.read()", "{q} = {X}.read_us()"], ["{X}.write(10)", "{q} = {X}.read()"]),
    "pot": (['{X} = Potentiometer("A0")'], ["{q} = {X}.read()"], ["{q} = {X}.read()", "{m}.write({X}.read())"]),
    "serial": (["{X} = SerialMonitor(9600)"], ['{X}.write("hi")', "{q} = {X}.read()"], ["{q} = {X}.read()", '{X}.write("ok")']),
    "ultra": (["{X} = Ultrasonic(7, 8)"], ["{q} = {X}.measure_distance()"], ["{q} = {X}.measure_distance()"]),
    "button": (["{X} = Button(4)"], ["{q} = {X}.is_pressed()"], ["if {X}.is_pressed():\n        sleep(1)"]),
    "led": (["{X} = Led(13)"], ["{X}.on()", "{q} = {X}.get_state()", "{q} = {X}.get_brightness()", "{X}.set_brightness(7)"], ["{X}.toggle()"]),
    "rgb": (["{X} = RGBLed(3, 5, 6)"], ["{X}.set_color(1, 2, 3)", "{X}.on()"], ["{X}.off()"]),
    "buzzer": (["{X} = Buzzer(11)"], ["{X}.play_tone(440, duration_ms=50)", "{q} = {X}.get_state()", "{q} = {X}.get_frequency()"], ["{X}.stop()"]),
    "motor": (["{X} = DCMotor(2, 10, 12)"], ["{X}.set_speed(0.5)", "{q} = {X}.get_speed()"], ["{X}.stop()"]),
    "lcd": (["{X} = LCD(i2c_addr=0x27, cols=16, rows=2)"], ['{X}.write(0, 0, "x")', '{X}.line(1, "abc")'], ["{X}.clear()"]),
    "int": (["{X} = 3"], ["{q} = {X} + 1", "{m}.write({X})"], ["{X} = {X} + 1"]),
    "float": (["{X} = 2.5"], ["{q} = {X} * 2", "{m}.write({X})"], ["{X} = {X} / 2"]),
    "str": (['{X} = "s"'], ['{q} = {X} + "t"', "{m}.write({X})"], ["{m}.write({X})"]),
    "bool": (["{X} = True"], ["{q} = not {X}", "{m}.write({X})"], ["{X} = not {X}"]),
    "list": (["{X} = [1, 2, 3]"], ["{X}.append(4)", "{q} = len({X})", "{q} = {X}[0]"], ["{X}.append(1)", "{q} = len({X})"]),
    "flist": (["{X} = [1.5, 2.5]"], ["{q} = {X}[1]", "{X}.append(0.5)"], ["{q} = len({X})"]),
    "func": (["def {X}(a, b):\n    return a + b"], ["{q} = {X}(1, 2)", "{q} = {X}(1.5, 2)"], ["{q} = {X}(2, 2)"]),
    "sfunc": (['def {X}(a):\n    return "v" + a'], ['{q} = {X}("w")'], ['{m}.write({X}("z"))']),
    "proc": (["def {X}():\n    sleep(1)"], ["{X}()"], ["{X}()"]),
    "param": (["def fn_{X}({X}, other):\n    return {X} * other"], ["{q} = fn_{X}(2, 3)", "{q} = fn_{X}(2.5, 3)"], ["{q} = fn_{X}(1, 1)"]),
    "loopvar": (["acc_{X} = 0"], ["for {X} in range(3):\n    acc_{X} = acc_{X} + {X}"], ["for {X} in range(2):\n        acc_{X} = acc_{X} + {X}"]),
    "callback": (["def {X}():\n    sleep(2)", "btn_{X} = Button(4, on_click={X})"], ["{q} = btn_{X}.is_pressed()"], ["sleep(1)"]),
    "swap": (["{X}, oth_{X} = 1, 2"], ["{X}, oth_{X} = oth_{X}, {X}"], ["oth_{X}, {X} = {X} + 1, oth_{X}"]),
    "comp": (["src_{X} = [1, 2, 3]"], ["dst_{X} = [{X} * 2 for {X} in range(4)]", "{q} = len(dst_{X})"], ["{q} = len(src_{X})"]),
    "local": (["def use_{X}():\n    {X} = 5\n    return {X} + 1"], ["{q} = use_{X}()"], ["{q} = use_{X}()"]),
}
ROLE_NAMES = sorted(ROLES)

# the SAME role with other details (pins, geometry, values, element types, function bodies and return types): what one
# program records under a name - a pin, a model, a signature, a compiled function variant - must not be what the next one finds
ALT_DECL = {
    "servo": ["{X} = Servo(10, min_angle=10, max_angle=90)"], "pot": ['{X} = Potentiometer("A3")'], "serial": ["{X} = SerialMonitor(57600)"],
    "ultra": ["{X} = Ultrasonic(trig=5, echo=6)"], "button": ["{X} = Button(12)"], "led": ["{X} = Led(6)"], "rgb": ["{X} = RGBLed(9, 10, 11)"],
    "buzzer": ["{X} = Buzzer(8)"], "motor": ["{X} = DCMotor(4, 7, 6)"], "lcd": ["{X} = LCD(rs=12, en=11, d4=5, d5=4, d6=3, d7=2, cols=20, rows=4)"],
    "int": ["{X} = 40"], "float": ["{X} = 0.25"], "str": ['{X} = "other"'], "bool": ["{X} = False"], "list": ["{X} = [7.5, 8.5]"],
    "flist": ["{X} = [3, 4, 5]"], "func": ["def {X}(a, b):\n    return a * b + 0.5"], "sfunc": ["def {X}(a):\n    return len(a)"],
    "proc": ["def {X}():\n    sleep(7)\n    sleep(8)"], "param": ['def fn_{X}({X}, other):\n    return "p" + {X}'],
    "loopvar": ["acc_{X} = 0.5"], "callback": ["def {X}():\n    sleep(9)", "btn_{X} = Button(7, on_click={X})"],
    "swap": ["{X}, oth_{X} = 1.5, 2.5"], "comp": ["src_{X} = [4.5]"], "local": ['def use_{X}():\n    {X} = "s"\n    return {X} + "t"'],
}


class Qs:
    def __init__(self, prefix):
        self.prefix, self.n = prefix, 0

    def fresh(self):
        self.n += 1
        return f"{self.prefix}{self.n}"


def _fmt(line, X, qs, mon):
    out = line
    while "{q}" in out:
        # one fresh result name per line (all {q} of a line are the same name)
        q = qs.fresh()
        out = out.replace("{q}", q)
    return out.replace("{X}", X).replace("{m}", mon)


def role_program(assign, probes=True, foreign=None, loop=True, mon="mon_", alt=False):
    """assign: [(name, role)...]; foreign: (name, role_a) -> one probe of role_a is applied to `name` as well.
    -> source text"""
    qs = Qs("q_")
    defs, decl, body, loopl = [], [f"{mon} = SerialMonitor(115200)"], [], []
    for X, role in assign:
        d, p, l = ROLES[role]
        if alt:
            d = ALT_DECL[role]
        for line in d:
            (defs if line.startswith("def ") else decl).append(_fmt(line, X, qs, mon))
    for X, role in assign:
        d, p, l = ROLES[role]
        if probes:
            for line in p:
                body.append(_fmt(line, X, qs, mon))
        if loop:
            for line in l:
                loopl.append(_fmt(line, X, qs, mon))
    if foreign is not None:
        X, ra, which = foreign
        pr = ROLES[ra][1]
        body.append(_fmt(pr[which % len(pr)], X, qs, mon))
    # callbacks need their function before the Button line: all defs first, then declarations in order
    src = IMPORTS + "\n".join(defs) + ("\n" if defs else "") + "\n".join(decl) + "\n" + "\n".join(body) + "\n"
    src += "while True:\n" + "".join(f"    {l}\n" for l in (loopl or ["sleep(5)"]))
    return src


def pair_programs(rng, tier):
    """-> list of {"a", "b", "name", "A", "B", "Bf"} for every ordered pair of distinct roles"""
    out = []
    k = 0
    for a in ROLE_NAMES:
        for b in ROLE_NAMES:
            if a == b:
                # same role, other details: A = the usual declaration, B = the alternative one (and the other way round in B")
                k += 1
                name = f"nm{k}_"
                out.append({"a": a, "b": b, "name": name, "A": role_program([(name, a)]), "B": role_program([(name, a)], alt=True),
                            "Bf": role_program([(name, a)], alt=True, loop=False),
                            "Bg": role_program([(name, a), (name + "o", a)], alt=True)})
                continue
            k += 1
            name = f"nm{k}_"
            out.append({"a": a, "b": b, "name": name,
                        "A": role_program([(name, a)]),
                        "B": role_program([(name, b)]),
                        "Bf": role_program([(name, b)], foreign=(name, a, rng.randrange(8))),
                        # ... and with ANOTHER name in role a, so that whatever per-call table role a creates exists in B too
                        "Bg": role_program([(name, b), (name + "o", a)], foreign=(name, a, rng.randrange(8)))})
    return out


POOL = ["dev", "val", "aux", "tick", "item", "node"]


def pool_programs(rng, n):
    out = []
    for _ in range(n):
        names = rng.sample(POOL, rng.randint(2, 4))
        assign = [(x, rng.choice(ROLE_NAMES)) for x in names]
        # derived names (fn_X, acc_X ...) cannot clash: the pool names are distinct
        out.append({"assign": assign, "src": role_program(assign, probes=rng.random() < 0.85, loop=rng.random() < 0.7)})
    return out


# programs that are REJECTED half-way, at a point where the parser is inside a function body / a loop / a branch / a callback /
# a try block: whatever flag or registry entry it has set by then must not survive the exception
POISON = [
    "def {X}():\n    y_ = nodev_.read()\n    return y_\n",
    "{X} = Led(13)\nwhile True:\n    {X}.toggle()\n    y_ = nodev_.measure_distance()\n",
    "{X} = 1\nfor i_ in range(3):\n    if i_ > 1:\n        {X} = nodev_.read_us()\n",
    "{X} = SerialMonitor(9600)\ntry:\n    z_ = nodev_.get_state()\nexcept Exception:\n    sleep(1)\n",
    "def {X}(a, b):\n    return a + b\nq_ = {X}(1, 2)\nr_ = [k_ * 2 for k_ in q_]\n",
    "{X} = [1, 2]\n{X}.append(3)\nw_ = {X}.nosuch(1)\n",
    "def cb_{X}():\n    y_ = nodev_.is_pressed()\n{X} = Button(4, on_click=cb_{X})\n",
    "{X}, o_ = 1, 2\n{X}, o_ = o_, {X}\nv_ = nodev_.get_brightness()\n",
    "{X} = Servo(9)\n{X}.write(\n",
    "{X} = Potentiometer(\"A0\")\nif {X}.read() > 3:\n    u_ = {X}.read(1, 2)\n",
    "{X} = Ultrasonic(7, 8)\nwhile True:\n    d_ = {X}.measure_distance(5)\n",
    "{X} = LCD(i2c_addr=0x27, cols=16, rows=2)\n{X}.animate(\"nosuch\", 0, \"t\")\nwhile True:\n    sleep(1)\n",
]


def poison_programs(rng):
    return [{"assign": [(x, "poison")], "src": IMPORTS + t.replace("{X}", x), "poison": True}
            for t in POISON for x in [rng.choice(POOL)]]


# ---------------------------------------------------------------------------------------------------------
# the fragment of coq/Lang/DevSession.v
# ---------------------------------------------------------------------------------------------------------
DKINDS = ["Servo", "Pot", "Serial", "Ultra", "Button", "Led"]
DKIND_SRC = {0: "{x} = Servo({p})", 1: '{x} = Potentiometer("A{a}")', 2: "{x} = SerialMonitor(9600)", 3: "{x} = Ultrasonic({p}, {p2})",
             4: "{x} = Button({p})", 5: "{x} = Led({p})"}
METHS = ["read", "read_us", "measure_distance", "is_pressed", "get_state", "get_brightness"]
VALID = {0: [0, 1], 1: [0], 2: [0], 3: [2], 4: [3], 5: [4, 5]}      # kind -> methods that are accepted for it
TYPES = ["int", "float", "bool", "String"]
EXPR_KINDS = [r"^__servo_angle_\w+$", r"^__servo_pulse_\w+$", r"^analogRead\(\w+\)$", r"^Serial\.readStringUntil\('\\n'\)$",
              r"^__redu_ultrasonic_measure_\w+\(\)$", r"^\(__redu_button_value_\w+ \? 1 : 0\)$", r"^__state_\w+$", r"^__brightness_\w+$"]
DNAMES = ["x", "dev", "s1", "io"]


def dev_program(rng, p_invalid=0.12):
    """-> (stmts, src): stmts in the wire vocabulary [0, x, kind] | [1, y, x, meth]"""
    stmts, lines = [], []
    kinds_of = {}
    nq = 0
    for _ in range(rng.randint(1, 6)):
        if not kinds_of or rng.random() < 0.45:
            x = rng.choice(DNAMES)
            k = rng.randrange(6)
            kinds_of.setdefault(x, []).append(k)
            stmts.append([0, x, k])
            lines.append(DKIND_SRC[k].format(x=x, p=rng.randint(2, 13), p2=rng.randint(14, 19), a=rng.randint(0, 5)))
        else:
            x = rng.choice(sorted(kinds_of)) if rng.random() > 0.05 else rng.choice(DNAMES)
            if rng.random() < p_invalid or x not in kinds_of:
                m = rng.randrange(6)
            else:
                m = rng.choice(VALID[rng.choice(kinds_of[x])])
            nq += 1
            y = f"r{nq}_"
            stmts.append([1, y, x, m])
            lines.append(f"{y} = {x}.{METHS[m]}()")
    return stmts, IMPORTS + "\n".join(lines) + "\n"


def observe_dev(cpp, stmts):
    """-> [[y, expr kind, type]...] read off the emitted text (one entry per `y = x.m()` statement), or raises ValueError"""
    out = []
    for st in stmts:
        if st[0] != 1:
            continue
        y = st[1]
        m = re.search(r"^(int|float|bool|String) %s = .*;$" % re.escape(y), cpp, re.M)
        if not m:
            raise ValueError(f"no global declaration of {y}")
        e = re.search(r"^\s+%s = (.*);$" % re.escape(y), cpp, re.M)
        if not e:
            raise ValueError(f"no assignment of {y} in setup()")
        kinds = [i for i, pat in enumerate(EXPR_KINDS) if re.match(pat, e.group(1))]
        if len(kinds) != 1:
            raise ValueError(f"unrecognised right-hand side for {y}: {e.group(1)}")
        out.append([y, kinds[0], TYPES.index(m.group(1))])
    return out


# ---------------------------------------------------------------------------------------------------------
# running the sessions
# ---------------------------------------------------------------------------------------------------------
def run_ops(C, sources, ops, seed, texts=False):
    r = C.run_impl("c10_impl.py", {"mode": "ops", "sources": sources, "ops": ops, "texts": texts},
                   env_extra={"PYTHONHASHSEED": str(seed)}, timeout=1200)
    if str(r.get("hashseed")) != str(seed):
        raise RuntimeError(f"runner reports hash seed {r.get('hashseed')} instead of {seed}")
    return r["results"]


REPLAY_HOW = ("one process: PYTHONPATH=/repo/src python -c 'import sys; from Reduino.transpile.parser import parse; from Reduino.transpile.emitter "
              "import emit; [emit(parse(open(f).read())) for f in sys.argv[1:-1]]; print(emit(parse(open(sys.argv[-1]).read())))' <earlier programs...> "
              "<program>   versus the same command with <program> alone")


def _udiff(a, b, la, lb, limit=40):
    import difflib
    return list(difflib.unified_diff((a or "").splitlines(), (b or "").splitlines(), la, lb, lineterm="", n=1))[:limit]


def confirm(C, seed, before, prog):
    """fresh process with `prog` alone vs fresh process with the programs `before` first -> (differs, alone, after)"""
    alone = run_ops(C, [prog], [["t", 0]], seed, texts=True)[0]
    srcs = list(before) + [prog]
    after = run_ops(C, srcs, [["t", i] for i in range(len(srcs))], seed, texts=True)[-1]
    return alone["sha"] != after["sha"], alone, after


def report(ctx, C, seed, what, key, before_candidates, prog, extra, budget):
    """before_candidates: lists of earlier programs to try, smallest first; the first that reproduces in fresh processes is the replay"""
    if budget.get(key, 0) >= 4:
        budget[key + " (not reported individually)"] = budget.get(key + " (not reported individually)", 0) + 1
        return
    budget[key] = budget.get(key, 0) + 1
    for before in before_candidates:
        differs, alone, after = confirm(C, seed, before, prog)
        if differs and len(before) > 1:
            # shrink the prefix: keep the half that still reproduces, as long as one does
            cur = list(before)
            while len(cur) > 1:
                h = len(cur) // 2
                for part in (cur[h:], cur[:h]):
                    d2, al2, af2 = confirm(C, seed, part, prog)
                    if d2:
                        cur, alone, after = part, al2, af2
                        break
                else:
                    break
            before = cur
        if differs:
            case = {"earlier_programs_in_the_same_process": list(before), "program": prog, "hashseed": seed,
                    "unified_diff": _udiff(alone.get("cpp") or alone["sha"], after.get("cpp") or after["sha"], "program alone (fresh process)",
                                           f"after {len(before)} earlier transpilation(s) (fresh process)"),
                    "replay": REPLAY_HOW}
            case.update(extra)
            ctx.fail(what, case, expected=f"sha256 {str(alone['sha'])[:16]} (the text of the program transpiled alone)",
                     observed=f"sha256 {str(after['sha'])[:16]}", key=key)
            return
    # seen in the long session, not reproduced by any candidate prefix in fresh processes: still a difference between two
    # sequences of calls; report it with the longest candidate
    case = {"earlier_programs_in_the_same_process": list(before_candidates[-1])[-40:] if before_candidates else [], "program": prog,
            "hashseed": seed, "note": "observed in a long session; the candidate prefixes did not reproduce it in fresh processes", "replay": REPLAY_HOW}
    case.update(extra)
    ctx.fail(what, case, expected="the text of the program in the reference session", observed="another text", key=key)


def run_collisions(ctx, C, seed, have_model):
    rng = ctx.rng
    thorough = ctx.tier == "thorough"
    dist = {}
    budget = {}
    evaluations = 0
    nontrivial = 0

    # ------------------------------------------------------------------ every ordered pair of roles, one name per pair
    pairs = pair_programs(rng, ctx.tier)
    sources, idx = [], []
    for p in pairs:
        base = len(sources)
        sources += [p["A"], p["B"], p["Bf"], p["Bg"]]
        idx.append(base)
    ref = run_ops(C, sources, [op for b in idx for op in (["t", b + 1], ["t", b + 2], ["t", b + 3])], seed)
    ops1 = [op for b in idx for op in (["t", b], ["t", b + 1], ["t", b + 2], ["t", b + 3])]
    s1 = run_ops(C, sources, ops1, seed)
    order2 = list(reversed(range(len(idx))))
    pos2 = {k: j for j, k in enumerate(order2)}
    ops2 = [["t", b] for b in idx] + [op for k in order2 for op in (["t", idx[k] + 1], ["t", idx[k] + 2], ["t", idx[k] + 3])]
    s2 = run_ops(C, sources, ops2, seed)
    n_rej_foreign = 0
    dist["role_pairs_same_role_other_details"] = sum(1 for p in pairs if p["a"] == p["b"])
    for k, (p, b) in enumerate(zip(pairs, idx)):
        rB, rBf, rBg = ref[3 * k], ref[3 * k + 1], ref[3 * k + 2]
        if not rB["ok"]:
            ctx.disagree("role program rejected by the transpiler (generator bug)", p["B"], None, rB)
        n_rej_foreign += 0 if rBf["ok"] else 1
        o2 = len(idx) + 3 * pos2[k]
        got = {"B": [(s1[4 * k + 1], ops1, 4 * k + 1), (s2[o2], ops2, o2)], "Bf": [(s1[4 * k + 2], ops1, 4 * k + 2), (s2[o2 + 1], ops2, o2 + 1)],
               "Bg": [(s1[4 * k + 3], ops1, 4 * k + 3), (s2[o2 + 2], ops2, o2 + 2)]}
        if not s1[4 * k]["ok"]:
            ctx.disagree("role program rejected by the transpiler (generator bug)", p["A"], None, s1[4 * k])
        for which, r0 in (("B", rB), ("Bf", rBf), ("Bg", rBg)):
            for r, ops_, pos_ in got[which]:
                evaluations += 1
                if r["sha"] != r0["sha"]:
                    report(ctx, C, seed,
                           f"a program that uses a name in role `{p['b']}` comes out differently after an unrelated program that used the same "
                           f"name in role `{p['a']}`" + (" (with other pins / values / body)" if p["a"] == p["b"] else "") + " was transpiled in the same process",
                           "name-collision", [[p["A"]], [sources[o[1]] for o in ops_[:pos_]]], p[which],
                           {"name": p["name"], "role_in_the_earlier_program": p["a"], "role_in_this_program": p["b"],
                            "origin": "role pair" + {"B": "", "Bf": " + one probe of the earlier role",
                                                     "Bg": " + another name in the earlier role + one probe of the earlier role"}[which]}, budget)
                    break
    nontrivial += len(pairs)
    dist["role_pairs"] = len(pairs)
    dist["roles"] = ROLE_NAMES
    dist["role_pair_programs_with_a_foreign_probe_rejected_when_alone"] = n_rej_foreign

    # ------------------------------------------------------------------ pool programs: few names, random roles, several orders
    pool = pool_programs(rng, 240 if thorough else 60) + poison_programs(rng)
    psrc = [p["src"] for p in pool]
    n = len(psrc)
    fwd = list(range(n))
    rev = list(reversed(fwd))
    shuf = list(fwd)
    rng.shuffle(shuf)
    orders = {"forward": fwd, "reverse": rev, "shuffled": shuf}
    if thorough:
        for j in range(3):
            o = list(fwd)
            rng.shuffle(o)
            orders[f"shuffled{j + 2}"] = o
    res = {}
    for name, o in orders.items():
        rs = run_ops(C, psrc, [["t", i] for i in o], seed)
        res[name] = {i: r for i, r in zip(o, rs)}
    n_reset = 40 if thorough else 10
    reset_idx = rng.sample(fwd, min(n, n_reset))
    rs = run_ops(C, psrc, [op for i in reset_idx for op in (["reset"], ["t", i])], seed)
    res_reset = {i: rs[2 * k + 1] for k, i in enumerate(reset_idx)}
    role_hist = {}
    poison_kinds = {}
    for p in pool:
        for _x, r in p["assign"]:
            role_hist[r] = role_hist.get(r, 0) + 1
    for i in fwd:
        r0 = res_reset.get(i, res["forward"][i])
        if not res["forward"][i]["ok"] and not pool[i].get("poison"):
            ctx.disagree("pool program rejected by the transpiler (generator bug)", psrc[i], None, res["forward"][i])
        if pool[i].get("poison"):
            k_ = "accepted" if res["forward"][i]["ok"] else res["forward"][i].get("exc", "?")
            poison_kinds[k_] = poison_kinds.get(k_, 0) + 1
        for name, o in orders.items():
            evaluations += 1
            if res[name][i]["sha"] != r0["sha"]:
                pos = o.index(i)
                prefix = [psrc[j] for j in o[:pos]]
                cands = [prefix[-1:], prefix[-3:], prefix] if prefix else [[]]
                report(ctx, C, seed, "the text of a program depends on which programs were transpiled before it in the same process "
                                     "(programs sharing a small pool of names in changing roles)",
                       "stateful-pool", cands, psrc[i], {"roles_in_this_program": pool[i]["assign"], "session_order": name, "position": pos,
                                                         "origin": "name pool"}, budget)
                break
    nontrivial += n
    dist["pool_programs"] = n
    dist["pool_orders"] = sorted(orders)
    dist["pool_programs_compared_with_a_module_reset"] = len(reset_idx)
    dist["pool_role_histogram"] = role_hist
    dist["pool_programs_rejected_half_way(outcome)"] = poison_kinds

    # ------------------------------------------------------------------ parse() / emit() interleavings, emit() twice
    n_il = 60 if thorough else 16
    ops, expect = [], []
    for _ in range(n_il):
        i, j = rng.sample(fwd, 2)
        shape = rng.choice(["pipje", "pipjej", "pieie", "pitje"])
        if shape == "pipje":        # parse i, parse j, emit j, emit i
            seq = [["p", i], ["p", j], ["e", j], ["e", i]]
        elif shape == "pipjej":     # parse i, parse j, emit i, emit j, emit i again
            seq = [["p", i], ["p", j], ["e", i], ["e", j], ["e", i]]
        elif shape == "pieie":      # the same Program emitted twice
            seq = [["p", i], ["e", i], ["e", i]]
        else:                       # a whole transpilation of j between parse and emit of i
            seq = [["p", i], ["t", j], ["e", i]]
        for op in seq:
            ops.append(op)
            expect.append((op[1], shape) if op[0] in ("e", "t") else None)
    rs = run_ops(C, psrc, ops, seed)
    shapes = {}
    for (exp, r, op) in zip(expect, rs, ops):
        if exp is None:
            continue
        i, shape = exp
        evaluations += 1
        shapes[shape] = shapes.get(shape, 0) + 1
        r0 = res_reset.get(i, res["forward"][i])
        if r["sha"] != r0["sha"] and budget.get("interleaving", 0) < 4:
            budget["interleaving"] = budget.get("interleaving", 0) + 1
            k = len([1 for e_ in expect[: expect.index(exp)]])
            ctx.fail("emit() of a parsed program gives another text when parse()/emit() calls of another program (or an earlier emit() of the "
                     "same Program) come in between",
                     {"program": psrc[i], "call_shape": shape, "legend": "p = parse, e = emit, t = emit(parse()), i = this program, j = another one",
                      "ops_of_the_session": ops[max(0, k - 6): k + 1], "hashseed": seed,
                      "replay": 'echo \'{"mode": "ops", "sources": [...], "ops": [["p", 0], ["p", 1], ["e", 1], ["e", 0]]}\' | PYTHONPATH=/repo/src python harness/impl/c10_impl.py'},
                     expected=f"sha256 {str(r0['sha'])[:16]} (emit(parse(program)) alone)", observed=f"sha256 {str(r['sha'])[:16]}", key="interleaving")
    dist["interleaving_shapes"] = shapes

    # ------------------------------------------------------------------ concurrent transpilations (threads of one process)
    th_idx = rng.sample(fwd, min(n, 40 if thorough else 20))
    th = C.run_impl("c10_impl.py", {"mode": "threads", "sources": [psrc[i] for i in th_idx], "threads": 4, "rounds": 3 if thorough else 2},
                    env_extra={"PYTHONHASHSEED": str(seed)}, timeout=1200)["results"]
    for i, shas in zip(th_idx, th):
        evaluations += 1
        r0 = res_reset.get(i, res["forward"][i])
        if shas != [r0["sha"]] and budget.get("threads", 0) < 3:
            budget["threads"] = budget.get("threads", 0) + 1
            ctx.fail("a program transpiled while other threads of the process transpile other programs gives another text",
                     {"program": psrc[i], "other_programs": [psrc[j] for j in th_idx if j != i][:6], "threads": 4, "hashseed": seed,
                      "replay": 'echo \'{"mode": "threads", "sources": [...], "threads": 4, "rounds": 2}\' | PYTHONPATH=/repo/src python harness/impl/c10_impl.py'},
                     expected=f"sha256 {str(r0['sha'])[:16]} (emit(parse(program)) alone)", observed=[str(x)[:16] for x in shas], key="threads")
    dist["programs_transpiled_by_4_concurrent_threads"] = len(th_idx)

    # ------------------------------------------------------------------ the fragment of Lang/DevSession.v: correspondence + oracle
    n_dev = 900 if thorough else 220
    dprogs = [dev_program(rng) for _ in range(n_dev)]
    # the two collision templates of the theorem, for every pair of kinds, so that they are there whatever the seed
    for ka in range(6):
        for kb in range(6):
            if ka != kb:
                dprogs.append(([[0, "x", ka]], IMPORTS + DKIND_SRC[ka].format(x="x", p=3, p2=14, a=0) + "\n"))
                stm = [[0, "x", kb]] + [[1, f"r{m}_", "x", m] for m in VALID[kb]]
                dprogs.append((stm, IMPORTS + DKIND_SRC[kb].format(x="x", p=5, p2=15, a=1) + "\n" + "".join(f"r{m}_ = x.{METHS[m]}()\n" for m in VALID[kb])))
    dsrc = [p[1] for p in dprogs]
    order_a = list(range(len(dprogs)))
    order_b = list(order_a)
    rng.shuffle(order_b)
    ra = run_ops(C, dsrc, [["t", i] for i in order_a], seed, texts=True)
    rb_raw = run_ops(C, dsrc, [["t", i] for i in order_b], seed)
    rb = {i: r for i, r in zip(order_b, rb_raw)}
    n_rejected = 0
    mouts = None
    if have_model:
        mo = ctx.model([[6, [p[0] for p in dprogs]]])[0]
        if mo[0] != 0:
            ctx.disagree("model could not decode the device-registry session", None, mo, None)
        else:
            mouts = mo[1]
    kinds_seen = {}
    for i, (stm, src) in enumerate(dprogs):
        r = ra[i]
        evaluations += 1
        if r["sha"] != rb[i]["sha"]:
            pos_a, pos_b = i, order_b.index(i)
            pa, pb = [dsrc[j] for j in order_a[:pos_a]], [dsrc[j] for j in order_b[:pos_b]]
            report(ctx, C, seed, "the text of a device program depends on which programs were transpiled before it in the same process",
                   "stateful-device-registry", [pa[-1:], pb[-1:], pa[-4:], pb[-4:], pa, pb], src, {"origin": "device-registry fragment"}, budget)
        if not r["ok"]:
            n_rejected += 1
            obs = [1]
            if r.get("exc") != "ValueError":
                ctx.disagree("device program raised something else than ValueError", src, None, r)
        else:
            try:
                obs = [0, observe_dev(r["cpp"], stm)]
            except ValueError as e:
                ctx.disagree(f"emitted text of a device program has an unexpected shape: {e}", src, None, r["cpp"][-1200:])
                continue
        if mouts is not None:
            evaluations += 1
            m = mouts[i]
            want = [1] if m[0] == 1 else [0, [[C.wstr(d[0]), d[1], d[2]] for d in m[1]]]
            if want != obs:
                ctx.disagree("device-registry session: transl_dev (the stateless specification of Lang/DevSession.v) vs the real parse()+emit() at "
                             f"position {i} of a session in one process", {"program": src, "earlier_program": dsrc[i - 1] if i else None}, want, obs)
            for d in (want[1] if want[0] == 0 else []):
                kinds_seen[f"expr{d[1]}/{TYPES[d[2]]}"] = kinds_seen.get(f"expr{d[1]}/{TYPES[d[2]]}", 0) + 1
    nontrivial += len(dprogs) - n_rejected
    dist["device_registry_programs"] = len(dprogs)
    dist["device_registry_programs_rejected(ValueError)"] = n_rejected
    dist["device_registry_results(expression kind/type)"] = kinds_seen
    dist["reports_by_class"] = budget
    return evaluations, nontrivial, dist
