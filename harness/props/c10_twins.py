"""C10 - near-collisions: inputs that are DISTINCT for the statement but EQUAL for a careless canonicalisation.

Two classes of regression leave every "ordinary" input alone and only show on such inputs:

  * a canonical order that is not total on the names it orders (`sorted(names, key=k)` with a key that is not injective - natural
    number order `key1`/`key01`, case folding, length, a device attribute ...): tied names keep the iteration order of the set they
    came from, i.e. the hash seed's.  NAME FAMILIES: several names that collide under a menu of plausible keys, put into EVERY set
    of the transpiler whose iteration reaches the text through sorted() (button polls, LCD ticks, ultrasonic helpers, the names
    hoisted out of if / try / while / for bodies), on devices that also share every other attribute (callback, geometry, animation
    arguments, values).  They go through the same oracles as every other program (hash seeds, dictated set orders, sessions).
    Coq: Lang/SortKey.v (C10_keyed_sort_tie_refuted: ANY tie separates two iteration orders; C10_keyed_sort_partial: none does
    when the key is injective on the set; C10_sorted_sites_keyless: no sorted() over a set of the current source takes a key).

  * a process-wide memo table (functools.lru_cache, a module-level dict) whose key equality is coarser than the output: Python's
    `==`/hash identify 100, 100.0 and True-with-1, a defaulted argument with the spelled-out default, and a partial key identifies
    calls that differ elsewhere (depth, device name).  TWIN FAMILIES: one device call in all spellings of the SAME values (int /
    float / bool literals, defaults omitted or spelled out, keyword or positional, folded constants), at several nesting depths and
    on several device names; the members of a family are transpiled in one process in every rotation, so that every member comes
    first once and every other member is seen after it; a program's text must be the same in every session (and the same as after
    a module reset).  A failing pair is confirmed in fresh processes and reported as the replay.
    Coq: Lang/MemoSession.v (C10_memo_stateless_partial, C10_memo_conflation_refuted, C10_lru_cache_on_duration_refuted,
    C10_format_float_cache_harmless, C10_no_cached_helper), correspondence = the real helper functions called in sequence in one
    process against the model's session.
"""
from __future__ import annotations

import re
from fractions import Fraction

IMPORTS = """from Reduino.Actuators import Led, RGBLed, Buzzer, Servo, DCMotor
from Reduino.Sensors import Button, Potentiometer, Ultrasonic
from Reduino.Displays import LCD
from Reduino.Communication import SerialMonitor
from Reduino.Utils import sleep
"""

# ---------------------------------------------------------------------------------------------------------
# name families
# ---------------------------------------------------------------------------------------------------------
STEMS = ["key", "btn", "dev", "ch", "pad", "unit", "io", "n"]


def name_family(rng, taken):
    """-> (names, kinds): 3..6 distinct identifiers that tie pairwise under one or more plausible sort keys"""
    for _ in range(50):
        stem = rng.choice(STEMS)
        n = rng.choice([1, 2, 7, 9, 10, 12])
        menu = {
            "leading-zeros": [f"{stem}{n}", f"{stem}0{n}", f"{stem}00{n}"],
            "natural-vs-codepoint": [f"{stem}2", f"{stem}10", f"{stem}9", f"{stem}100"],
            "case": [f"{stem}{n}", f"{stem.capitalize()}{n}", f"{stem.upper()}{n}"],
            "underscores": [f"{stem}{n}", f"{stem}_{n}", f"{stem}{n}_", f"_{stem}{n}"],
            "same-length": [f"{stem}a{n}", f"{stem}b{n}", f"{stem}c{n}"],
            "prefix": [stem + "x", f"{stem}x{n}", f"{stem}x{n}0"],
            "zeros-inside": [f"{stem}{n}x1", f"{stem}0{n}x1", f"{stem}{n}x01"],
            "same-ends": [f"{stem}a{n}z", f"{stem}bb{n}z", f"{stem}{n}z"],
        }
        kinds = rng.sample(sorted(menu), rng.choice([1, 1, 2, 2, 3]))
        if "leading-zeros" not in kinds and rng.random() < 0.5:
            kinds[0] = "leading-zeros"
        # the first two names of the first kind are kept whatever the size: every family has at least one pair of that kind
        names = list(menu[kinds[0]][:2])
        rest = [x for k in kinds for x in menu[k] if x not in names]
        rest = list(dict.fromkeys(rest))
        rng.shuffle(rest)
        names += rest[: rng.choice([0, 1, 2, 3, 4])]
        rng.shuffle(names)
        if len(set(names)) == len(names) and not (set(names) & taken):
            taken |= set(names)
            return names, sorted(kinds)
    raise RuntimeError("no name family found")


def collision_program(rng, k=0):
    """-> (source, features).  Every sorted() site of the transpiler gets >= 2 names of one family; devices of a family share
    their other attributes where the transpiler lets them."""
    taken = {"cb_", "mon_", "cnd", "i_", "err"}
    parts = rng.sample(["buttons", "lcds", "ultras", "if", "try", "while", "for"], rng.choice([2, 3, 4, 7]))
    if k % 3 == 0 and "buttons" not in parts:
        parts[0] = "buttons"
    if k % 3 == 1 and "lcds" not in parts:
        parts[0] = "lcds"
    decl, body, loop, feats = [], [], [], {}
    defs = ["def cb_():\n    sleep(1)"]
    pin = iter(range(2, 60))
    fam_kinds = set()

    def fam():
        names, kinds = name_family(rng, taken)
        fam_kinds.update(kinds)
        return names

    if "buttons" in parts:
        names = fam()
        share_pin = rng.random() < 0.3
        p0 = next(pin)
        for x in names:
            decl.append(f"{x} = Button({p0 if share_pin else next(pin)}, on_click=cb_)")
        feats["buttons"] = len(names)
    if "lcds" in parts:
        names = fam()
        st, row, txt, sp, lp = rng.choice(["scroll", "blink", "typewriter", "bounce"]), rng.randint(0, 1), "T", rng.choice([90, 200]), rng.choice(["True", "False"])
        addr = rng.choice(["0x27", "0x3F"])
        for x in names:
            decl.append(f"{x} = LCD(i2c_addr={addr}, cols=16, rows=2)")
        order = list(names)
        rng.shuffle(order)
        for x in order:
            body.append(f'{x}.animate("{st}", {row}, "{txt}", speed_ms={sp}, loop={lp})')
        feats["lcds"] = len(names)
    if "ultras" in parts:
        names = fam()
        share = rng.random() < 0.3
        t0, e0 = next(pin), next(pin)
        for x in names:
            decl.append(f"{x} = Ultrasonic({t0 if share else next(pin)}, {e0 if share else next(pin)})")
        order = list(names)
        rng.shuffle(order)
        for x in order:
            body.append(f"d_{x} = {x}.measure_distance()")
        feats["ultras"] = len(names)
    lit = rng.choice(["1", "2.5", "True", '"s"'])

    def assigns(names, ind):
        order = list(names)
        rng.shuffle(order)
        return "".join(f"{ind}{x} = {lit}\n" for x in order)

    blocks = []
    if "if" in parts:
        names = fam()
        h = max(1, len(names) // 2)
        shape = rng.choice(["if", "ifelse", "elif"])
        if shape == "if":
            blocks.append("if cnd > 0:\n" + assigns(names, "    "))
        elif shape == "ifelse":
            blocks.append("if cnd > 0:\n" + assigns(names[:h] + names[-1:], "    ") + "else:\n" + assigns(names[h:] + names[:1], "    "))
        else:
            blocks.append("if cnd > 0:\n" + assigns(names[:h], "    ") + "elif cnd > 1:\n" + assigns(names, "    ") + "else:\n" + assigns(names[h:], "    "))
        feats["if_names"] = len(names)
    if "try" in parts:
        names = fam()
        h = max(1, len(names) // 2)
        blocks.append("try:\n" + assigns(names[:h], "    ") + "except Exception:\n" + assigns(names, "    "))
        feats["try_names"] = len(names)
    if "while" in parts:
        names = fam()
        inner = "    if cnd > 2:\n" + assigns(names, "        ") + "    cnd = cnd + 1\n"
        blocks.append("while cnd < 3:\n" + (inner if rng.random() < 0.7 else assigns(names, "    ") + "    cnd = cnd + 1\n"))
        feats["while_names"] = len(names)
    if "for" in parts:
        names = fam()
        blocks.append("for i_ in range(2):\n    try:\n" + assigns(names, "        ") + "    except Exception:\n        cnd = 0\n")
        feats["for_names"] = len(names)
    place = rng.choice(["top", "def", "main"])
    src = IMPORTS + "\n".join(defs) + "\n" + "\n".join(decl) + ("\n" if decl else "") + "\n".join(body) + ("\n" if body else "") + "cnd = 1\n"
    main_extra = ""
    if blocks:
        text = "".join(blocks)
        if place == "top":
            src += text
        elif place == "def":
            src += "def fn_():\n" + "".join("    " + l + "\n" for l in text.splitlines()) + "    return 1\n"
        else:
            main_extra = "".join("    " + l + "\n" for l in text.splitlines())
    src += "while True:\n" + main_extra + "    sleep(10)\n"
    feats["name_tie_kinds"] = sorted(fam_kinds)
    feats["blocks_in"] = place
    return src, feats


# ---------------------------------------------------------------------------------------------------------
# twin families: one call, every spelling of the same values
# ---------------------------------------------------------------------------------------------------------
# class -> (constructor arguments, [(method, [(parameter, default or None, value, keyword_only)...])...])
# value: an int (spelled as int / float / bool literal), or a source text that is used as it is
CALLS = {
    "Led": ("13", [
        ("blink", [("duration_ms", None, 100, False), ("times", 1, 1, False)]),
        ("fade_in", [("step", 5, 5, False), ("delay_ms", 10, 10, False)]),
        ("fade_out", [("step", 5, 5, False), ("delay_ms", 10, 10, False)]),
        ("flash_pattern", [("pattern", None, "[1, 0, 1]", False), ("delay_ms", 200, 200, False)]),
        ("set_brightness", [("value", None, 1, False)]),
    ]),
    "RGBLed": ("3, 5, 6", [
        ("on", [("red", 255, 255, False), ("green", 255, 255, False), ("blue", 255, 255, False)]),
        ("set_color", [("red", None, 1, False), ("green", None, 0, False), ("blue", None, 255, False)]),
        ("blink", [("red", None, 1, False), ("green", None, 0, False), ("blue", None, 255, False), ("times", 1, 1, False), ("delay_ms", 200, 200, False)]),
        ("fade", [("red", None, 1, False), ("green", None, 0, False), ("blue", None, 255, False), ("duration_ms", 1000, 1000, False), ("steps", 50, 50, False)]),
    ]),
    "Buzzer": ("8", [
        ("beep", [("frequency", "omit", 440, False), ("on_ms", 100, 100, True), ("off_ms", 100, 100, True), ("times", 1, 1, True)]),
        ("play_tone", [("frequency", None, 440, False), ("duration_ms", "omit", 100, False)]),
        ("sweep", [("start_hz", None, 200, False), ("end_hz", None, 800, False), ("duration_ms", None, 100, True), ("steps", 10, 10, True)]),
        ("melody", [("name", None, '"startup"', False), ("tempo", "omit", 120, True)]),
    ]),
    "Servo": ("9", [
        ("write", [("angle", None, 90, False)]),
        ("write_us", [("pulse", None, 1500, False)]),
    ]),
    "DCMotor": ("2, 10, 12", [
        ("set_speed", [("value", None, 1, False)]),
        ("backward", [("speed", 1, 1, False)]),
        ("ramp", [("target_speed", None, 1, False), ("duration_ms", None, 100, False)]),
        ("run_for", [("duration_ms", None, 100, False), ("speed", None, 1, False)]),
    ]),
    "LCD": ("i2c_addr=0x27, cols=16, rows=2", [
        ("animate", [("animation", None, '"scroll"', False), ("row", None, 0, False), ("text", None, '"hi"', False), ("speed_ms", 200, 200, True), ("loop", False, "False", True)]),
        ("brightness", [("level", None, 1, False)]),
        ("line", [("row", None, 1, False), ("text", None, '"ab"', False), ("align", "left", '"left"', True), ("clear_row", True, "True", True)]),
        ("progress", [("row", None, 1, False), ("value", None, 30, False), ("max_value", 100, 100, False), ("width", "omit", 10, True)]),
        ("write", [("col", None, 0, False), ("row", None, 1, False), ("text", None, '"x"', False)]),
        ("backlight", [("on", None, "True", False)]),
        ("glyph", [("slot", None, 1, False), ("bitmap", None, "[0, 2, 5, 8, 8, 5, 2, 0]", False)]),
    ]),
}
SPELLINGS = ["int", "float", "bool", "folded", "omit-defaults", "positional"]


def spell(v, how, rng):
    """source text of the value `v` (an int, or text used as it is) in the spelling `how`"""
    if not isinstance(v, int) or isinstance(v, bool):
        if how == "bool" and v in ("True", "False"):
            return "1" if v == "True" else "0"
        return str(v)
    if how == "float":
        return f"{v}.0"
    if how == "bool" and v in (0, 1):
        return "True" if v else "False"
    if how == "folded":
        return rng.choice([f"{v} + 0", f"{v * 2} / 2", f"{v - 1} + 1", f"({v})", f"+{v}"])
    return str(v)


def call_text(dev, method, params, how, rng):
    """one spelling of dev.method(...) with the values of `params`:
       int / float / bool / folded: every parameter given (optional ones too for int / float / folded), keyword-only ones by keyword;
       omit-defaults: every parameter that has a default (or is optional) left out;
       positional: every parameter given, all by position (the transpiler may accept more by position than the host signature)"""
    args = []
    by_position = True
    for (p, default, v, kwonly) in params:
        if how == "omit-defaults" and default is not None:
            by_position = False
            continue
        if how == "bool" and default == "omit":
            by_position = False
            continue
        text = spell(v, how if how in ("int", "float", "bool", "folded") else "int", rng)
        if how == "positional" or (by_position and not kwonly):
            args.append(text)
        else:
            by_position = False
            args.append(f"{p}={text}")
    return f"{dev}.{method}({', '.join(args)})"


def wrap(line, depth_kind):
    """the statement at another nesting depth / in another scope"""
    if depth_kind == "top":
        return line + "\n", ""
    if depth_kind == "if":
        return "if cnd > 0:\n    " + line + "\n", ""
    if depth_kind == "if2":
        return "if cnd > 0:\n    if cnd > 1:\n        " + line + "\n", ""
    if depth_kind == "for":
        return "for i_ in range(2):\n    " + line + "\n", ""
    if depth_kind == "def":
        return "def fn_():\n    " + line + "\nfn_()\n", ""
    if depth_kind == "main":
        return "", "    " + line + "\n"
    if depth_kind == "main-if":
        return "", "    if cnd > 0:\n        " + line + "\n"
    raise ValueError(depth_kind)


DEPTHS = ["top", "if", "if2", "for", "def", "main", "main-if"]


def twin_program(cls, ctor, dev, line, depth_kind):
    setup, main = wrap(line, depth_kind)
    return IMPORTS + f"{dev} = {cls}({ctor})\ncnd = 1\n" + setup + "while True:\n" + main + "    sleep(5)\n"


def twin_families(rng, thorough):
    """-> list of {"what", "members": [{"src", "spelling", "depth", "dev"}...]}"""
    fams = []
    for cls in sorted(CALLS):
        ctor, methods = CALLS[cls]
        for method, params in methods:
            # (a) every spelling, one depth, one device name
            for depth_kind in (DEPTHS if thorough else rng.sample(DEPTHS, 2)):
                dev = rng.choice(["dv", "x1", "unit"])
                members, seen = [], set()
                for how in SPELLINGS:
                    line = call_text(dev, method, params, how, rng)
                    if line in seen:
                        continue
                    seen.add(line)
                    members.append({"src": twin_program(cls, ctor, dev, line, depth_kind), "spelling": how, "depth": depth_kind, "dev": dev, "call": line})
                if len(members) >= 2:
                    fams.append({"what": f"{cls}.{method} spellings at {depth_kind}", "members": members})
            # (b) one spelling, every depth / two device names (a key that forgets the depth or the name)
            how = rng.choice(["int", "float", "omit-defaults"])
            members = []
            for depth_kind in (DEPTHS if thorough else rng.sample(DEPTHS, 4)):
                dev = rng.choice(["dv", "x1"])
                line = call_text(dev, method, params, how, rng)
                members.append({"src": twin_program(cls, ctor, dev, line, depth_kind), "spelling": how, "depth": depth_kind, "dev": dev, "call": line})
            fams.append({"what": f"{cls}.{method} {how} at every depth", "members": members})
            # (f) one argument changed (a key that forgets an argument)
            base_how = "int"
            members = [{"src": twin_program(cls, ctor, "dv", call_text("dv", method, params, base_how, rng), "top"), "spelling": base_how, "depth": "top", "dev": "dv",
                        "call": call_text("dv", method, params, base_how, rng)}]
            for j, (pn, default, v, kwonly) in enumerate(params):
                if isinstance(v, int) and not isinstance(v, bool):
                    changed = list(params)
                    changed[j] = (pn, None if default != "omit" else default, v + 1, kwonly)
                    line = call_text("dv", method, changed, base_how, rng)
                    members.append({"src": twin_program(cls, ctor, "dv", line, "top"), "spelling": f"{pn}+1", "depth": "top", "dev": "dv", "call": line})
            if len(members) >= 2:
                fams.append({"what": f"{cls}.{method} with one argument changed", "members": members[:5]})
    # (e) one pin, several device classes / one class, several pins and names (a table keyed by pin or by name alone)
    for pin_ in (13, 9):
        members = []
        for nm in ("dv", "x1"):
            for decl, use in (("Led({p})", "{x}.on()"), ("Buzzer({p})", "{x}.beep()"), ("Button({p})", "q_ = {x}.is_pressed()"), ("Servo({p})", "{x}.write(90)"),
                              ("Led({q})", "{x}.on()"), ("Buzzer({q})", "{x}.stop()")):
                line = f"{nm} = " + decl.format(p=pin_, q=pin_ + 1) + "\n" + use.format(x=nm)
                members.append({"src": IMPORTS + line + "\nwhile True:\n    sleep(5)\n", "spelling": decl.format(p=pin_, q=pin_ + 1), "depth": "top", "dev": nm, "call": line})
        rng.shuffle(members)
        fams.append({"what": f"pin {pin_} in several device classes", "members": members[:7]})
    # (d) whole sources that agree up to white space, comments, line ends: DIFFERENT programs (or the same one written differently)
    base = ["led_ = Led(13)", "cnd = 1", "if cnd > 0:", "    led_.on()", "    cnd = 2", "while True:", "    led_.toggle()", "    sleep(5)"]

    def src_of(lines, nl="\n", tail=True):
        return IMPORTS + nl.join(lines) + (nl if tail else "")
    ws = [("as it is", src_of(base)),
          ("last statement of the if body dedented", src_of(base[:4] + ["cnd = 2"] + base[5:])),
          ("CRLF line ends", src_of(base, nl="\r\n")),
          ("no final newline", src_of(base, tail=False)),
          ("trailing blanks", src_of([l + "  " for l in base])),
          ("blank lines", src_of([x for l in base for x in (l, "")])),
          ("two-space indent", src_of([l.replace("    ", "  ") for l in base])),
          ("tab indent", src_of([l.replace("    ", "\t") for l in base])),
          ("comments", src_of([l + "  # " + l.strip() for l in base])),
          ("comment lines that look like code", src_of([x for l in base for x in ("# cnd = 3", l)])),
          ("spaces inside the statements", src_of([l.replace(" = ", "=").replace("(", "( ").replace(")", " )") if "while" not in l and "if" not in l else l for l in base]))]
    fams.append({"what": "one source up to white space / comments / line ends", "members": [{"src": t, "spelling": w, "depth": "", "dev": "", "call": w} for w, t in ws[:7]]})
    fams.append({"what": "one source up to white space / comments / line ends (2)", "members": [{"src": t, "spelling": w, "depth": "", "dev": "", "call": w} for w, t in ws[:2] + ws[7:]]})
    # (c) plain statements: literals and sleeps in equal-valued spellings, strings that look like numbers
    for vals in (["100", "100.0", "50 * 2", "True + 99", "1e2"], ["1", "1.0", "True", "2 - 1"], ["0", "0.0", "False", "-0.0", "0 * 5"],
                 ['"100"', "'100'", '"10" + "0"'], ["[1, 2]", "[1.0, 2.0]", "[True, 2]"]):
        for tmpl in ("v_ = {}\n", "sleep({})\n", "v_ = 5\nv_ = v_ + {}\n", "mon_ = SerialMonitor(9600)\nmon_.write({})\n"):
            members = [{"src": IMPORTS + tmpl.format(v) + "while True:\n    sleep(5)\n", "spelling": v, "depth": "top", "dev": "", "call": tmpl.format(v).strip()} for v in vals]
            fams.append({"what": "statement " + tmpl.split("\n")[0], "members": members})
    return fams


REPLAY_HOW = ("one process: PYTHONPATH=/repo/src python -c 'import sys; from Reduino.transpile.parser import parse; from Reduino.transpile.emitter "
              "import emit; [emit(parse(open(f).read())) for f in sys.argv[1:-1]]; print(emit(parse(open(sys.argv[-1]).read())))' <earlier programs...> "
              "<program>   versus the same command with <program> alone")


def run_twins(ctx, C, seed):
    """the twin-family sessions -> (evaluations, nontrivial, dist)"""
    from harness.props import c10_roles
    rng = ctx.rng
    thorough = ctx.tier == "thorough"
    fams = twin_families(rng, thorough)
    srcs, fam_of = [], []
    for fi, f in enumerate(fams):
        for m in f["members"]:
            m["idx"] = len(srcs)
            srcs.append(m["src"])
            fam_of.append(fi)
    kmax = max(len(f["members"]) for f in fams)
    if not thorough:
        kmax = min(kmax, 5)       # quick tier: the first five rotations (families of 6-7 members do not get every member first)
    sessions = []
    for r in range(kmax):
        order = []
        for f in fams:
            ms = f["members"]
            k = len(ms)
            order += [ms[(r + j) % k]["idx"] for j in range(k)]
        if r % 2:
            # odd rotations walk the families backwards, so that a family is also seen after the ones that follow it
            per_f, pos = [], 0
            for f in fams:
                per_f.append(order[pos: pos + len(f["members"])])
                pos += len(f["members"])
            order = [i for chunk in reversed(per_f) for i in chunk]
        sessions.append(order)
    results = []
    for order in sessions:
        rs = c10_roles.run_ops(C, srcs, [["t", i] for i in order], seed)
        results.append({i: (r, pos) for pos, (i, r) in enumerate(zip(order, rs))})
    # after a module reset: a sample (the first program of session 0 is in a fresh interpreter anyway)
    sample = rng.sample(range(len(srcs)), min(len(srcs), 60 if thorough else 12))
    rs = c10_roles.run_ops(C, srcs, [op for i in sample for op in (["reset"], ["t", i])], seed)
    after_reset = {i: rs[2 * k + 1] for k, i in enumerate(sample)}
    evaluations, budget = 0, {}
    outcomes = {}
    for i, src in enumerate(srcs):
        r0, _ = results[0][i]
        outcomes[r0.get("exc", "accepted")] = outcomes.get(r0.get("exc", "accepted"), 0) + 1
        texts = [(results[s][i][0]["sha"], s) for s in range(len(sessions))]
        if i in after_reset:
            texts.append((after_reset[i]["sha"], None))
        evaluations += len(texts) - 1
        shas = {t[0] for t in texts}
        if len(shas) > 1:
            f = fams[fam_of[i]]
            # candidate prefixes: each other member of the family alone, then all of them, then what came before it in a session that differs
            others = [m["src"] for m in f["members"] if m["idx"] != i]
            cands = [[o] for o in others] + [others]
            for sha, s in texts:
                if s is not None and sha != texts[0][0]:
                    pos = results[s][i][1]
                    cands.append([srcs[j] for j in sessions[s][:pos]][-12:])
                    break
            pos0 = results[0][i][1]
            cands.append([srcs[j] for j in sessions[0][:pos0]][-12:])
            me = next(m for m in f["members"] if m["idx"] == i)
            c10_roles.report(ctx, C, seed,
                             "the text of a program depends on which near-identical program (the same call in another spelling of the same values / "
                             "at another depth / on another device name) was transpiled before it in the same process",
                             "stateful-twins", [c for c in cands if c], src,
                             {"family": f["what"], "this_member": {k: me[k] for k in ("call", "spelling", "depth", "dev")},
                              "other_members": [m["call"] for m in f["members"] if m["idx"] != i], "origin": "twin family"}, budget)
    dist = {"families": len(fams), "programs": len(srcs), "sessions(rotations)": len(sessions), "compared_with_a_module_reset": len(sample),
            "outcome_when_first": outcomes, "classes_methods": sum(len(v[1]) for v in CALLS.values()), "spellings": SPELLINGS, "depths": DEPTHS,
            "reports_by_class": budget}
    return evaluations, len(fams), dist


# ---------------------------------------------------------------------------------------------------------
# correspondence: the emitter's literal helpers called in sequence in ONE process vs the session model of Lang/MemoSession.v
# ---------------------------------------------------------------------------------------------------------
DUR_LIT = re.compile(r"^(\s*)unsigned long (\w+) = static_cast<unsigned long>\((.*)\);$")
DUR_ARG1 = re.compile(r"^(\s*)auto (\w+)_arg = \((.*)\);$")


def helper_sessions(rng, n):
    """-> list of sessions; a session = list of programs; a program = list of calls
    call: ["dur", indent, var, value] | ["fmt", value];  value: ["i", n] | ["f", "text of a dyadic float"] | ["b", bool] | ["s", text]"""
    vals_num = [0, 1, 2, 100, 255, 1000, -1, -5]
    fl = ["0.0", "1.0", "2.0", "100.0", "255.0", "1000.0", "0.5", "2.5", "100.25", "-1.0", "-0.5", "0.125", "440.0", "261.625"]
    exprs = ["x + 1", "v / 4.0", "100", "(a)"]

    def value(for_fmt):
        k = rng.random()
        if k < 0.35:
            return ["i", rng.choice(vals_num)]
        if k < 0.75:
            return ["f", rng.choice(fl)]
        if k < 0.85:
            return ["b", rng.random() < 0.5]
        return ["f", rng.choice(fl)] if for_fmt else ["s", rng.choice(exprs)]
    out = []
    for _ in range(n):
        ses = []
        for _p in range(rng.randint(2, 4)):
            prog = []
            for _c in range(rng.randint(1, 5)):
                if rng.random() < 0.7:
                    prog.append(["dur", rng.choice(["  ", "    ", "      "]), rng.choice(["__redu_on_ms", "__redu_off_ms", "__redu_duration", "__redu_total"]), value(False)])
                else:
                    prog.append(["fmt", value(True)])
            ses.append(prog)
        out.append(ses)
    # the conflations of Python's == on cache keys, always there
    for a, b in ((["i", 100], ["f", "100.0"]), (["f", "100.0"], ["i", 100]), (["b", True], ["i", 1]), (["i", 1], ["f", "1.0"]), (["f", "0.0"], ["b", False]),
                 (["i", 0], ["i", -1]), (["f", "-0.5"], ["i", 0])):
        out.append([[["dur", "    ", "__redu_on_ms", a], ["fmt", a]], [["dur", "    ", "__redu_on_ms", b], ["fmt", b]], [["dur", "    ", "__redu_on_ms", a]]])
    return out


def wire_value(v):
    if v[0] == "i":
        return [0, v[1]]
    if v[0] == "f":
        return [1, Fraction(v[1])]
    if v[0] == "b":
        return [2, bool(v[1])]
    return [3, v[1]]


def wire_call(c):
    if c[0] == "dur":
        return [0, c[1], c[2], wire_value(c[3])]
    return [1, wire_value(c[1])]


def parse_number(text):
    """C++/Python literal as printed by str() -> ["i", n] | ["f", Fraction] | ["b", bool] | None"""
    t = text.strip()
    if t in ("True", "False"):
        return ["b", t == "True"]
    if re.fullmatch(r"-?\d+", t):
        return ["i", int(t)]
    if re.fullmatch(r"-?\d+\.\d+(e[-+]?\d+)?", t):
        return ["f", Fraction(t)]
    return None


def observe_helper(call, res):
    """what the real helper returned -> the vocabulary of the model's output, or ("shape", text) when it cannot be read"""
    if "exc" in res:
        return ["exc"]
    if call[0] == "dur":
        lines = res["out"]
        if len(lines) == 1:
            m = DUR_LIT.match(lines[0])
            if m:
                num = parse_number(m.group(3))
                if num is not None:
                    return ["lit", m.group(1), m.group(2), num]
        if len(lines) == 2:
            m = DUR_ARG1.match(lines[0])
            want2 = None
            if m:
                want2 = f"{m.group(1)}unsigned long {m.group(2)} = ({m.group(2)}_arg > 0) ? static_cast<unsigned long>({m.group(2)}_arg) : 0UL;"
            if m and lines[1] == want2:
                return ["arg", m.group(1), m.group(2), m.group(3)]
        return ["shape", lines]
    text = res["out"]
    m = re.fullmatch(r"(-?\d+\.\d+)f", text)
    if not m:
        return ["shape", text]
    digits = m.group(1).split(".")[1]
    if len(digits) > 6 or (len(digits) > 1 and digits.endswith("0")):
        return ["shape", text]
    return ["fix", int(Fraction(m.group(1)) * 10 ** 6)]


def decode_helper(C, m):
    """model output of one call -> the same vocabulary"""
    k = m[0]
    if k == 0:        # (0 indent var num)
        n = m[3]
        num = ["i", n[1]] if n[0] == 0 else (["f", C.wq(n[1])] if n[0] == 1 else ["b", bool(n[1])])
        return ["lit", C.wstr(m[1]), C.wstr(m[2]), num]
    if k == 1:
        return ["arg", C.wstr(m[1]), C.wstr(m[2]), C.wstr(m[3])]
    if k == 2:
        return ["fix", m[1]]
    return ["exc"]


def same_obs(a, b):
    if a[0] != b[0]:
        return False
    if a[0] == "lit":
        (ka, va), (kb, vb) = a[3], b[3]
        return a[1:3] == b[1:3] and ka == kb and (Fraction(va) == Fraction(vb) if ka != "b" else va == vb)
    return a == b


def run_helper_correspondence(ctx, C, seed):
    rng = ctx.rng
    sessions = helper_sessions(rng, 120 if ctx.tier == "thorough" else 30)
    impl = C.run_impl("c10_impl.py", {"mode": "helpers", "sessions": sessions}, env_extra={"PYTHONHASHSEED": str(seed)})["results"]
    if impl and impl[0] == "missing":
        ctx.disagree("the emitter no longer has the literal helpers _emit_duration_ms / _format_float the model describes", None, None, impl)
        return 0, {"helper_sessions": 0}
    mouts = ctx.model([[7, [[wire_call(c) for c in prog] for prog in ses]] for ses in sessions])
    n, kinds = 0, {}
    for ses, rs, mo in zip(sessions, impl, mouts):
        if mo[0] != 0:
            ctx.disagree("model could not decode a helper session", ses, mo, None)
            continue
        for pi, (prog, rprog, mprog) in enumerate(zip(ses, rs, mo[1])):
            for ci, (call, r, m) in enumerate(zip(prog, rprog, mprog)):
                n += 1
                obs, want = observe_helper(call, r), decode_helper(C, m)
                kinds[want[0]] = kinds.get(want[0], 0) + 1
                if not same_obs(want, obs):
                    ctx.disagree("emitter literal helper called in a session of one process vs the stateless specification of Lang/MemoSession.v "
                                 f"(program {pi}, call {ci} of the session)", {"session": ses, "call": call}, want, obs)
    return n, {"helper_sessions": len(sessions), "helper_calls": n, "helper_results": kinds}
