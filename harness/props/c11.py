"""C11 - transpiling never runs user code, has no side effects, fails only cleanly.

Claimed by proof for the evaluator and its call sites (coq/Props/C11.v over Lang/ConstEval.v): every primitive
operation of _eval_const is on the whitelist, unsupported nodes are rejected before anything below them is evaluated,
only ValueError / TypeError / ZeroDivisionError leave the evaluator and only ValueError leaves its call sites; the
evaluator's work is NOT bounded (C11_blowup_refuted).  Tie: the instrumented model (result + primitive trace) against
the real _eval_const with recording wrappers, on generated and hostile expressions.

The part of C11 about the Python process itself (no file / process / network access, clean exception kinds and
prompt termination for arbitrary texts) is no statement about a Gallina model: it is OBSERVED here - audit hook,
planted canaries, exception kind, a generous time limit, on hostile scripts, real Python sources and noise - and is
reported as support, not as proof.
"""
from __future__ import annotations

import collections
import os
import random
import shutil
from pathlib import Path

from harness import common as C
from harness import pyast_wire as W
from harness.props import c03 as L

META = {
    "id": "C11",
    "technique": "Coq proof (effect-instrumented model of _eval_const: whitelist of primitives by induction over expressions, reject-before-evaluate for unsupported nodes, exception kinds at the call sites, exponential blow-up witness family) + extracted-model correspondence (result and primitive trace vs the real _eval_const under recording wrappers) + audit-hook / canary / exception-kind observation of the real parse()+emit() on hostile scripts, real Python sources and noise (support only)",
    "level_text": "Theorems C11_* (coq/Props/C11.v) are proved for all expressions and environments about the Gallina model of _eval_const and its call sites (cast / operator tables regenerated from parser.py on every run): whitelist of primitive operations, no evaluation below an unsupported node, error kinds; prompt termination is refuted for the evaluator by the family 2**2**n (listed finding). The clause about the Python process (no file, process, network or environment access; only ValueError/SyntaxError; termination) for arbitrary texts is outside the technique: it is observed with sys.addaudithook, canary files, exception kinds and a 30 s limit on generated hostile scripts, and labelled as support.",
    "level_note": "Trusted: Coq kernel, translator harness/gen/safecasts.py, extraction, OCaml driver; for the observed part CPython's audit events (open, exec, import, os.*, subprocess.*, socket.*) as the definition of 'access'. The theorems are about the model; the correspondence bounds its distance from parser.py.",
    "design_ref": "DESIGN.md section 4 C11",
}

CLEAN = (None, "ValueError", "SyntaxError")
OPNAME = {0: "add", 1: "sub", 2: "mul", 3: "truediv", 4: "floordiv", 5: "mod", 6: "pow", 7: "and_", 8: "or_", 9: "xor",
          10: "lshift", 11: "rshift"}
# builtins the evaluator may call (its own type tests, the whitelisted functions, ast.parse); anything else from
# builtins / os / io / subprocess / socket / importlib during _eval_const is reported
ALLOW_BUILTINS = {"builtins.isinstance", "builtins.issubclass", "builtins.hasattr", "builtins.callable", "builtins.len",
                  "builtins.abs", "builtins.max", "builtins.min", "builtins.compile", "builtins.iter", "builtins.next",
                  "builtins.id", "builtins.hash", "builtins.repr", "builtins.any", "builtins.all", "builtins.sum",
                  "builtins.sorted", "builtins.divmod", "builtins.pow", "builtins.round", "builtins.format", "builtins.getattr"}
DENY_BUILTINS = {"builtins.eval", "builtins.exec", "builtins.__import__", "builtins.open", "builtins.setattr", "builtins.delattr",
                 "builtins.input", "builtins.print", "builtins.globals", "builtins.locals", "builtins.vars", "builtins.breakpoint",
                 "builtins.chr", "builtins.ord", "builtins.oct", "builtins.hex", "builtins.bin", "builtins.dir", "builtins.ascii"}

HEADER = (
    "from Reduino import target\n"
    "from Reduino.Core import pin_mode, digital_write, analog_write, digital_read, analog_read, OUTPUT, INPUT\n"
    "from Reduino.Communication import SerialMonitor\n"
    "from Reduino.Utils import sleep\n"
    "from Reduino.Actuators import Led, Buzzer, Servo\n"
    "from Reduino.Displays import LCD\n"
    "from Reduino.Sensors import Ultrasonic\n"
    "target(\"COM3\", upload=False)\n"
    "mon = SerialMonitor(9600)\n"
    "led = Led(13)\n"
    "bz = Buzzer(8)\n"
    "lcd = LCD(rs=12, en=11, d4=5, d5=4, d6=3, d7=2)\n"
    "xs = [1, 2]\n"
    "s = \"ab\"\n"
    "n = 3\n"
)
# {H}: a hostile expression; every template is one argument position of the property's quantifier
POSITIONS = [
    "led2 = Led({H})", "sleep({H})", "led.blink({H}, 1)", "led.blink(100, {H})", "led.set_brightness({H})", "if {H}:\n    led.on()",
    "if n > 1 and {H}:\n    led.on()", "k = 0\nwhile k < {H}:\n    k = k + 1", "for i in range({H}):\n    led.on()", "ys = [{H}]", "ys = [1, {H}, 3]",
    "mon.write(f\"{{{H}}}\")", "mon.write({H})", "t = f\"a{{{H}}}b\"", "lcd.glyph(0, {H})", "lcd.glyph({H}, [0, 0, 0, 0, 0, 0, 0, 0])",
    "lcd.glyph(0, [{H}, 0, 0, 0, 0, 0, 0, 0])", "led.flash_pattern({H})", "led.flash_pattern([1, {H}])", "led.flash_pattern([1, 0], {H})",
    "y = {H}", "y = n + {H}", "y, z = 1, {H}", "n += {H}", "xs.append({H})", "xs.remove({H})", "@{H}\ndef f():\n    return 1\ny = f()",
    "def f(a={H}):\n    return a\ny = f()", "def f(a):\n    return {H}\ny = f(1)", "us = Ultrasonic(trig=7, echo=8, sensor={H})", "us = Ultrasonic({H}, 8)",
    "mon2 = SerialMonitor({H})", "bz.play_tone({H})", "bz.play_tone(440, {H})", "sv = Servo({H})", "sv = Servo(9, min_angle={H})",
    "{H}", "lcd.backlight({H})", "lcd.write(0, 0, {H})", "y = len({H})", "y = abs({H})", "y = max(1, {H})", "y = int({H})", "y = xs[{H}]",
    "try:\n    y = {H}\nexcept Exception:\n    y = 0", "while True:\n    sleep({H})", "while True:\n    y = {H}\n    mon.write(y)", "target({H})",
]


def hostile_exprs(canary: str):
    o = f"open({canary!r}, 'w')"
    return [
        o, f"__import__('os').system('touch {canary}')", f"(lambda: {o})()", f"[{o} for _ in [1]]", f"eval(\"open('{canary}', 'w')\")",
        f"exec(\"open('{canary}', 'w')\")", f"{o}.write('x')", f"int({o})", f"len({o})", f"abs({o})", f"max(1, {o})", f"min({o})", f"str({o})",
        f"bool({o})", f"float({o})", f"1 + {o}", f"-{o}", f"not {o}", f"1 if {o} else 2", f"0 or {o}", f"1 and {o}", f"1 < {o}", f"[{o}]", f"({o},)",
        f"f'{{{o}}}'", f"getattr(__import__('os'), 'system')('touch {canary}')", f"__import__('subprocess').run(['touch', {canary!r}])",
        f"__import__('pathlib').Path({canary!r}).write_text('x')", f"__import__('os').environ.get('HOME')", f"__import__('socket').socket()", "__import__('wave')", "__import__('this')", f"__import__('sqlite3').connect({canary!r})",
        "().__class__.__base__.__subclasses__()", "s.__class__", "s.upper()", "xs[0]", "xs.__len__()", "globals()", "print(1)", "input()",
        f"(y := {o})", f"{{1: {o}}}", f"{{{o}}}", f"*[{o}]", f"lambda: {o}", f"(yield {o})", f"await {o}", f"{o} if 1 else 0", f"{o}[0]", f"{o}.name",
        f"__builtins__.open({canary!r}, 'w')", f"type('X', (), {{}})()", f"compile('1', 'f', 'eval')", f"os.system('touch {canary}')",
        f"max({o} for _ in [1])", f"int(str({o}))", f"abs(-{o})", f"len([{o}, 1])", f"max(1, 2, {o})", f"f\"{{{o}!r}}\"", f"f\"{{1:{{{o}}}}}\"",
    ]


def noise_texts(rng, n, seeds):
    out = []
    alphabet = "abcdefxyz_0123456789 \t\n()[]{}:=+-*/%<>!.,'\"#\\@;&|^~`$?"
    for i in range(n):
        k = i % 6
        if k == 0:
            out.append(bytes(rng.getrandbits(8) for _ in range(rng.randint(0, 400))).decode("latin-1"))
        elif k == 1:
            out.append("".join(rng.choice(alphabet) for _ in range(rng.randint(0, 300))))
        elif k == 2:
            s = rng.choice(seeds)
            lines = s.splitlines()
            rng.shuffle(lines)
            out.append("\n".join(lines[: rng.randint(0, len(lines))]) + "\n")
        elif k == 3:
            s = list(rng.choice(seeds))
            for _ in range(rng.randint(1, 12)):
                if s:
                    j = rng.randrange(len(s))
                    s[j] = rng.choice(alphabet)
            out.append("".join(s))
        elif k == 4:
            s = rng.choice(seeds)
            out.append(s[: rng.randint(0, len(s))])
        else:
            out.append(bytes(rng.getrandbits(8) for _ in range(rng.randint(0, 200))).decode("utf-8", "replace") + "\x00\nled.on()\n")
    return out


def python_sources(rng, n):
    """arbitrary syntactically valid Python: the project's own sources and a few standard-library modules"""
    files = sorted((C.REPO / "src").rglob("*.py"))
    import ast as _a
    import fractions
    import textwrap
    import string
    files += [Path(m.__file__) for m in (_a, fractions, textwrap, string, random, collections, shutil)]
    texts = []
    for f in files:
        try:
            t = f.read_text()
        except Exception:  # noqa
            continue
        if len(t) > 60000:
            lines = t.splitlines(True)
            a = rng.randrange(0, max(1, len(lines) - 800))
            t = "".join(lines[a:a + 800])
        texts.append(t)
    rng.shuffle(texts)
    return texts[:n]


def check_script_result(ctx, stats, kind, text, r, canary):
    stats[f"script:{kind}:{r['exc'] or 'accepted'}"] += 1
    case = {"kind": kind, "text": text if len(text) < 1500 else text[:1500] + "...<cut>"}
    if r["exc"] == "Timeout":
        ctx.fail("transpiling did not terminate within the (generous) limit", case, "prompt termination", r, key="timeout")
    elif r["exc"] not in CLEAN:
        ctx.fail(f"transpiler raised {r['exc']} (neither ValueError nor SyntaxError)", case, "firmware source, ValueError or SyntaxError", r, key="exc-kind:" + str(r["exc"]))
    if r["audit"]:
        ctx.fail("transpiling performed a file / process / import / exec access (audit event)", case, "no audit event", r["audit"], key="audit:" + r["audit"][0][0])
    if canary and os.path.exists(canary):
        os.remove(canary)
        ctx.fail("a planted expression was executed during transpiling (canary file created)", case, "canary absent", "canary created", key="canary")


WHITELIST_CALLS = {"int", "float", "str", "bool", "len", "abs", "max", "min"}


def spine_unsupported(src):
    """does CPython's evaluation of the expression necessarily reach a node outside the evaluator's whitelist?
    (followed along the always-evaluated spine only: operands of unary operators, left operands, first items)"""
    import ast
    n = ast.parse(src, mode="eval").body
    for _ in range(50):
        if isinstance(n, (ast.Attribute, ast.Subscript, ast.Lambda, ast.ListComp, ast.SetComp, ast.DictComp, ast.GeneratorExp,
                          ast.Dict, ast.Set, ast.NamedExpr, ast.Await, ast.Yield, ast.YieldFrom, ast.Starred)):
            return True
        if isinstance(n, ast.Call):
            if not isinstance(n.func, ast.Name) or n.func.id not in WHITELIST_CALLS or n.keywords or not n.args:
                return True
            if any(isinstance(a, ast.Starred) for a in n.args):
                return True
            if n.func.id not in ("max", "min") and len(n.args) != 1:
                return True
            n = n.args[0]
        elif isinstance(n, ast.UnaryOp):
            n = n.operand
        elif isinstance(n, ast.BinOp):
            n = n.left
        elif isinstance(n, ast.BoolOp):
            n = n.values[0]
        elif isinstance(n, ast.Compare):
            n = n.left
        elif isinstance(n, ast.IfExp):
            n = n.test
        elif isinstance(n, (ast.List, ast.Tuple)) and n.elts:
            n = n.elts[0]
        else:
            return False
    return False


def depth_ok(src):
    # the guard of the generated streams: no tower, no float overflowing to infinity (F-C11-int-of-infinity)
    return src.count("(") < 40 and "1e308" not in src and "e999" not in src and "**" not in src.replace("** 0", "").replace("** 1", "").replace("** 2", "").replace("** 3", "").replace("** -1", "").replace("** 0.5", "")


def run(ctx: C.Ctx):
    rng = ctx.rng
    thorough = ctx.tier == "thorough"
    stats = collections.Counter()
    cdir = C.BUILD / "c11_canary"
    shutil.rmtree(cdir, ignore_errors=True)
    cdir.mkdir(parents=True, exist_ok=True)
    canary = str(cdir / "canary")

    # ---------------- 1. evaluator: model (result + primitive trace) vs real _eval_const; whitelist oracle
    cases = L.gen_eval_cases(ctx, 3000 if thorough else 700)
    hostile = [(h, L.ENV_POOL[0]) for h in hostile_exprs(canary) if L.src_ok(h)]
    cases = cases + hostile
    impl = C.run_impl("c11_impl.py", {"cases": [["expr", s, L.impl_env(e)] for s, e in cases]})
    model = ctx.model([[0, L.enc_cenv(e), W.enc_src(s)] for s, e in cases]) if ctx.exe else [None] * len(cases)
    distinct = set()
    for (src, env), r, m in zip(cases, impl, model):
        case = {"expr": src, "env": {k: ("<marker>" if v is L.MARK else v) for k, v in env.items()}}
        stats["expr:" + (r["res"][0] if r["res"][0] == "ok" else r["res"][1])] += 1
        # -- oracle on the implementation
        bad = [b for b in r["builtins"] if b in DENY_BUILTINS or b.startswith(("posix.", "nt.", "os.", "io.", "_io.", "subprocess.", "socket.", "_socket.", "importlib.", "_imp.", "pycall:"))]
        if bad:
            ctx.fail("_eval_const called a function outside its whitelist", case, "arithmetic, safe casts, len/abs/min/max only", bad, key="eval-call:" + bad[0])
        if r["audit"]:
            ctx.fail("_eval_const performed a file / process / import / exec access (audit event)", case, "no audit event", r["audit"], key="eval-audit:" + r["audit"][0][0])
        if os.path.exists(canary):
            os.remove(canary)
            ctx.fail("_eval_const executed a planted expression (canary file created)", case, "canary absent", "created", key="eval-canary")
        if r["res"][0] == "exc" and r["res"][1] not in ("ValueError", "TypeError", "ZeroDivisionError", "OverflowError"):
            ctx.fail(f"_eval_const raised {r['res'][1]}", case, "a value, ValueError, TypeError, ZeroDivisionError (OverflowError for float range)", r["res"], key="eval-exc:" + r["res"][1])
        if r["res"][0] == "ok" and spine_unsupported(src):
            ctx.fail("_eval_const returned a value for an expression whose evaluation necessarily reaches an unsupported node (attribute, subscript, lambda, comprehension, call outside the whitelist, keyword call ...)",
                     case, "ValueError before anything is evaluated", r["res"], key="eval-unsupported")
        unknown = [b for b in r["builtins"] if b not in ALLOW_BUILTINS and b not in bad]
        if unknown:
            ctx.disagree("_eval_const called a builtin the model has no primitive for", case, sorted(ALLOW_BUILTINS), unknown)
        if r["prims"]:
            distinct.add(src + repr(sorted(case["env"].items(), key=str)))
        # -- correspondence
        if m is None:
            continue
        if m == [2]:
            ctx.disagree("wire: the model could not decode the case", case, m, None)
            continue
        mres, mtrace, _, _, _, mexact, _, msites, _ = m
        exact = bool(mexact)
        d = L.cmp_result(mres, r["res"], exact)
        if d is None:
            stats["tie:result-equal"] += 1
        elif d.startswith("skip:"):
            stats["tie:" + d] += 1
        else:
            ctx.disagree("eval_const: " + d, case, mres, r["res"])
        if exact and mres[0] != 9 and not L.shape_flags(src):     # (the wire form drops starred arguments, format specs, ...)
            mt = []
            for p in mtrace:
                if p[0] == 0:
                    mt.append(["arith", OPNAME.get(p[1], "?")])
                elif p[0] == 2:
                    mt.append(["cast", C.wstr(p[1])])
                elif p[0] == 5:
                    mt.append(["abs"])
                elif p[0] == 6:
                    mt.append(["minmax"])
            it = [p for p in r["prims"] if not (p[0] == "arith" and p[1] in ("eq", "ne", "lt", "le", "gt", "ge"))]
            if mt != it:
                ctx.disagree("primitive operations performed: model trace vs recording wrappers in the real evaluator", case, mt, it)
            else:
                stats["tie:trace-equal"] += 1
                for p in mt:
                    stats["prim:" + p[0] + (":" + p[1] if len(p) > 1 else "")] += 1

    # ---------------- 2. the process (observed, support only): hostile scripts, Python sources, noise
    ref_script = HEADER + "y = n + 1\nif n > 1:\n    led.on()\nsleep(10 * 2)\nwhile True:\n    mon.write(len(s))\n    sleep(100)\n"
    scripts = []
    hx = hostile_exprs(canary)
    pos = POSITIONS
    if not thorough:
        pairs = [(p, h) for p in pos for h in rng.sample(hx, 6)] + [(p, hx[0]) for p in pos] + [(pos[1], h) for h in hx] + [(pos[20], h) for h in hx]
    else:
        pairs = [(p, h) for p in pos for h in hx]
    for p, h in pairs:
        scripts.append(("hostile", HEADER + p.replace("{H}", h) + "\n"))
    # every source of a non-ValueError exception of the evaluator, in every position
    ERR_SOURCES = ["1 / 0", "1 // 0", "1 % 0", "0 ** -1", "-'a'", "1 < 'a'", "max(1, 'a')", "min('a', 1)", "1 << -1", "1.5 | 1", "int('x')",
                   "float('x')", "len(5)", "abs('a')", "'a' + 1", "2.0 ** 5000", "int(1e400)", "(1, 2) < (1, 'a')", "f'{1 / 0}'",
                   "[1 / 0]", "1 if 1 / 0 else 2", "0 or 1 / 0", "not (1 < 'a')", "n / 0", "s < 1", "-s", "xs + 1"]
    for p in pos:
        for e in ERR_SOURCES:
            scripts.append(("error-source", HEADER + p.replace("{H}", e) + "\n"))
    gen_srcs = [s for s, _ in L.gen_eval_cases(ctx, 400 if thorough else 120) if depth_ok(s)]
    for i, e in enumerate(gen_srcs):
        scripts.append(("generated-expr", HEADER + pos[i % len(pos)].replace("{H}", e) + "\n"))
    seeds = [ref_script] + [s for _, s in scripts[:40]]
    for t in python_sources(rng, 60 if thorough else 25):
        scripts.append(("python-source", t))
    for t in noise_texts(rng, 1500 if thorough else 300, seeds):
        scripts.append(("noise", t))
    res = []
    chunk = 400
    first_ref = None
    # one process per chunk: the reference script is transpiled before and after the hostile stream of the chunk
    for i in range(0, len(scripts), chunk):
        part = [["ref", ref_script]] + [["script", t] for _, t in scripts[i:i + chunk]] + [["ref", ref_script]]
        out = C.run_impl("c11_impl.py", {"cases": part, "limit": 30}, timeout=3600)
        if first_ref is None:
            first_ref = out[0]
            if first_ref.get("cpp_sha", "exc").startswith("exc"):
                ctx.disagree("the reference script is not accepted", ref_script, "accepted", first_ref)
        if out[-1] != out[0] or out[0] != first_ref:
            ctx.fail("transpiling hostile inputs changed the output for an unrelated script (input-independent state mutated)",
                     {"scripts": f"{i}..{i + chunk}"}, out[0], out[-1], key="state-leak")
        res += out[1:-1]
    walls = []
    for (kind, text), r in zip(scripts, res):
        check_script_result(ctx, stats, kind, text, r, canary)
        walls.append(r["wall"])
        if r["exc"] is None and kind == "hostile":
            distinct.add(text)

    # ---------------- 3. known findings
    listed = {f["id"]: f for f in ctx.findings if f.get("kind") != "fixed"}
    if "F-C11-exponent-blowup" in listed:
        r = C.run_impl("c11_impl.py", {"cases": [["blowup", 12], ["blowup", 16], ["blowup", 20]], "limit": 30})
        if [x.get("bits") for x in r] == [2 ** 12 + 1, 2 ** 16 + 1, 2 ** 20 + 1]:
            ctx.known(f"F-C11-exponent-blowup: {listed['F-C11-exponent-blowup']['what']}")
    if "F-C11-int-of-infinity" in listed:
        r = C.run_impl("c11_impl.py", {"cases": [["script", HEADER + "led.blink(1e999, 1)\n"]], "limit": 30})
        if r[0]["exc"] == "OverflowError":
            ctx.known(f"F-C11-int-of-infinity: {listed['F-C11-int-of-infinity']['what']}")
    if "F-C11-recursion-error" in listed:
        r = C.run_impl("c11_impl.py", {"cases": [["script", HEADER + "y = " + " + ".join(["1"] * 3000) + "\n"]], "limit": 30})
        if r[0]["exc"] == "RecursionError":
            ctx.known(f"F-C11-recursion-error: {listed['F-C11-recursion-error']['what']}")
    shutil.rmtree(cdir, ignore_errors=True)

    ctx.coverage.update({
        "evaluations": len(cases) + len(scripts),
        "distinct_nontrivial": len(distinct),
        "rule": "1 (proof tie): the C03 expression stream (boundary expressions x environments + seeded random expressions) plus hostile expression forms, each through the extracted instrumented model (result, primitive trace) and the real _eval_const under recording wrappers (operator module alias, _SAFE_CASTS values, max/min/abs in the parser's namespace) with sys.setprofile / sys.addaudithook; non-trivial = distinct (expression, environment) on which the real evaluator performed at least one primitive operation. 2 (observed, support): hostile expression forms (file / process / import / eval / attribute / lambda / comprehension / walrus / f-string payloads writing a canary file) in every argument position of the property's quantifier (pins, delays, conditions, loop bounds, list items, f-strings, decorators, defaults, device constructor keywords, expression statements), generated expressions in the same positions, real Python sources (the project's own files and standard-library modules), byte noise / shuffled / truncated / corrupted scripts - each through the real parse()+emit() with audit hook, canary check, exception kind and a 30 s limit; non-trivial = distinct hostile script that was accepted (firmware produced) - the ones where evaluating the payload would have been possible.",
        "samples": [{"expr": hostile[0][0]}, {"script": scripts[0][1][len(HEADER):]}, {"script": scripts[len(pairs) // 2][1][len(HEADER):]}],
        "distribution": dict(sorted(stats.items())),
        "max_wall_s_per_script": max(walls) if walls else 0,
        "guard": "expressions with bounded magnitude (no ** / << towers: F-C11-exponent-blowup), no float overflowing to infinity in a numeric argument (F-C11-int-of-infinity) and nesting depth < 200 (F-C11-recursion-error)",
        "unmodelled": ["the Python process executing parser.py / emitter.py (regex matching, string building): observed by audit hook + canaries + exception kinds, support only - not proved",
                       "CPython's recursion limit and int->str digit limit", "IEEE infinities / NaN (the model's floats are exact rationals): int(inf) at the folding call sites is the listed finding F-C11-int-of-infinity", "target() reading the file (C12)", "ast.literal_eval fallbacks (flash_pattern, ultrasonic model): exercised by the hostile scripts, not modelled",
                       "environment reads (os.environ) have no audit event: only the canary / builtins profile would show them inside _eval_const"],
        "trusted_base": C.COMMON_TRUSTED + ["harness/gen/safecasts.py (operator / cast / safe-name tables of parser.py)",
                                            "CPython audit events and sys.setprofile c_call events as the observation of 'access' and 'call' (support part)"],
        "support_only": "part 2 (process-level behaviour on arbitrary texts) is observation, not proof",
    })
    ctx.assumptions += ["CPython raises the audit events open/exec/import/os.*/subprocess.*/socket.* for the corresponding accesses",
                        "the recording wrappers see every call the evaluator makes through its module-level names (op, _SAFE_CASTS, max, min, abs)"]
    return ctx


def replay(data):
    from harness.props.c03_replay import replay_c11
    return replay_c11(data)
