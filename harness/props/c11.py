"""C11 - transpiling never runs user code, has no side effects, fails only cleanly.

Claimed by proof for the evaluator and its call sites (coq/Props/C11.v over Lang/ConstEval.v): every primitive
operation of _eval_const is on the whitelist, unsupported nodes are rejected before anything below them is evaluated,
only ValueError / TypeError / ZeroDivisionError leave the evaluator and only ValueError leaves its call sites; the
size of every integer the evaluator builds is bounded (C11_fold_step_bounded, C11_fold_bits_bounded, C11_tower_refused -
the repaired F-C11-exponent-blowup).  Tie: the instrumented model (result + primitive trace) against
the real _eval_const with recording wrappers, on generated and hostile expressions.

The part of C11 about the Python process itself (no file / process / network access, clean exception kinds and
prompt termination for arbitrary texts) is no statement about a Gallina model: it is OBSERVED here - audit hook,
planted canaries, exception kind, a generous time limit, on hostile scripts, real Python sources and noise - and is
reported as support, not as proof.
"""
from __future__ import annotations

import collections
import os
import random
import shutil
import threading
from pathlib import Path

from harness import common as C
from harness import pyast_wire as W
from harness import c11_prompt as Q
from harness import c11_oracles as O
from harness import c11_depth as D
from harness.props import c03 as L

META = {
    "id": "C11",
    "technique": "Coq proof (interpreter-stack model of the two stages parse() -> emit() over program trees, constants per block slot / header / simple statement measured on the current source: the guard of emit() - its own RecursionError / MemoryError reported as ValueError, like parse() - observed on the real emit() by the translator: with the guard the pipeline never ends in an internal error, for every pair of constant tables, every program tree and every room; the outcome characterised case by case (firmware / clean rejection by parse / by emit), the guard changes only the kind of the failure; emit needs no more frames than parse on every tree whenever its constants are dominated, so everything parse() accepts is emitted; necessity of the guard: one frame more per level in any slot fails on an accepted ladder - with an internal error when unguarded; model of the function-variant memo in front of _parse_function with the sequence of body parses as its cost: looked up through the alias table no (function, call signature) is parsed twice, for every call graph - at most defs + distinct call signatures body parses; looked up by the raw signature a promoted helper is parsed again at every call, fan-out ^ depth on helper chains; regenerated inventory of every regular expression of the transpiler, lowered from CPython's own parse: flat => polynomially many backtracking paths on every text, nested quantifier => exponentially many; process model of folded list objects across parse() calls: stateless without a module-level memo, refuted with one, inventory of module-level state shows none; process model of the whitelist of foldable names across parse() calls: a script binding len / str ... leaves later scripts alone unless the binding is discarded from the module-level set (refuted), the inventory shows the set is only membership-tested; effect-instrumented model of _eval_const: whitelist of primitives by induction over expressions, reject-before-evaluate for unsupported nodes, exception kinds at the call sites, size bound of folded integers per operator and per expression) + extracted-model correspondence (result and primitive trace vs the real _eval_const under recording wrappers) + regex model vs re.fullmatch, session model vs firmware text + pump strings derived from every repeat of every pattern in every line / argument position, generic long runs, scale families by doubling (promptness relative to the stream's median, confirmed in a new process, growth series in the replay), sessions of scripts sharing literal texts vs the same script alone + variant model vs the recorded sequence of real _parse_function invocations on generated scripts of defs and calls, and the parsed-once statement evaluated on that sequence; depth families of helpers calling each other (37 families: promoted / unpromoted / annotated parameters, fan-out 1-3, several signatures and parameters, calls in conditions / loops / try / arguments / f-strings / the main loop, recursion, rings, forward calls, redefinition, lattices, nested blocks inside re-parsed bodies) measured by doubling the depth against a baseline-relative budget + audit-hook / canary / exception-kind observation of the real parse()+emit() on hostile scripts, real Python sources and noise, and of Reduino.target(upload=False) on scripts that need / do not need external libraries without and with a pio on PATH (support only)",
    "level_text": "Stack: C11_nesting_never_crashes_emit (current source: every room, EVERY program tree - replaces C11_nesting_never_crashes_emit_refuted / _partial after the repair of F-C11-emit-stack-window), C11_emit_is_guarded_current_source (obligation over Gen/NestDepth.v: the guard observed on the real emit() on every run), C11_guarded_emit_never_crashes / C11_pipeline_outcome_characterised / C11_stack_crash_iff_unguarded_window / C11_guard_only_changes_the_kind (every pair of constant tables, every program tree, every room), C11_former_window_is_clean_rejection, C11_emit_stack_within_parse_stack / C11_accepted_nesting_is_emitted (which depths still yield firmware; dominance of the measured tables is a hypothesis, reported in the distribution), C11_extra_frame_per_level_opens_window (necessity of the guard). Theorems C11_* (coq/Props/C11.v) are proved for all expressions and environments about the Gallina model of _eval_const and its call sites (cast / operator tables regenerated from parser.py on every run): whitelist of primitive operations, no evaluation below an unsupported node, error kinds, size of the folded integers (at most max(_MAX_CONST_BITS, widest operand + 1) bits per operator application, linear in the input for whole arithmetic expressions; 2**2**n is refused beyond the bound) and a linear number of operations; C11_regex_table_flat / _polynomial: every regular expression of the current source (Gen/Regexes.v, regenerated) is flat, hence has at most (length + 2)^size backtracking paths on every text, while the nested-quantifier shape has at least 2^n (C11_nested_quantifier_exponential, C11_port_fragment_exponential); C11_fold_session_stateless(_current_source), C11_parse_leaves_module_store, C11_fold_memo_refuted, C11_no_mutated_module_state: folded list objects cannot leak from one parse() to the next because no module-level object is mutated or handed out (Gen/SetSites.v). C11_name_session_stateless / C11_parse_leaves_whitelist / C11_name_shadow_in_module_set_refuted / C11_whitelist_confined_current_source / C11_name_session_stateless_current_source (Lang/NameSession.v): a script that defines a function named like a foldable builtin cannot change how a later script of the process is folded as long as the binding is recorded nowhere or per parse - discarding it from the module-level whitelist is refuted by a two-script session; in the current source the whitelist object is only ever membership-tested. C11_variant_parsed_once / _parses_bounded / _parsed_only_when_called: for every script of defs and calls (Lang/VariantCost.v: return sums of parameters, literals and calls; recursion, forward calls, promotion of parameters to String) _ensure_function_variant parses no (function, call signature) twice, so the def / call machinery performs at most defs + distinct call signatures body parses; C11_variant_raw_lookup_refuted: not so when the fast path ignores the alias table. Open finding F-C11-blank-run-cubic: flat is polynomial, not linear - three adjacent blank-accepting runs make long white-space runs cubic. The clause about the Python process (no file, process, network or environment access; only ValueError/SyntaxError; termination) for arbitrary texts is outside the technique: it is observed with sys.addaudithook, canary files, exception kinds and a 30 s limit on generated hostile scripts, and labelled as support.",
    "level_note": "Trusted: Coq kernel, translator harness/gen/safecasts.py, extraction, OCaml driver; for the observed part CPython's audit events (open, exec, import, os.*, subprocess.*, socket.*) as the definition of 'access'. The theorems are about the model; the correspondence bounds its distance from parser.py.",
    "design_ref": "DESIGN.md section 4 C11",
}

WIRE = ["C11", "C11x"]      # C11W: the evaluator wire shared with C03; C11xW: regular expressions and sessions
CLEAN = (None, "ValueError", "SyntaxError")
OPNAME = {0: "add", 1: "sub", 2: "mul", 3: "truediv", 4: "floordiv", 5: "mod", 6: "pow", 7: "and_", 8: "or_", 9: "xor",
          10: "lshift", 11: "rshift"}
# builtins the evaluator may call (its own type tests, the whitelisted functions, ast.parse); anything else from
# builtins / os / io / subprocess / socket / importlib during _eval_const is reported
ALLOW_BUILTINS = {"builtins.isinstance", "builtins.issubclass", "builtins.hasattr", "builtins.callable", "builtins.len",
                  "builtins.abs", "builtins.max", "builtins.min", "builtins.compile", "builtins.iter", "builtins.next",
                  "builtins.id", "builtins.hash", "builtins.repr", "builtins.any", "builtins.all", "builtins.sum",
                  "builtins.sorted", "builtins.divmod", "builtins.pow", "builtins.round", "builtins.format", "builtins.getattr"}
DENY_BUILTINS = {"builtins.eval", "builtins.exec", "builtins.__import__", "builtins.open", "builtins.setattr", "builtins.delattr",
                 "builtins.input", "builtins.print", "builtins.globals", "builtins.locals", "builtins.vars", "builtins.breakpoint",
                 "builtins.chr", "builtins.ord", "builtins.oct", "builtins.hex", "builtins.bin", "builtins.dir", "builtins.ascii"}

HEADER = (
    "from Reduino import target\n"
    "from Reduino.Core import pin_mode, digital_write, analog_write, digital_read, analog_read, OUTPUT, INPUT\n"
    "from Reduino.Communication import SerialMonitor\n"
    "from Reduino.Utils import sleep\n"
    "from Reduino.Actuators import Led, Buzzer, Servo, RGBLed, DCMotor\n"
    "from Reduino.Displays import LCD\n"
    "from Reduino.Sensors import Ultrasonic, Button\n"
    "target(\"COM3\", upload=False)\n"
    "mon = SerialMonitor(9600)\n"
    "led = Led(13)\n"
    "bz = Buzzer(8)\n"
    "lcd = LCD(rs=12, en=11, d4=5, d5=4, d6=3, d7=2)\n"
    "xs = [1, 2]\n"
    "s = \"ab\"\n"
    "n = 3\n"
)
# {H}: a hostile expression; every template is one argument position of the property's quantifier
POSITIONS = [
    "led2 = Led({H})", "sleep({H})", "led.blink({H}, 1)", "led.blink(100, {H})", "led.set_brightness({H})", "if {H}:\n    led.on()",
    "if n > 1 and {H}:\n    led.on()", "k = 0\nwhile k < {H}:\n    k = k + 1", "for i in range({H}):\n    led.on()", "ys = [{H}]", "ys = [1, {H}, 3]",
    "mon.write(f\"{{H}}\")", "mon.write(f\"{{H}!r:>{n}}\")", "lcd.write(0, 0, f\"v={{H}}\")", "mon.write({H})", "t = f\"a{{H}}b\"", "lcd.glyph(0, {H})", "lcd.glyph({H}, [0, 0, 0, 0, 0, 0, 0, 0])",
    "lcd.glyph(0, [{H}, 0, 0, 0, 0, 0, 0, 0])", "led.flash_pattern({H})", "led.flash_pattern([1, {H}])", "led.flash_pattern([1, 0], {H})",
    "y = {H}", "y = n + {H}", "y, z = 1, {H}", "n += {H}", "xs.append({H})", "xs.remove({H})", "@{H}\ndef f():\n    return 1\ny = f()",
    "def f(a={H}):\n    return a\ny = f()", "def f(a):\n    return {H}\ny = f(1)", "us = Ultrasonic(trig=7, echo=8, sensor={H})", "us = Ultrasonic({H}, 8)",
    "mon2 = SerialMonitor({H})", "bz.play_tone({H})", "bz.play_tone(440, {H})", "sv = Servo({H})", "sv = Servo(9, min_angle={H})",
    "{H}", "lcd.backlight({H})", "lcd.write(0, 0, {H})", "y = len({H})", "y = abs({H})", "y = max(1, {H})", "y = int({H})", "y = xs[{H}]",
    "try:\n    y = {H}\nexcept Exception:\n    y = 0", "while True:\n    sleep({H})", "while True:\n    y = {H}\n    mon.write(y)", "target({H})",
    # every resolver that converts a folded constant with int() / float() (the sites of the repaired F-C11-int-of-infinity)
    "btn = Button({H})", "bz2 = Buzzer({H})", "bz2 = Buzzer(8, default_frequency={H})", "mo = DCMotor({H}, 4, 5)", "mo = DCMotor(3, 4, {H})",
    "rgb = RGBLed({H}, 10, 11)", "rgb = RGBLed(9, 10, {H})", "lcd2 = LCD(rs=12, en=11, d4=5, d5=4, d6=3, d7=2, backlight_pin={H})",
    "lcd2 = LCD(rs=12, en=11, d4=5, d5=4, d6=3, d7=2, rw={H})", "lcd2 = LCD(i2c_addr={H})", "lcd2 = LCD(i2c_addr=0x27, cols={H}, rows=2)",
    "lcd.progress(0, 50, width={H})", "lcd.progress(0, {H})", "lcd.progress(0, 5, {H})", "lcd.brightness({H})", "sv = Servo(9, max_pulse_us={H})",
    "sv = Servo(9, max_angle={H})", "bz.play_tone({H}, 10)", "led.fade_in({H})", "led.fade_out(10, {H})", "lcd.animate('scroll', 0, 'hi', speed_ms={H})",
    "us = Ultrasonic(7, {H})", "def len(a={H}):\n    return a\ny = len(2)", "def str(a):\n    return {H}\ny = str(1)", "def len(a):\n    return a\ny = len({H})", "for i in range(1, {H}):\n    led.on()", "for i in range(0, 10, {H}):\n    led.on()", "bz.beep({H})", "bz.sweep(100, {H}, 50)",
]


# further places an expression can stand in Python (most are outside the supported subset: the script is rejected or the line is
# reported - never evaluated); used with the hostile payloads only
POSITIONS_EXTRA = [
    "y: {H} = 1", "def f(a: {H}):\n    return a\ny = f(1)", "def f(a) -> {H}:\n    return a\ny = f(1)", "class A:\n    x = {H}", "class A({H}):\n    pass", "with {H} as fh:\n    led.on()",
    "assert {H}", "assert n > 0, {H}", "raise {H}", "del xs[{H}]", "xs[{H}] = 1", "xs[0] += {H}", "for i in {H}:\n    led.on()", "while {H}:\n    led.on()", "if n > 5:\n    led.on()\nelif {H}:\n    led.off()",
    "try:\n    led.on()\nexcept {H}:\n    led.off()", "print({H})", "led2 = Led(pin={H})", "led2 = Led(*{H})", "led2 = Led(**{H})", "sleep(ms={H})", "lcd.write({H}, 0, \"a\")", "mon2 = SerialMonitor(baud={H})",
    "match {H}:\n    case 1:\n        led.on()", "match n:\n    case 1 if {H}:\n        led.on()", "y = lambda a={H}: a", "global_y = [i for i in range(3) if {H}]", "y = n if {H} else 2", "return {H}", "led.on() if {H} else led.off()",
    "y = (1, {H})[0]", "y = not {H}", "y = -{H}", "s2 = s + {H}", "s2 = \"%s\" % {H}", "s2 = \"{{}}\".format({H})", "led.{H}", "x.y = {H}", "def f(a, *b, c={H}, **d):\n    return a\ny = f(1)", "async def f():\n    await {H}",
    "def f():\n    yield {H}\ny = f()", "nonlocal_y = [{H} for _ in range(2)]", "import os\nos.environ[\"A\"] = str({H})", "target(\"COM3\", upload={H})", "target(port={H})", "if __name__ == \"__main__\":\n    y = {H}",
]
# import statements (never executed: `import antigravity` would open a browser, `import this` prints) in every statement position
IMPORT_LINES = ["import this", "import antigravity", "import wave, sqlite3", "from this import s as zen", "import os as sleep", "from subprocess import run", "from os import system as sleep", "import socket; socket.socket()",
                "from Reduino.Actuators import *", "from Reduino import *", "import Reduino.toolchain.pio as pio\npio.ensure_pio()", "from Reduino.toolchain.pio import ensure_pio\nensure_pio()", "from . import this", "from __future__ import annotations",
                "import importlib\nimportlib.import_module(\"this\")", "__import__(\"this\")", "import ctypes", "import this as Led\nled9 = Led(9)"]
IMPORT_FRAMES = ["{I}\n", "led.on()\n{I}\nled.off()\n", "def f():\n    {I}\n    return 1\ny = f()\n", "if n > 1:\n    {I}\n", "try:\n    {I}\nexcept ImportError:\n    led.on()\n", "while True:\n    {I}\n    sleep(100)\n"]


def import_scripts():
    out = []
    for imp in IMPORT_LINES:
        for fr in IMPORT_FRAMES:
            ind = fr[:fr.index("{I}")].rsplit("\n", 1)[-1]
            body = fr.replace("{I}", imp.replace("\n", "\n" + ind))
            out.append(HEADER + body)
            if fr == IMPORT_FRAMES[0]:
                out.append(imp + "\n" + HEADER + "led.on()\n")
    return out


def hostile_exprs(canary: str):
    o = f"open({canary!r}, 'w')"
    return [
        o, f"__import__('os').system('touch {canary}')", f"(lambda: {o})()", f"[{o} for _ in [1]]", f"eval(\"open('{canary}', 'w')\")",
        f"exec(\"open('{canary}', 'w')\")", f"{o}.write('x')", f"int({o})", f"len({o})", f"abs({o})", f"max(1, {o})", f"min({o})", f"str({o})",
        f"bool({o})", f"float({o})", f"1 + {o}", f"-{o}", f"not {o}", f"1 if {o} else 2", f"0 or {o}", f"1 and {o}", f"1 < {o}", f"[{o}]", f"({o},)",
        f"f'{{{o}}}'", f"getattr(__import__('os'), 'system')('touch {canary}')", f"__import__('subprocess').run(['touch', {canary!r}])",
        f"__import__('pathlib').Path({canary!r}).write_text('x')", f"__import__('os').environ.get('HOME')", f"__import__('socket').socket()", "__import__('wave')", "__import__('this')", f"__import__('sqlite3').connect({canary!r})",
        "().__class__.__base__.__subclasses__()", "s.__class__", "s.upper()", "xs[0]", "xs.__len__()", "globals()", "print(1)", "input()",
        f"(y := {o})", f"{{1: {o}}}", f"{{{o}}}", f"*[{o}]", f"lambda: {o}", f"(yield {o})", f"await {o}", f"{o} if 1 else 0", f"{o}[0]", f"{o}.name",
        f"__builtins__.open({canary!r}, 'w')", f"type('X', (), {{}})()", f"compile('1', 'f', 'eval')", f"os.system('touch {canary}')",
        f"max({o} for _ in [1])", f"int(str({o}))", f"abs(-{o})", f"len([{o}, 1])", f"max(1, 2, {o})", f"f\"{{{o}!r}}\"", f"f\"{{1:{{{o}}}}}\"",
    ]


def noise_texts(rng, n, seeds):
    out = []
    alphabet = "abcdefxyz_0123456789 \t\n()[]{}:=+-*/%<>!.,'\"#\\@;&|^~`$?"
    for i in range(n):
        k = i % 6
        if k == 0:
            out.append(bytes(rng.getrandbits(8) for _ in range(rng.randint(0, 400))).decode("latin-1"))
        elif k == 1:
            out.append("".join(rng.choice(alphabet) for _ in range(rng.randint(0, 300))))
        elif k == 2:
            s = rng.choice(seeds)
            lines = s.splitlines()
            rng.shuffle(lines)
            out.append("\n".join(lines[: rng.randint(0, len(lines))]) + "\n")
        elif k == 3:
            s = list(rng.choice(seeds))
            for _ in range(rng.randint(1, 12)):
                if s:
                    j = rng.randrange(len(s))
                    s[j] = rng.choice(alphabet)
            out.append("".join(s))
        elif k == 4:
            s = rng.choice(seeds)
            out.append(s[: rng.randint(0, len(s))])
        else:
            out.append(bytes(rng.getrandbits(8) for _ in range(rng.randint(0, 200))).decode("utf-8", "replace") + "\x00\nled.on()\n")
    return out


def python_sources(rng, n):
    """arbitrary syntactically valid Python: the project's own sources and a few standard-library modules"""
    files = sorted((C.REPO / "src").rglob("*.py"))
    import ast as _a
    import fractions
    import textwrap
    import string
    files += [Path(m.__file__) for m in (_a, fractions, textwrap, string, random, collections, shutil)]
    texts = []
    for f in files:
        try:
            t = f.read_text()
        except Exception:  # noqa
            continue
        if len(t) > 60000:
            lines = t.splitlines(True)
            a = rng.randrange(0, max(1, len(lines) - 800))
            t = "".join(lines[a:a + 800])
        texts.append(t)
    rng.shuffle(texts)
    return texts[:n]


def check_script_result(ctx, stats, kind, text, r, canary):
    stats[f"script:{kind}:{r['exc'] or 'accepted'}"] += 1
    case = {"kind": kind, "text": text if len(text) < 200000 else text[:1500] + "...<cut>"}
    if r["exc"] == "Timeout":
        ctx.fail("transpiling did not terminate within the (generous) limit", case, "prompt termination", r, key="timeout")
    elif r["exc"] not in CLEAN:
        ctx.fail(f"transpiler raised {r['exc']} (neither ValueError nor SyntaxError)", case, "firmware source, ValueError or SyntaxError", r, key="exc-kind:" + str(r["exc"]))
    if r["audit"]:
        ctx.fail("transpiling performed a file / process / import / exec access (audit event)", case, "no audit event", r["audit"], key="audit:" + r["audit"][0][0])
    if r.get("env"):
        ctx.fail("transpiling read the process environment", case, "no environment access (REDUINO_VERIF, the verification hook's own switch, excepted)", r["env"], key="env-read:" + r["env"][0])
    if canary and os.path.exists(canary):
        os.remove(canary)
        ctx.fail("a planted expression was executed during transpiling (canary file created)", case, "canary absent", "canary created", key="canary")


WHITELIST_CALLS = {"int", "float", "str", "bool", "len", "abs", "max", "min"}


def spine_unsupported(src):
    """does CPython's evaluation of the expression necessarily reach a node outside the evaluator's whitelist?
    (followed along the always-evaluated spine only: operands of unary operators, left operands, first items)"""
    import ast
    n = ast.parse(src, mode="eval").body
    for _ in range(50):
        if isinstance(n, (ast.Attribute, ast.Subscript, ast.Lambda, ast.ListComp, ast.SetComp, ast.DictComp, ast.GeneratorExp,
                          ast.Dict, ast.Set, ast.NamedExpr, ast.Await, ast.Yield, ast.YieldFrom, ast.Starred)):
            return True
        if isinstance(n, ast.Call):
            if not isinstance(n.func, ast.Name) or n.func.id not in WHITELIST_CALLS or n.keywords or not n.args:
                return True
            if any(isinstance(a, ast.Starred) for a in n.args):
                return True
            if n.func.id not in ("max", "min") and len(n.args) != 1:
                return True
            n = n.args[0]
        elif isinstance(n, ast.UnaryOp):
            n = n.operand
        elif isinstance(n, ast.BinOp):
            n = n.left
        elif isinstance(n, ast.BoolOp):
            n = n.values[0]
        elif isinstance(n, ast.Compare):
            n = n.left
        elif isinstance(n, ast.IfExp):
            n = n.test
        elif isinstance(n, (ast.List, ast.Tuple)) and n.elts:
            n = n.elts[0]
        else:
            return False
    return False


# ---- the regions the three repaired findings used to exclude from the generated streams
# F-C11-exponent-blowup: towers, giant shifts, products of wide integers - as expressions and in every argument position
BLOWUP_EXPRS = [
    "9**9**9", "2**2**12", "2**2**16", "2**2**20", "2**2**40", "3**3**15", "7**7**7", "10**10**10", "(-2)**2**20", "-9**9**9", "2**(1 << 4000)",
    "1 << (1 << 40)", "1 << 2**33", "True << (1 << 40)", "(-1) << (1 << 40)", "(1 << 4000) * (1 << 4000)", "(1 << 4095) ** 2", "(1 << 4095) ** (1 << 4095)",
    "((1 << 4095) + (1 << 4095)) * 2", "x ** x ** x ** x", "255 ** 255 ** 255", "(2 ** 4000) ** (2 ** 4000)", "2 ** 4096 ** 2", "2 ** 10 ** 6", "1 << 10 ** 9",
    "9**9**9 * 0", "0 * 9**9**9", "9**9**9 and 1", "0 and 9**9**9", "1 or 9**9**9", "1 if 9**9**9 else 2", "2 if 0 else 9**9**9", "[9**9**9]", "(1, 9**9**9)",
    "int(9**9**9)", "float(2**2**20)", "str(9**9**9)", "bool(9**9**9)", "abs(-2**2**30)", "max(1, 2**2**30)", "min(2**2**30, 1)", "len(str(9**9**9))",
    "f'{9**9**9}'", "9**9**9 < 1", "1 < 9**9**9 < 2", "-(9**9**9)", "not 9**9**9", "9**9**9 // 9**9**9", "9**9**9 % 7", "9**9**9 >> (1 << 40)",
    "1 << (1 << 12)", "1 << (1 << 11)", "2 ** 2 ** 11", "2 ** 2 ** 10", "3 ** 2 ** 11",
]
# the same region where the exact-rational model would itself need astronomically many steps (bases 0 / 1 / floats with
# giant exponents, giant negative exponents): implementation-side oracle only (terminates, clean kind, size bound)
GIANT_EXPRS = ["0 ** 10**30", "1 ** 10**30", "(-1) ** 10**30", "True ** 10**30", "False ** 10**30", "0 << 10**30", "False << 10**30", "0 >> 10**30",
               "x >> 10**30", "1.5 ** 10**30", "0.5 ** 10**30", "2 ** -(2 ** 40)", "2 ** -(10**30)", "2.0 ** 2 ** 20", "2 ** 2.0 ** 20", "0 ** 2**40",
               "x ** 10**30", "b ** 10**30", "10**30 ** 0", "0 * 10**30 ** 2", "y ** 10**6", "(x - x) ** 10**30", "1 ** 1 ** 10**30"]
# F-C11-int-of-infinity: values int() / float() cannot convert (float infinities, NaN, integers beyond the float range)
INF_EXPRS = ["1e999", "-1e999", "1e308 * 10", "float('inf')", "-float('inf')", "float('nan')", "max(1, 1e999)", "abs(-1e999)", "1e999 if 1 else 0",
             "1e999 - 1e999", "[1e999]", "(1e999,)", "[1, 1e999, 3]", "2 ** 2000", "-(2 ** 3000)", "0x1" + "0" * 300, "[2 ** 2000]", "1 << 4095",
             "[0, 0, 0, 0, 0, 0, 0, 1e999]", "[float('nan')]", "1e999 * 0", "int(1e999)", "float(2 ** 2000)", "[0, 0, 0, 0, 0, 0, 0, -1e999]"]


def deep_exprs():
    """F-C11-recursion-error: expressions deeper than CPython's recursion limit (ast construction, the recursive
    evaluator and translator), and ones just below it"""
    out = []
    for n in (150, 400, 900, 1200, 3000, 20000):
        out.append(" + ".join(["1"] * n))
        out.append(" - ".join(["x"] * n))
    for n in (150, 900, 3000):
        out += ["-" * n + "1", "not " * n + "1", "~" * n + "1", " * ".join(["2"] * n), "1 if 1 else " * n + "2", "'a' + " * n + "'a'",
                "s" + ".a" * n, "f" + "()" * n, "xs" + "[0]" * n, "1 + (" * n + "1" + ")" * n, "[" * n + "1" + "]" * n, "(" * n + "1" + ")" * n,
                " and ".join(["1"] * n), " < ".join(["1"] * n), "max(" * n + "1" + ")" * n, "int(" * n + "1" + ")" * n, "-(" * n + "1" + ")" * n,
                "[" + ", ".join(["1"] * n) + "]", "lambda: " * n + "1", " ** ".join(["1"] * n), " << ".join(["1"] * n)]
    return out


# scripts whose blow-up needs several lines: the folded binding of one line feeds the next
def chain_scripts():
    out = []
    for step in ("a = a * a", "a = a ** 2", "a = a << a", "a = a * a * a", "a *= a", "a = a ** a", "b = a * a\na = b * b"):
        for n in (12, 40, 200):
            for use in ("sleep(a)", "led.blink(a, 1)", "led2 = Led(a)", "if a > 1:\n    led.on()", "mon.write(a)", "ys = [a]"):
                out.append("a = 3\n" + (step + "\n") * n + use + "\n")
    return out


def expr_size(src, env):
    """(has a call, number of ast nodes, widest integer leaf: literals and bound names)"""
    import ast
    tree = ast.parse(src, mode="eval")
    call = any(isinstance(n, ast.Call) for n in ast.walk(tree))
    nodes = sum(1 for _ in ast.walk(tree))
    leaf = 1
    for n in ast.walk(tree):
        if isinstance(n, ast.Constant) and isinstance(n.value, int):
            leaf = max(leaf, int(n.value).bit_length())
        if isinstance(n, ast.Name) and isinstance(env.get(n.id), int):
            leaf = max(leaf, int(env[n.id]).bit_length())
    return call, nodes, leaf


def widest_int(w):
    """widest integer inside an encoded result of c11_impl.enc (bits), None when there is none"""
    if w[0] == "int":
        return int(w[1], 16).bit_length()
    if w[0] == "bool":
        return 1
    if w[0] == "special" and w[1] == "hugeint":
        return 10 ** 9
    if w[0] in ("list", "tuple"):
        xs = [widest_int(x) for x in w[1]]
        xs = [x for x in xs if x is not None]
        return max(xs) if xs else None
    return None


FIXED_WITNESS = {
    "F-C11-exponent-blowup": "sleep(9**9**9)\n",
    "F-C11-int-of-infinity": "led.blink(1e999, 1)\n",
    "F-C11-recursion-error": "y = " + " + ".join(["1"] * 3000) + "\n",
}


def replay_fixed(ctx, stats):
    """the witnesses of the repaired findings: a fixed entry suppresses nothing - a witness that fails again is a
    violation of the property (with the witness as replay), not a known finding.  Returns the ids that regressed."""
    back = set()
    fixed = {f["id"]: f for f in ctx.findings if f.get("kind") == "fixed"}
    for fid, tail in FIXED_WITNESS.items():
        if fid not in fixed:
            continue
        text = HEADER + tail
        r = C.run_impl("c11_impl.py", {"cases": [["script", text]], "limit": 8})[0]
        stats[f"fixed-witness:{fid}:{r['exc'] or 'accepted'}"] += 1
        if r["exc"] not in CLEAN or r["audit"]:
            back.add(fid)
            what = ("did not terminate within 8 s" if r["exc"] == "Timeout" else f"raised {r['exc']}")
            ctx.fail(f"the repaired defect {fid} is back: transpiling its witness {what} ({fixed[fid].get('fixed', '')})",
                     {"kind": "fixed-witness", "finding": fid, "text": text}, "firmware source or ValueError, promptly", r, key="fixed:" + fid)
    if "F-C11-exponent-blowup" in fixed:
        r = C.run_impl("c11_impl.py", {"cases": [["blowup", 12], ["blowup", 16], ["blowup", 20]], "limit": 30})
        got = [x.get("bits") for x in r]
        stats["fixed-witness:2**2**n:" + ("refused" if got == [None, None, None] else "folded")] += 1
        if got != [None, None, None] or any(x.get("exc") != "ValueError" for x in r):
            back.add("F-C11-exponent-blowup")
            ctx.fail("the repaired defect F-C11-exponent-blowup is back: _eval_const('2**2**n', {}) for n = 12, 16, 20 is folded (bit lengths of the results) instead of refused",
                     {"kind": "fixed-witness", "finding": "F-C11-exponent-blowup", "expr": "2**2**n", "n": [12, 16, 20], "env": {}},
                     "ValueError (constant too large to fold)", r, key="fixed:F-C11-exponent-blowup:eval")
    if "F-C11-emit-stack-window" in fixed:
        if D.replay_fixed(ctx, stats, ctx.tier == "thorough", fixed["F-C11-emit-stack-window"]):
            back.add("F-C11-emit-stack-window")
    return back


def run(ctx: C.Ctx):
    rng = ctx.rng
    thorough = ctx.tier == "thorough"
    stats = collections.Counter()
    cdir = C.BUILD / "c11_canary"
    shutil.rmtree(cdir, ignore_errors=True)
    cdir.mkdir(parents=True, exist_ok=True)
    canary = str(cdir / "canary")

    # ---------------- 2b (started here, joined before the timing streams). the interpreter stack over parse() -> emit(): stack model vs
    # the deepest frame of the real stages; ladders of every block slot at parse()'s acceptance boundary (own generator, own processes)
    depth_stats = collections.Counter()
    depth_box = {}

    def _depth():
        try:
            depth_box["n"] = D.depth_stream(ctx, depth_stats, random.Random(f"C11:depth:{ctx.seed}"), thorough)
        except Exception as e:  # noqa
            depth_box["err"] = f"{type(e).__name__}: {e}"

    depth_thread = threading.Thread(target=_depth)
    depth_thread.start()

    # ---------------- 0. the witnesses of the repaired findings (fixed entries suppress nothing)
    regressed = replay_fixed(ctx, stats)
    blowup_back = "F-C11-exponent-blowup" in regressed
    if blowup_back:
        # every tower would run into the time limit: the regression is already reported with its witness
        stats["skipped:blowup-streams (F-C11-exponent-blowup is back)"] += 1
    tables = C.run_impl("c11_impl.py", {"cases": [["tables"]]})[0]
    max_bits = tables.get("max_const_bits") or 4096

    # ---------------- 1. evaluator: model (result + primitive trace) vs real _eval_const; whitelist oracle
    cases = L.gen_eval_cases(ctx, 3000 if thorough else 700)
    hostile = [(h, L.ENV_POOL[0]) for h in hostile_exprs(canary) if L.src_ok(h)]
    cases = cases + hostile
    n_model = len(cases)
    if not blowup_back:
        # the region F-C11-exponent-blowup used to exclude: towers / giant shifts / wide products, and random integer
        # expressions whose exponents and shift counts are drawn around and beyond the size bound
        big = [(e, env) for e in BLOWUP_EXPRS for env in L.ENV_POOL[:2]]
        for _ in range(1500 if thorough else 400):
            big.append((W.gen_expr(rng, rng.choice([1, 2, 2, 3, 3, 4]), names=("x", "b"), kinds=rng.choice([("int",), ("int", "bool")]),
                                   allow_calls=False, allow_div=False, big_rhs=True), rng.choice(L.ENV_POOL[:4])))
        big = [(s, e) for s, e in big if L.src_ok(s)]
        cases = cases + big
        n_model = len(cases)
        cases = cases + [(e, env) for e in GIANT_EXPRS for env in L.ENV_POOL[:2]]      # implementation-side oracle only
    impl = C.run_impl("c11_impl.py", {"cases": [["expr", s, L.impl_env(e)] for s, e in cases], "limit": 10}, timeout=3600)
    model = ctx.model([[0, L.enc_cenv(e), W.enc_src(s)] for s, e in cases[:n_model]]) if ctx.exe else []
    model = list(model) + [None] * (len(cases) - len(model))
    distinct = set()
    for (src, env), r, m in zip(cases, impl, model):
        case = {"expr": src, "env": {k: ("<marker>" if v is L.MARK else v) for k, v in env.items()}}
        stats["expr:" + (r["res"][0] if r["res"][0] == "ok" else r["res"][1])] += 1
        # -- size of the folded integers (C11_fold_bits_bounded on the real evaluator; calls can read sizes from floats / strings)
        if r["res"][0] == "ok":
            wide = widest_int(r["res"][1])
            call, nodes, leaf = expr_size(src, env)
            if wide is not None:
                stats["size:" + ("<=64" if wide <= 64 else "<=bound/2" if wide <= max_bits // 2 else "<=bound" if wide <= max_bits else ">bound")] += 1
            if wide is not None and not call and wide > max(max_bits, leaf) + nodes:
                ctx.fail(f"_eval_const folded an integer of {wide} bits: more than max(bound {max_bits}, widest leaf {leaf}) + {nodes} nodes",
                         case, f"at most {max(max_bits, leaf) + nodes} bits, or ValueError", f"{wide} bits", key="eval-size")
        # -- oracle on the implementation
        bad = [b for b in r["builtins"] if b in DENY_BUILTINS or b.startswith(("posix.", "nt.", "os.", "io.", "_io.", "subprocess.", "socket.", "_socket.", "importlib.", "_imp.", "pycall:"))]
        if bad:
            ctx.fail("_eval_const called a function outside its whitelist", case, "arithmetic, safe casts, len/abs/min/max only", bad, key="eval-call:" + bad[0])
        if r["audit"]:
            ctx.fail("_eval_const performed a file / process / import / exec access (audit event)", case, "no audit event", r["audit"], key="eval-audit:" + r["audit"][0][0])
        if os.path.exists(canary):
            os.remove(canary)
            ctx.fail("_eval_const executed a planted expression (canary file created)", case, "canary absent", "created", key="eval-canary")
        if r["res"][0] == "exc" and r["res"][1] not in ("ValueError", "TypeError", "ZeroDivisionError", "OverflowError"):
            ctx.fail(f"_eval_const raised {r['res'][1]}", case, "a value, ValueError, TypeError, ZeroDivisionError (OverflowError for float range)", r["res"], key="eval-exc:" + r["res"][1])
        if r["res"][0] == "ok" and spine_unsupported(src):
            ctx.fail("_eval_const returned a value for an expression whose evaluation necessarily reaches an unsupported node (attribute, subscript, lambda, comprehension, call outside the whitelist, keyword call ...)",
                     case, "ValueError before anything is evaluated", r["res"], key="eval-unsupported")
        unknown = [b for b in r["builtins"] if b not in ALLOW_BUILTINS and b not in bad]
        if unknown:
            ctx.disagree("_eval_const called a builtin the model has no primitive for", case, sorted(ALLOW_BUILTINS), unknown)
        if r["prims"]:
            distinct.add(src + repr(sorted(case["env"].items(), key=str)))
        # -- correspondence
        if m is None:
            continue
        if m == [2]:
            ctx.disagree("wire: the model could not decode the case", case, m, None)
            continue
        mres, mtrace, _, _, _, mexact, _, msites, _ = m
        exact = bool(mexact)
        d = L.cmp_result(mres, r["res"], exact)
        if d is None:
            stats["tie:result-equal"] += 1
        elif d.startswith("skip:"):
            stats["tie:" + d] += 1
        else:
            ctx.disagree("eval_const: " + d, case, mres, r["res"])
        if exact and mres[0] != 9 and not L.shape_flags(src):     # (the wire form drops starred arguments, format specs, ...)
            mt = []
            for p in mtrace:
                if p[0] == 0:
                    mt.append(["arith", OPNAME.get(p[1], "?")])
                elif p[0] == 2:
                    mt.append(["cast", C.wstr(p[1])])
                elif p[0] == 5:
                    mt.append(["abs"])
                elif p[0] == 6:
                    mt.append(["minmax"])
            it = [p for p in r["prims"] if not (p[0] == "arith" and p[1] in ("eq", "ne", "lt", "le", "gt", "ge"))]
            if mt != it:
                ctx.disagree("primitive operations performed: model trace vs recording wrappers in the real evaluator", case, mt, it)
            else:
                stats["tie:trace-equal"] += 1
                for p in mt:
                    stats["prim:" + p[0] + (":" + p[1] if len(p) > 1 else "")] += 1

    # ---------------- 2. the process (observed, support only): hostile scripts, Python sources, noise
    ref_script = HEADER + "y = n + 1\nif n > 1:\n    led.on()\nsleep(10 * 2)\nled3 = Led(int(\"7\"))\nq = max(100, 250)\nr = len(\"abc\")\nled.set_brightness(min(255, 300))\nt = str(12)\n" \
                          "while True:\n    mon.write(len(s))\n    sleep(abs(-100))\n    if bool(1):\n        mon.write(float(2))\n"
    scripts = []
    hx = hostile_exprs(canary)
    pos = POSITIONS
    if not thorough:
        pairs = [(p, h) for p in pos for h in rng.sample(hx, 6)] + [(p, hx[0]) for p in pos] + [(pos[1], h) for h in hx] + [(pos[20], h) for h in hx]
    else:
        pairs = [(p, h) for p in pos for h in hx]
    pairs += [(p, h) for p in POSITIONS_EXTRA for h in (hx if thorough else [hx[0]] + rng.sample(hx, 5))]
    for p, h in pairs:
        scripts.append(("hostile", HEADER + p.replace("{H}", h) + "\n"))
    for t in import_scripts():
        scripts.append(("import-statement", t))
    # every source of a non-ValueError exception of the evaluator, in every position
    ERR_SOURCES = ["1 / 0", "1 // 0", "1 % 0", "0 ** -1", "-'a'", "1 < 'a'", "max(1, 'a')", "min('a', 1)", "1 << -1", "1.5 | 1", "int('x')",
                   "float('x')", "len(5)", "abs('a')", "'a' + 1", "2.0 ** 5000", "int(1e400)", "(1, 2) < (1, 'a')", "f'{1 / 0}'",
                   "[1 / 0]", "1 if 1 / 0 else 2", "0 or 1 / 0", "not (1 < 'a')", "n / 0", "s < 1", "-s", "xs + 1"]
    for p in pos:
        for e in ERR_SOURCES:
            scripts.append(("error-source", HEADER + p.replace("{H}", e) + "\n"))
    gen_srcs = [s for s, _ in L.gen_eval_cases(ctx, 400 if thorough else 120)]
    for i, e in enumerate(gen_srcs):
        scripts.append(("generated-expr", HEADER + pos[i % len(pos)].replace("{H}", e) + "\n"))
    # the regions the repaired findings used to exclude, in every argument position
    for p in pos:
        for e in INF_EXPRS:
            scripts.append(("infinity", HEADER + p.replace("{H}", e) + "\n"))
    deep = deep_exprs()
    for i, e in enumerate(deep):
        for j in range(8 if thorough else 2):
            scripts.append(("deep", HEADER + pos[(i * 7 + j * 11) % len(pos)].replace("{H}", e) + "\n"))
    for p in (pos[1], pos[20], pos[2], pos[5]):
        scripts.append(("deep", HEADER + p.replace("{H}", deep[8]) + "\n"))           # the 3000-term sum of the old witness
    if not blowup_back:
        if thorough:
            bl = [(p, e) for p in pos for e in BLOWUP_EXPRS]
        else:
            bl = [(p, e) for p in pos for e in rng.sample(BLOWUP_EXPRS, 4)] + [(pos[(7 * i + j) % len(pos)], e) for i, e in enumerate(BLOWUP_EXPRS) for j in range(3)]
            bl += [(p, BLOWUP_EXPRS[0]) for p in pos]
        for p, e in bl:
            scripts.append(("blowup", HEADER + p.replace("{H}", e) + "\n"))
        for p in pos[:12] if not thorough else pos:
            for e in GIANT_EXPRS[:8] if not thorough else GIANT_EXPRS:
                scripts.append(("blowup", HEADER + p.replace("{H}", e) + "\n"))
        for t in chain_scripts():
            scripts.append(("chain", HEADER + t))
    seeds = [ref_script] + [s for _, s in scripts[:40]]
    for t in python_sources(rng, 60 if thorough else 25):
        scripts.append(("python-source", t))
    for t in noise_texts(rng, 1500 if thorough else 300, seeds):
        scripts.append(("noise", t))
    res = []
    chunk = 400
    first_ref = None
    # one process per chunk: the reference script is transpiled before and after the hostile stream of the chunk
    for i in range(0, len(scripts), chunk):
        part = [["ref", ref_script]] + [["script", t] for _, t in scripts[i:i + chunk]] + [["ref", ref_script]]
        out = C.run_impl("c11_impl.py", {"cases": part, "limit": 30}, timeout=3600)
        if first_ref is None:
            first_ref = out[0]
            if first_ref.get("cpp_sha", "exc").startswith("exc"):
                ctx.disagree("the reference script is not accepted", ref_script, "accepted", first_ref)
        if out[-1] != out[0] or out[0] != first_ref:
            # which script of the chunk?  the reference script after every script of the chunk, in one new process
            inter = [ref_script]
            for _, t in scripts[i:i + chunk]:
                inter += [t, ref_script]
            so = C.run_impl("c11_impl.py", {"cases": [["session", inter, False]], "limit": 30}, timeout=3600)[0]
            k = next((j for j in range(2, len(so), 2) if (so[j]["sha"], so[j]["exc"]) != (so[0]["sha"], so[0]["exc"])), None)
            pair = None
            if k is not None:
                two = C.run_impl("c11_impl.py", {"cases": [["session", [inter[k - 1], ref_script], False]], "limit": 30})[0]
                if (two[1]["sha"], two[1]["exc"]) != (so[0]["sha"], so[0]["exc"]):
                    pair = [inter[k - 1], ref_script]
            if pair:
                ctx.fail("transpiling one script changes what a later script of the same process is transpiled to (input-independent state mutated): the reference script after it differs from the reference script alone",
                         {"kind": "session", "scripts in one process": pair}, {"second script alone": so[0]}, {"second script after the first": two[1]}, key="state-leak")
            else:
                ctx.fail("transpiling hostile inputs changed the output for an unrelated script (input-independent state mutated)",
                         {"kind": "session", "scripts in one process": inter[:k + 1] if k is not None else [ref_script] + [t for _, t in scripts[i:i + chunk]] + [ref_script]}, out[0], out[-1], key="state-leak")
        res += out[1:-1]
    walls = []
    for (kind, text), r in zip(scripts, res):
        check_script_result(ctx, stats, kind, text, r, canary)
        walls.append(r["wall"])
        if r["exc"] is None and kind == "hostile":
            distinct.add(text)

    depth_thread.join()
    stats.update(depth_stats)
    D.tables_summary(ctx, stats)
    if "err" in depth_box:
        ctx.disagree("the stack-depth stream (harness/c11_depth.py) could not be run", depth_box["err"][:600], None, None)

    # ---------------- 3. 'terminates promptly': the regular expressions of the inventory (model vs re; pump strings), generic
    # long runs in every frame, scale families measured by doubling
    n_extra = depth_box.get("n", 0)
    try:
        inv = Q.load_inventory()
    except Q.RX.Die as e:
        inv = None
        ctx.disagree("the regular-expression inventory could not be rebuilt from the current source (fail-closed)", str(e), None, None)
    import time as _t
    t0 = _t.time()
    if inv is not None:
        n_extra += O.regex_correspondence(ctx, stats, inv, rng, 25 if thorough else 8)
        stats["seconds:regex-correspondence"] = round(_t.time() - t0, 1)
        t0 = _t.time()
        n_extra += O.prompt_streams(ctx, stats, inv, thorough)
        stats["seconds:pump-streams"] = round(_t.time() - t0, 1)
    t0 = _t.time()
    n_extra += O.scale_stream(ctx, stats, thorough)
    stats["seconds:scale-stream"] = round(_t.time() - t0, 1)
    t0 = _t.time()
    # pieces that refer to each other: the function-variant memo (model vs the real _parse_function sequence) and the
    # depth families of helper chains (time by doubling)
    n_extra += O.variant_correspondence(ctx, stats, rng, 2500 if thorough else 500)
    stats["seconds:variant-correspondence"] = round(_t.time() - t0, 1)
    t0 = _t.time()
    n_extra += O.variant_families(ctx, stats, thorough)
    stats["seconds:variant-families"] = round(_t.time() - t0, 1)
    t0 = _t.time()

    # ---------------- 4. 'never mutates its input-independent state': sessions of scripts that share literal texts
    n_extra += O.session_stream(ctx, stats, rng, thorough)
    stats["seconds:session-stream"] = round(_t.time() - t0, 1)

    # ---------------- 4b. the user-facing entry point target(upload=False): scripts that need a library (Servo, both LCD kinds), ones
    # that need none, rejected ones and a sample of the hostile stream (its header declares a parallel LCD) - without and with a
    # `pio` on PATH: no process is started, the outcome is firmware text or ValueError / SyntaxError
    t0 = _t.time()
    hs = [t for k, t in scripts if k == "hostile"]
    hs = [ref_script] + [hs[i] for i in sorted(random.Random(f"C11:target:{ctx.seed}").sample(range(len(hs)), min(len(hs), 400 if thorough else 70)))]
    hs += [HEADER + p.replace("{H}", e) + "\n" for p in POSITIONS if "Servo(" in p or "LCD(" in p for e in ("9", "n + 6", hx[0], hx[1], "1e999", "1 / 0")]
    others = [t for k, t in scripts if k in ("noise", "python-source", "import-statement", "deep", "infinity") and len(t) < 60000]
    hs += random.Random(f"C11:target2:{ctx.seed}").sample(others, min(len(others), 200 if thorough else 40))
    n_extra += O.target_stream(ctx, stats, rng, thorough, hs)
    if os.path.exists(canary):
        os.remove(canary)
        ctx.fail("a planted expression was executed during target(upload=False) (canary file created)", {"kind": "target-stream"}, "canary absent", "canary created", key="canary")
    stats["seconds:target-stream"] = round(_t.time() - t0, 1)

    # ---------------- 5. known findings: every open one is replayed here (the fixed ones were replayed in step 0)
    for f in ctx.findings:
        if f.get("kind") == "fixed":
            continue
        if f.get("id") == "F-C11-blank-run-cubic":
            rows = []
            for n in (10, 400, 800, 1600):
                r = O.alone(HEADER + "led3 = Led(" + " " * n + ")!\n", 60)
                rows.append((n, 60.0 if r["exc"] == "Timeout" else r["wall"]))
            stats["known:F-C11-blank-run-cubic:seconds for 10/400/800/1600 blanks"] = str([w for _, w in rows])
            t10, t400, t800, t1600 = (w for _, w in rows)
            # still fails = the 1.6 kB line needs more than 200 x the short one and more than 24 x the 400-blank one (two doublings:
            # quadratic growth gives 16, cubic 64)
            if t1600 > 200 * max(t10, 0.001) and t1600 > 0.5 and t1600 > 24 * max(t400, 0.001):
                ctx.known(f"F-C11-blank-run-cubic: `led3 = Led(<n blanks>)!` is transpiled in {t400} s, {t800} s, {t1600} s for n = 400, 800, 1600 (x{round(t1600 / max(t800, 1e-3), 1)} per doubling: cubic; {t10} s for 10 blanks)")
            continue
        ctx.disagree("known_findings lists an open finding this check has no replay for", f.get("id"), None, None)
    shutil.rmtree(cdir, ignore_errors=True)

    ctx.coverage.update({
        "evaluations": len(cases) + len(scripts) + n_extra,
        "distinct_nontrivial": len(distinct),
        "rule": "2b (stack over parse() -> emit(); proof tie + oracle): (a) 36 (120) seeded random program trees 6-18 blocks deep over 9 block slots (if / elif / else / while / for / try / except bodies, main loop, function body; 1-3 statements per body) and 61 simple statements, 12 (40) ladders of random slot patterns with side statements, and every simple statement at the bottom of a ladder - the deepest interpreter frame of the real parse() / emit() (sys.setprofile, a process without audit hook) against need_prog of Lang/NestDepth.v with the regenerated constants, then the outcome of the real pipeline (firmware / clean ValueError from parse / internal error in emit / clean ValueError from emit) with exactly `room` frames left (room = parse's need, one less, three more, emit's need, one less; sys.setrecursionlimit relative to the calling frame) against the model's pipeline; (b) 252 (327) ladder families - every slot alone around 4 statements, main loop / function body over every slot, every simple statement under an if-ladder and under a two-slot mixture, all ordered pairs of slots, random 2-5-slot patterns with 1-4 side statements per level, every slot around each of the four statements of the repaired finding F-C11-emit-stack-window - each with 36 (and 61) frames of room: the deepest depth parse() accepts is found by bisection (+ look-ahead for non-monotone acceptance), emit() must end in firmware or ValueError there and on the two ladders below, every rejection must be ValueError; a failing family is carried to the default limit (shallowest failing depth with 48 and 72 frames, extrapolated to 999 = emit(parse(text)) at module level, run once) and that script is the replay; (c) expressions nested 1-45 deep (6 shapes) in 10 statement / header positions inside 26 and 38 nested blocks with 60 frames of room: both stages may only fail with ValueError; (d) ladders of 21 block headers outside the supported subset or in other spellings (with / class / nested and async def / match / for over lists and tuples / range with step / inner while True / walrus / while-else / for-else / try-finally / try-else / except-as / elif chains / multi-line and commented headers / lambda bodies) and of tab / two-blank indentation, at 19 depths around the acceptance boundary with 40 frames of room: both stages may only end cleanly. Non-trivial here = every tree / ladder at least 6 blocks deep. 0: the witnesses of the repaired findings (for F-C11-emit-stack-window: the deepest if-ladder around rgb.off() parse() accepts with 80 frames left, and the two below; thorough: the 994- and 993-level scripts under the default recursion limit). 1 (proof tie): the C03 expression stream (boundary expressions x environments incl. the values around the size bound + seeded random expressions) plus hostile expression forms, plus towers / giant shifts / wide products and seeded random integer expressions with exponents and shift counts around and beyond the size bound (size oracle max(bound, widest leaf) + nodes on every call-free result), each through the extracted instrumented model (result, primitive trace) and the real _eval_const under recording wrappers (operator module alias, _SAFE_CASTS values, max/min/abs in the parser's namespace) with sys.setprofile / sys.addaudithook; non-trivial = distinct (expression, environment) on which the real evaluator performed at least one primitive operation. 2 (observed, support): hostile expression forms (file / process / import / eval / attribute / lambda / comprehension / walrus / f-string payloads writing a canary file) in every argument position of the property's quantifier (pins, delays, conditions, loop bounds, list items, f-strings, decorators, defaults, device constructor keywords, expression statements), generated expressions in the same positions, real Python sources (the project's own files and standard-library modules), byte noise / shuffled / truncated / corrupted scripts, plus the formerly excluded regions (infinity / NaN / beyond-float-range values x every position incl. all int()/float() resolver sites, towers-shifts-products x positions, multi-line squaring chains, expressions 150..20000 levels deep x positions) - each through the real parse()+emit() with audit hook, canary check, exception kind and a 30 s limit; non-trivial = distinct hostile script that was accepted (firmware produced) - the ones where evaluating the payload would have been possible. 3 (promptness): the regenerated regex inventory - (a) model vs re.fullmatch on the minimal text of each pattern, its pumps and seeded edits of them; (b) pump scripts: for every unbounded repeat of every pattern x up to three feeds (characters of its set / the group's text / the inner set of a nested repeat) x continuations (the rest of the pattern, cut after the run, + one of ! ( [0] ' + 1' \\x01) at 28 characters (every place a line can stand: top level, while / if / else / for / def / try bodies, right-hand side; argument positions incl. quoted pin strings for the patterns applied to arguments) and at 1200 (quick) / 400, 1500, 6000 (thorough) characters, white-space runs cut to the guard; (c) 28 run alphabets x 41 statement frames (target(<run>()), h = target(<run>[0]), names, conditions, decorators, imports, except clauses ...) at 40 and 1500 characters; (d) 23 scale families (many lines / long lines / CRLF) at 250 .. 2000 (8000) by doubling. A script is slow when it needs more than max(5 s, 200 x the median of its stream) twice, the second time alone in a new process; the replay carries the series over growing runs. (e) pieces that refer to each other: 36 fixed helper chains + seeded random scripts of 1..7 defs (return sums of parameters, literals of the four type labels and calls of earlier / later / the same function with parameters or literals as arguments, arity 1..3) with top-level calls between and after the defs, through Lang/VariantCost.v (extracted) and the real parser under a wrapper around _parse_function: the ordered sequence (function, forced signature) must be equal, and no pair may occur twice; 37 depth families of helpers calling each other (see technique) at depth 3, 6, 12, 24 (thorough: .. 96): a family is not prompt when the time more than quintuples over each of the last two doublings AND exceeds 200 x (its own time at depth 3, at most the median family, at least 5 ms) x depth / 3, twice (the second time alone in a new process); the replay carries the series with the body-parse and block-parse counts. 4 (state): sessions - per literal text (lists with duplicates, nested, computed, tuples, strings, numbers) reader scripts (len, flash_pattern, glyph, index, loop bound, f-string) and mutator scripts (append / remove / += / item store / rebinding / aliases / inside if-while-for-def, under another variable name), transpiled in ONE process as readers, mutators, readers, shuffled mutators, mutators again, readers - every output must equal the script's output alone in a new process (sha256 / exception kind); on a difference every earlier script is tried as single predecessor: the replay is the two-script session; module-level objects of the three modules are digested before / after every parse (a change breaks the tie of Lang/FoldSession.v); random sessions of the model fragment through the extracted model vs the folded values read off the firmware. 4a (specially treated names): every binding form (22: def with 0-2 parameters / in the main loop / nested / under if, assignment, sensor value, loop variable, parameter, default, tuple target, global, import-as, from-import-as, class, try, +=, del, list, lambda, with-as, decorator) of each of the eight names of the evaluator's whitelist (len abs max min int float bool str) and of 14 API names (sleep range Led LCD SerialMonitor print target led mon Servo map millis OUTPUT pin_mode) as one script - accepted or rejected - and DIRECTLY after it, in the same process, scripts that fold that builtin on literals in pins / delays / device arguments / global initialisers / conditions / list items / f-strings / loop bounds / function bodies / the main loop and one script folding all eight: each must equal that script alone in a new process (the replay is the pair); random sessions of top-level defs named len / str / helper and len(<string literal>) initialisers through Lang/NameSession.v (extracted, mode = what the regenerated inventory allows) vs which initialisers are folded in the firmware; the reference script around every chunk of the hostile stream folds all eight builtins, and a difference is narrowed to the two-script session. 4b (the user-facing entry point): Reduino.target(\"COM3\", upload=False) with the text as the __main__ file, PATH = one directory that is empty / holds an executable pio that records being started, temporary files inside a scratch directory: 18 bodies that need a library (Servo / parallel LCD / I2C LCD: declared only, used, in while / if / for / try / def bodies, several, with keywords) x 2 (4) target lines, 13 bodies that need none, 8 rejected ones, 70 (400) scripts of the hostile stream (their header declares a parallel LCD) and every Servo / LCD constructor position with benign and hostile arguments - no process-start / network audit event (subprocess.Popen, os.system / exec / posix_spawn / spawn / fork, socket.*, urllib / http ...), the recording pio not run, outcome = firmware text or ValueError / SyntaxError.",
        "samples": [{"expr": hostile[0][0]}, {"script": scripts[0][1][len(HEADER):]}, {"script": scripts[len(pairs) // 2][1][len(HEADER):]}],
        "distribution": dict(sorted(stats.items())),
        "max_wall_s_per_script": max(walls) if walls else 0,
        "guard": "F-C11-emit-stack-window is repaired: no guard - rgb.on() / rgb.off() / motor.backward() / motor.invert() are generated in the correspondence (2b a) and in the boundary oracle (2b b: every slot around each of them, plus side statements); leading indentation (one blank per level, stripped before any pattern is applied) is not a white-space run in the sense of the next guard. F-C11-blank-run-cubic: no generated line holds a run of more than 100 white-space characters (longer white-space pumps are cut to 100). The regions the three repaired findings used to exclude are generated (towers / giant shifts / wide products as expressions, in every argument position and as multi-line chains; infinities, NaN and integers beyond the float range in every numeric argument; expressions of 150 .. 20000 levels); C11_fold_bits_bounded carries the modelling guard arith_only (no calls), the implementation-side size oracle covers every call-free expression",
        "fixed_findings_replayed": sorted(list(FIXED_WITNESS) + ["F-C11-emit-stack-window"]),
        "regressed": sorted(regressed),
        "max_const_bits": max_bits,
        "unmodelled": ["the Python process executing parser.py / emitter.py (string building, the hand-written scanners): observed by audit hook + canaries + exception kinds + timing, support only - not proved; of the regex engine only the number of backtracking paths of the textbook search is modelled (sets restricted to ASCII + a flag, anchors and the one-character look-behind as empty matches) - the engine's own optimisations, its cost per path and non-regex loops are measured (pumps, scale families), not proved",
                       "of the def / call machinery only the memo in front of _parse_function and the one-return-sum fragment are modelled (the number of body parses is the cost; the cost of one body parse, statements other than return, annotations, redefinition of a name, keyword / default arguments, list-typed parameters are measured by the depth families, not proved)", "[paths] counts the successes of a (sub)pattern; the theorem bounds every flat sub-pattern, the total work of a failing match is a sum of such counts over prefixes (not stated as one theorem)",
                       "CPython's int->str digit limit; the C-level recursion limit of ast.parse (deep EXPRESSIONS: observed on the deep stream and in 2b c, not modelled); of the Python-level recursion limit the frames per block slot / header / simple statement are modelled with measured constants for 61 statement shapes (other statements: boundary oracle only); parse() may accept with fewer frames than its deepest frame when a RecursionError is swallowed by a try / except Exception inside a statement recogniser (counted in distribution) - the model's acceptance need <= room is a lower bound of the real one, the boundary oracle searches the real one; time of deep ladders (text quadratic, parse time cubic in the depth: 48 s at 990 levels) is not judged; `room` is the number of frames left when a stage is entered: a caller with no frame left at all cannot call parse() / emit() (the RecursionError is then raised in the caller's own frame, not by the transpiler) - rooms below the prelude's need only occur in the model; the MemoryError half of the two wrappers is not exercised", "IEEE infinities / NaN and the binary64 range (the model's floats are exact rationals): int(inf) / float(<huge int>) at the folding call sites fall back to the run-time expression - observed on the infinity stream in every numeric position, not modelled", "growth of folded strings across lines (s = s + s repeated: 2^n characters after n lines; ends in a caught MemoryError and the run-time expression, about 10 s under an 8 GB limit) - outside the three repaired findings, not generated", "target(): reading the __main__ file and writing the PlatformIO project into a temporary directory are what target(upload=False) is for (C12 judges them) - stream 4b judges process starts / network access / the outcome kind only; upload=True is C12's", "ast.literal_eval fallbacks (flash_pattern, ultrasonic model): exercised by the hostile scripts, not modelled",
                       "environment reads (os.environ) have no audit event: only the canary / builtins profile would show them inside _eval_const"],
        "trusted_base": C.COMMON_TRUSTED + ["harness/gen/safecasts.py (operator / cast / safe-name tables of parser.py)", "harness/gen/regexes.py (walks the ast of parser.py / emitter.py / ast.py / __init__.py / pio.py for re.* calls, evaluates the pattern expressions, cross-checks with the compiled module-level objects, lowers CPython's re._parser parse; fail-closed)", "harness/gen/setsites.py (module-level state inventory, shared with C10)", "harness/gen/nestdepth.py + harness/c11_nest.py (sys.setprofile frame counting of the real parse() / emit() on ladders, linear fit re-checked on six further ladders, fail-closed; sys.setrecursionlimit relative to the calling frame as the definition of `room`)", "the recording wrappers around parser._parse_function / _parse_simple_lines (module attributes, resolved at call time) as the observation of body parses", "wall-clock time of the implementation runner as the observation of 'promptly' (relative to the median of the same stream, confirmed in a second process)",
                                            "CPython audit events and sys.setprofile c_call events as the observation of 'access' and 'call' (support part)"],
        "support_only": "part 2 (process-level behaviour on arbitrary texts) is observation, not proof",
    })
    ctx.assumptions += ["CPython raises the audit events open/exec/import/os.*/subprocess.*/socket.* for the corresponding accesses",
                        "the recording wrappers see every call the evaluator makes through its module-level names (op, _SAFE_CASTS, max, min, abs)"]
    return ctx


def replay(data):
    case = data.get("case") or {}
    kind = case.get("kind") if isinstance(case, dict) else None
    if kind in ("nesting-ladder-default-limit", "nesting-ladder", "stack-room", "expr-in-ladder") and "text" in case:
        text = case["text"] if case["text"].startswith("from ") else D.N.HEAD + case["text"]
        room = int(case.get("room", D.DEFAULT_ROOM))
        r = C.run_impl(D.IMPL, {"cases": [["run", text, room]]}, timeout=1800)[0]
        print(f"real pipeline with {room} interpreter frames left for each stage" + (" (= emit(parse(text)) at module level, default recursion limit)" if room == D.DEFAULT_ROOM else "") + ":",
              "parse", r["parse"] or "accepts", "/ emit", (r["emit"] or "ok") if r["parse"] is None else "-")
        bad = r["parse"] not in (None, "ValueError", "SyntaxError") or r["emit"] not in (None, "ValueError", "SyntaxError")
        print("still failing" if bad else "no longer failing")
        return 1 if bad else 0
    if kind == "session":
        scripts = case["scripts in one process"]
        alone = C.run_impl("c11_impl.py", {"cases": [["session", [scripts[-1]], False]], "limit": 30})[0][0]
        together = C.run_impl("c11_impl.py", {"cases": [["session", scripts, False]], "limit": 30})[0]
        print("last script alone:", {k: alone[k] for k in ("sha", "exc")})
        print("last script after the others, same process:", {k: together[-1][k] for k in ("sha", "exc")}, "module-level objects changed:", [r["changed"] for r in together])
        bad = (alone["sha"], alone["exc"]) != (together[-1]["sha"], together[-1]["exc"])
        print("still failing" if bad else "no longer failing")
        return 1 if bad else 0
    if kind == "target":
        scratch = str(C.BUILD / "c11_target_replay")
        r = C.run_impl("c11_impl.py", {"cases": [["target", case["text"], case.get("pio", "absent"), scratch]], "limit": 30})[0]
        shutil.rmtree(scratch, ignore_errors=True)
        print(f"real Reduino.target(\"COM3\", upload=False) with the text as the __main__ file, PATH = one directory ({'an executable pio that records its start' if case.get('pio') == 'fake' else 'empty: no pio'}):")
        print("  outcome:", r["exc"] or "returned " + str(r["returned"]), "-", r["msg"] or "", "| parse()+emit() alone:", r["alone"] or "accepted")
        print("  process / network audit events:", r["proc"], "| pio was run with:", r["pio_ran"])
        bad = bool(r["proc"]) or bool(r["pio_ran"]) or r["exc"] not in CLEAN or (r["exc"] is None and r["returned"] != "str")
        print("still failing" if bad else "no longer failing")
        return 1 if bad else 0
    if kind == "call-graph":
        fam = O.V.families().get(case.get("family"))
        r = O.variants_alone(case["text"], 60)
        base = O.variants_alone(fam(3), 60) if fam else O.variants_alone(Q.PUMP_HEADER + "led.on()\n", 60)
        budget = O.SLOW_REL * max(O.VAR_FLOOR, base["wall"]) * max(1, case.get("depth", 3)) / 3
        print("real parse()+emit():", {k: r[k] for k in ("exc", "wall", "n_parses", "n_blocks")}, "- the same family at depth 3:", {k: base[k] for k in ("exc", "wall", "n_parses")}, "budget", round(budget, 2), "s")
        bad = r["exc"] == "Timeout" or r["wall"] > budget or r["exc"] not in CLEAN or bool(r["audit"])
        print("still failing" if bad else "no longer failing")
        return 1 if bad else 0
    if kind and (kind.startswith(("regex-pump", "generic-run")) or kind == "scale") and "text" in case and not case["text"].endswith("...<cut>"):
        r = O.alone(case["text"], 30)
        ref = O.alone(Q.PUMP_HEADER + "led.on()\n", 30)
        print("real parse()+emit():", r, "- a one-line reference script:", ref)
        bad = r["exc"] == "Timeout" or r["wall"] > max(O.SLOW_ABS, O.SLOW_REL * ref["wall"]) or r["exc"] not in CLEAN or bool(r["audit"])
        print("still failing" if bad else "no longer failing")
        return 1 if bad else 0
    if str(data.get("key", "")).startswith("env-read") and isinstance(case, dict) and "text" in case and not case["text"].endswith("...<cut>"):
        r = C.run_impl("c11_impl.py", {"cases": [["script", case["text"]]], "limit": 30})[0]
        print("real parse()+emit():", r)
        bad = bool(r.get("env")) or r["exc"] not in CLEAN or bool(r["audit"])
        print("still failing" if bad else "no longer failing")
        return 1 if bad else 0
    from harness.props.c03_replay import replay_c11
    return replay_c11(data)
