"""C12 - target(): validate first, transpile faithfully, upload only on request."""
from __future__ import annotations

import itertools
import json
from concurrent.futures import ThreadPoolExecutor

from harness import common as C

META = {
    "id": "C12",
    "technique": "Coq proof over every well-formed statement shape of target() (induction over the shape checker; all fault vectors, all ways the PlatformIO probe can fail, all argument/environment combinations) + concrete layer tying the written platformio.ini to C13's verified render/configparser round trip + translator that re-reads the statement sequence of target(), the except clauses of ensure_pio() and the subprocess calls of compile_upload() from the current source (coq/Gen/TargetShape.v, obligation C12_current_shape_ok) + exhaustive effect-trace correspondence of the extracted model with the real target()/pio.py under a recording subprocess/tempfile/pathlib + property oracle on the recorded effects and the files on disk",
    "level_text": "Theorems C12_* (coq/Props/C12.v) are proved for every statement list accepted by the decidable predicate shape_ok and every environment (validation verdict, upload flag, PlatformIO usable or failing its probe in any of five ways, all 2^10 fault vectors including a pio that can no longer be started at the build / upload); C12_current_shape_ok re-checks on every run that the statement sequence the translator reads from src/Reduino/__init__.py is such a list. The per-step effect semantics (ensure_pio, write_project, compile_upload) is a hand model compared event by event with the real code on all scenarios of the run.",
    "level_note": "Trusted: Coq kernel, translator harness/gen/target.py (ast of target(), fail-closed), extraction (ExtrOcamlBasic), OCaml driver, the recording doubles of subprocess.run/tempfile.mkdtemp/pathlib.Path in harness/impl/c12_impl.py. PlatformIO itself is not modelled (a usable pio answers 0 unless a fault is injected; an unusable one raises FileNotFoundError / PermissionError / OSError(ENOEXEC) / NotADirectoryError or exits non-zero). The platform default text encoding is a scenario parameter emulated by the recorder. The theorems are about the model; the correspondence bounds its distance from the code.",
    "design_ref": "DESIGN.md section 4 C12",
}

LED = ("from Reduino import target\nfrom Reduino.Actuators import Led\nfrom Reduino.Utils import sleep\n"
       "target(\"COM3\", upload=False)\nled = Led(13)\nwhile True:\n    led.toggle()\n    sleep(500)\n")
SERVO_LCD = ("from Reduino import target\nfrom Reduino.Actuators import Servo\nfrom Reduino.Displays import LCD\n"
             "target(\"COM3\")\ns = Servo(9)\nlcd = LCD(rs=12, en=11, d4=5, d5=4, d6=3, d7=2)\ns.write(90)\n"
             "lcd.write(0, 0, \"hi\")\n")
SERVO_I2C = ("from Reduino import target\nfrom Reduino.Actuators import Servo\nfrom Reduino.Displays import LCD\n"
             "target(\"COM3\")\npanel = LCD(i2c_addr=0x27, cols=20, rows=4)\na = Servo(9)\nb = Servo(10)\n"
             "while True:\n    a.write(10)\n    b.write(170)\n")
LCD_BOTH = ("from Reduino import target\nfrom Reduino.Displays import LCD\n"
            "target(\"COM3\")\nlcd = LCD(rs=12, en=11, d4=5, d5=4, d6=3, d7=2)\npanel = LCD(i2c_addr=0x27, cols=20, rows=4)\n"
            "lcd.write(0, 0, \"hi\")\npanel.write(0, 0, \"ho\")\n")
ALL_LIBS = ("from Reduino import target\nfrom Reduino.Actuators import Servo\nfrom Reduino.Displays import LCD\n"
            "target(\"COM3\")\npanel = LCD(i2c_addr=0x3F)\ns = Servo(9)\nlcd = LCD(rs=12, en=11, d4=5, d5=4, d6=3, d7=2)\n"
            "while True:\n    s.write(45)\n")
# script name -> (text, libraries it needs, parses)
SCRIPTS = {
    "lcd_both": (LCD_BOTH, ["LiquidCrystal", "LiquidCrystal_I2C"], True),
    "all_libs": (ALL_LIBS, ["Servo", "LiquidCrystal", "LiquidCrystal_I2C"], True),
    "led": (LED, [], True),
    "empty": ("", [], True),
    "servo_lcd": (SERVO_LCD, ["Servo", "LiquidCrystal"], True),
    "servo_i2c": (SERVO_I2C, ["Servo", "LiquidCrystal_I2C"], True),
    "unicode": ("# é ü √ 漢字\nfrom Reduino.Actuators import Led\nled = Led(5)\nled.on()\n", [], True),
    "bad_parse": ("from Reduino.Actuators import Led\nx = lambda: 1\nled = Led(3)\n", None, False),
    # firmware text with characters outside ASCII / Latin-1 (the project file must still be that text)
    "unicode_out": ("from Reduino.Communication import SerialMonitor\nmon = SerialMonitor(9600)\n"
                    "mon.write(\"h\u00e9llo \u2713 \u6f22\")\n", [], True),
}
PRODUCT_SCRIPTS = [k for k in SCRIPTS if k != "unicode_out"]
FAULTS = ["readmain", "mkdtemp", "mkdir", "writemain", "writeini", "build", "upload"]     # injectable
MODEL_FAULT_ORDER = ["readmain", "parse", "mkdtemp", "mkdir", "writemain", "writeini", "build", "upload",
                     "buildexec", "uploadexec"]
# scenario key "pio": True/"ok" usable; the rest are the ways PlatformIO discovery fails
PIO_HOW = {"absent": 0, "noexec": 1, "badformat": 2, "notdir": 3, "exit": 4}
EXEC_FAIL_STATES = ("absent", "noexec", "badformat", "notdir")     # pio cannot be started at all
XKINDS = ["absent", "noexec", "badformat", "notdir"]
FKINDS = ["perm", "nospc", "notfound", "rofs"]          # which OSError an injected file-system failure is
# ports inside the guard of C13's round trip (no line break, no blank padding): device paths, URLs,
# blanks inside, INI delimiters / comment characters / brackets / %, empty, non-ASCII
PORTS_MORE = ["/dev/cu.usbmodem14201", "COM12", "/dev/tty.usbserial A9", "rfc2217://192.168.0.7:4000", "socket://host:23",
              "/dev/serial/by-id/usb-Arduino__www.arduino.cc__0043-if00", "a=b:c", "x;y #z", "[COM3]", "100%", "${sysenv.PORT}",
              "\u30dd\u30fc\u30c8/\u00fc", "COM3 ; trailing", "-p"]
UNICODE_PORT = "\u30dd\u30fc\u30c8/\u00fc"
LOCALES = ["cp1252", "ascii", "utf-16", "latin-1"]
PAIRS = [("atmelavr", "uno"), ("atmelmegaavr", "nano_every"),
         ("espressif32", "uno"), ("atmelavr", "not_a_board"), ("atmelavr", "nano_every"), ("atmelmegaavr", "uno")]
EXTRA_PAIRS = [("", "uno"), ("atmelavr", ""), ("ATMELAVR", "uno"), ("atmelavr", "Uno"), ("uno", "atmelavr")]
PORTS = ["/dev/ttyUSB0", "COM7"]
# exit status of a failing PlatformIO run (negative = killed by a signal, as subprocess reports it on POSIX)
FAIL_RCS = [1, -9, 2, 127, -15]

EV_NAMES = {0: "RunPioVersion", 1: "ReadMain", 2: "Parse", 3: "Emit", 4: "Mkdtemp", 5: "Mkdir",
            6: "WriteMain", 7: "WriteIni", 8: "RunBuild", 9: "RunUpload"}
VAL_NAMES = {0: "port", 1: "platform", 2: "board", 3: "src", 4: "prog", 5: "libs", 6: "cpp", 7: "tmp", 8: "none", 9: "omitted"}
KIND_NAMES = {1: "ValueError", 2: "RuntimeError", 3: "CalledProcessError", 4: "OSError"}
WRITE_TAGS = {"Mkdtemp", "Mkdir", "MkdirOther", "WriteMain", "WriteIni", "WriteOther"}
RUN_TAGS = {"RunPioVersion", "RunBuild", "RunUpload", "RunOther"}
TOOL_TAGS = {"RunBuild", "RunUpload", "RunOther"}


# --------------------------------------------------------------------------- scenarios
def fault_vectors(thorough: bool):
    """thorough: all 2^7 subsets of the injectable fault points; quick: all subsets of size <= 2,
    a few triples and the full set (smallest first, so the first failure reported is the simplest)"""
    if thorough:
        out = [list(c) for n in range(len(FAULTS) + 1) for c in itertools.combinations(FAULTS, n)]
        # ... and every vector of size <= 3 over all nine points that has pio not startable at the build / upload
        allf = FAULTS + ["buildexec", "uploadexec"]
        out += [list(c) for n in range(1, 4) for c in itertools.combinations(allf, n) if "buildexec" in c or "uploadexec" in c]
        return out
    out = [list(c) for n in range(3) for c in itertools.combinations(FAULTS, n)]
    out += [["readmain", "mkdtemp", "build"], ["mkdir", "writeini", "upload"], ["writemain", "build", "upload"], list(FAULTS)]
    return out


def scenarios(thorough: bool, more_valid=()):
    out = []
    pairs = list(dict.fromkeys(PAIRS + list(more_valid) + (EXTRA_PAIRS if thorough else EXTRA_PAIRS[:2])))
    for i, fv in enumerate(fault_vectors(thorough)):
        for j, script in enumerate(PRODUCT_SCRIPTS):
            for k, (pl, b) in enumerate(pairs):
                for upload in (False, True):
                    for pio in (False, True):
                        out.append({"script": script, "port": PORTS[(i + j + k) % 2], "platform": pl, "board": b,
                                    "upload": upload, "pio": pio, "faults": list(fv),
                                    "rc": FAIL_RCS[(i + 2 * j + k + int(upload)) % len(FAIL_RCS)],
                                    "fkind": FKINDS[(i + j + 3 * k) % len(FKINDS)]})
    return out


def pio_state(v):
    if v is True:
        return "ok"
    if v is False or v is None:
        return "absent"
    return str(v)


def extra_scenarios(thorough, plats, rng):
    """The streams beyond the fault-vector product (each names the part of the quantifier it covers)."""
    out = []
    valid2 = [("atmelavr", "uno"), ("atmelmegaavr", "nano_every")]
    n = [0]

    def add(stream, **kw):
        sc = {"script": "led", "port": PORTS[n[0] % 2], "platform": "atmelavr", "board": "uno", "upload": True, "pio": True,
              "faults": [], "rc": FAIL_RCS[n[0] % len(FAIL_RCS)], "xkind": XKINDS[n[0] % len(XKINDS)], "fkind": FKINDS[(n[0] // 3) % len(FKINDS)], "stream": stream}
        sc.update(kw)
        n[0] += 1
        out.append(sc)

    # (A) every way PlatformIO discovery can fail x upload x script x pair x single file faults
    file_faults = [[]] + [[f] for f in ("readmain", "mkdtemp", "mkdir", "writemain", "writeini", "build", "upload")]
    for state in ("noexec", "badformat", "notdir", "exit", "absent"):
        for script in ("led", "servo_lcd", "bad_parse", "empty"):
            for pl, b in valid2 + [("atmelavr", "nano_every"), ("espressif32", "uno")]:
                for upload in (True, False):
                    for fv in (file_faults if thorough or script == "led" else file_faults[:2]):
                        add("discovery", pio=state, script=script, platform=pl, board=b, upload=upload, faults=list(fv))
    # (B) pio usable at the probe, not startable (or failing) at the build / upload
    tool = ["buildexec", "uploadexec", "build", "upload"]
    tool_sets = [list(c) for k in range(1, 5) for c in itertools.combinations(tool, k) if "buildexec" in c or "uploadexec" in c]
    for ts in tool_sets:
        for extra in ([], ["writeini"], ["mkdir"], ["readmain"]):
            for script in ("led", "all_libs", "bad_parse"):
                for pl, b in valid2:
                    for upload in (True, False):
                        for state in (True, "exit") if thorough else (True,):
                            add("tool-start", script=script, platform=pl, board=b, upload=upload, pio=state, faults=extra + ts)
    # ... and each way a start can fail, at the build alone and at the upload alone
    for xk in XKINDS:
        for ts in (["buildexec"], ["uploadexec"], ["buildexec", "uploadexec"]):
            for upload in (True, False):
                add("tool-start", faults=list(ts), xkind=xk, upload=upload, script="servo_i2c")
    # (C) every (platform, board) pair of the registry (identifiers with '-', upper case, digits, '_')
    allpairs = [(pl, b) for pl in sorted(plats) for b in sorted(plats[pl])]
    scripts3 = ["servo_lcd", "led", "all_libs"]
    for i, (pl, b) in enumerate(allpairs):
        word = all(c.isascii() and (c.isalnum() or c == "_") for c in b)
        add("registry", script=scripts3[i % 3], platform=pl, board=b, upload=False, pio=False)
        if thorough or not word:
            add("registry", script=scripts3[(i + 1) % 3], platform=pl, board=b, upload=True, pio=True)
            add("registry", script="led", platform=pl, board=b, upload=True, pio=True, faults=["upload"])
    # every registered board with every OTHER platform name is a mismatch
    for i, (pl, b) in enumerate(allpairs):
        if thorough or i % 7 == 0:
            for other in sorted(plats):
                if other != pl:
                    add("registry-mismatch", platform=other, board=b, upload=bool(i % 2), pio=bool(i % 3))
    # near misses of registered names: the sanitised twin of a board that is not its own environment name, case and blank variants
    near = [("atmelavr", "".join(c if (c.isalnum() or c == "_") else "_" for c in b)) for _, b in allpairs
            if not all(c.isalnum() or c == "_" for c in b)]
    near += [("atmelavr", "UNO"), ("atmelavr", " uno"), ("atmelavr", "uno "), ("atmelavr ", "uno"), ("Atmelavr", "uno"),
             ("atmelavr", "uno\n"), ("atmelmegaavr", "Nano_Every"), ("atmelavr", "digispark tiny"), ("atmelavr", "digispark--tiny")]
    for i, (pl, b) in enumerate(near):
        add("near-miss", platform=pl, board=b, upload=bool(i % 2), pio=bool(i % 3), script=scripts3[i % 3])
    # (D) ports
    odd = [p for p in allpairs if not all(c.isalnum() or c == "_" for c in p[1])]
    for i, port in enumerate(PORTS_MORE):
        for j, (pl, b) in enumerate(valid2 + odd[:2] + ([odd[-1]] if odd else [])):
            add("ports", port=port, script=scripts3[(i + j) % 3], platform=pl, board=b, upload=bool((i + j) % 2), pio=True)
    # (E) platform default text encoding other than UTF-8; firmware with non-ASCII text
    for loc in ["utf-8"] + LOCALES:
        for script in ("unicode_out", "unicode", "led"):
            for upload in (False, True):
                add("locale", locale=loc, script=script, upload=upload, pio=True)
                add("locale", locale=loc, script=script, upload=upload, pio=True, port=UNICODE_PORT,
                    platform="atmelavr", board=(odd[0][1] if odd else "uno"))
    # (F) seeded random mixtures of all of the above
    states = [True, True, True, False, "noexec", "badformat", "notdir", "exit"]
    allf = FAULTS + ["buildexec", "uploadexec"]
    for _ in range(6000 if thorough else 600):
        pl, b = rng.choice(allpairs) if rng.random() < 0.8 else rng.choice(PAIRS + EXTRA_PAIRS)
        if rng.random() < 0.25 and odd:
            pl, b = rng.choice(odd)
        add("random", script=rng.choice(list(SCRIPTS)), port=rng.choice(PORTS + PORTS_MORE), platform=pl, board=b,
            upload=rng.random() < 0.6, pio=rng.choice(states),
            faults=sorted(rng.sample(allf, rng.choice([0, 0, 1, 1, 2, 3]))),
            locale=rng.choice(["utf-8", "utf-8", "utf-8"] + LOCALES))
    return out


def sc_key(sc):
    return (sc["script"], sc["port"], sc["platform"], sc["board"], sc["upload"], pio_state(sc["pio"]), tuple(sc["faults"]),
            sc.get("locale") or "utf-8", sc.get("rc"), sc.get("xkind"), sc.get("fkind"))


def model_case(sc, expected=None):
    fl = set(sc["faults"])
    if not SCRIPTS[sc["script"]][2]:
        fl.add("parse")
    state = pio_state(sc["pio"])
    if state in EXEC_FAIL_STATES:
        # a pio that cannot be started cannot be started at the build / upload either
        fl |= {"buildexec", "uploadexec"}
    libs = ((expected or {}).get(sc["script"]) or {}).get("libs") or []
    return [0, sc["port"], sc["platform"], sc["board"], bool(sc["upload"]), state == "ok",
            [f in fl for f in MODEL_FAULT_ORDER], PIO_HOW.get(state, 0), list(libs)]


def decode_model(m):
    """model wire output -> (events, result) in the implementation runner's vocabulary"""
    if not (isinstance(m, list) and len(m) == 4 and m[0] == 0):
        return None
    evs = []
    for e in m[1]:
        name = EV_NAMES[e[0]]
        evs.append([name] + [VAL_NAMES[v] for v in e[1:]])
    r = m[2]
    if r[0] == 0:
        res = ["returned", VAL_NAMES[r[1]]]
    elif r[0] == 1:
        res = ["raised", KIND_NAMES[r[1]]]
    else:
        res = ["returned", "none"]
    return evs, res, [C.wstr(t) for t in m[3]]


def run_impl_cases(cases, workers=8):
    scripts = {k: v[0] for k, v in SCRIPTS.items()}
    if not cases:
        return {}, []
    n = max(1, min(workers, C.NPROC, (len(cases) + 199) // 200))
    size = (len(cases) + n - 1) // n
    chunks = [cases[i:i + size] for i in range(0, len(cases), size)]
    with ThreadPoolExecutor(max_workers=n) as ex:
        outs = list(ex.map(lambda ch: C.run_impl("c12_impl.py", {"scripts": scripts, "cases": ch}, timeout=850), chunks))
    results = [r for o in outs for r in o["results"]]
    return outs[0]["expected"], results


# --------------------------------------------------------------------------- property oracle
PIO_WORDS = {"ok": "present", "absent": "absent", "noexec": "on PATH without execute permission (PermissionError)",
             "badformat": "on PATH but no executable format (OSError ENOEXEC)",
             "notdir": "behind a PATH component that is a file (NotADirectoryError)",
             "exit": "present but `pio --version` exits non-zero"}


def oracle(sc, r, valid, expected, partner=None):
    """The C12 clauses evaluated on one recorded run of the real target().
    Returns a list of (key, what, expected, observed)."""
    out = []
    evs = r["events"]
    names = [e[0] for e in evs]
    res = r["result"]
    faults = set(sc["faults"])
    _, needs, parses = SCRIPTS[sc["script"]]
    state = pio_state(sc["pio"])
    loc = sc.get("locale") or "utf-8"
    call = (f"target({sc['port']!r}, upload={sc['upload']}, platform={sc['platform']!r}, board={sc['board']!r}) "
            f"[script={sc['script']}, pio {PIO_WORDS[state]}, faults={sorted(faults) or 'none'}"
            + (f", platform default encoding {loc}" if loc != "utf-8" else "") + "]")
    raised = res[0] == "raised"
    wrote = [n for n in names if n in WRITE_TAGS] or r["tree"]
    if res[0] == "unsupported":
        return out  # reported as a broken tie by the caller, not as a property failure

    # (1) unsupported / mismatched pair: ValueError before anything is written or executed
    if not valid:
        if not (raised and res[1] == "ValueError"):
            out.append(("validate-first", f"{call}: invalid pair not rejected with ValueError", "raises ValueError", res))
        if wrote or any(n in RUN_TAGS for n in names):
            out.append(("validate-first", f"{call}: something was written or executed before the pair was rejected",
                        "no write, no process", {"events": evs, "tree": r["tree"]}))
        return out

    # (2) upload requested, PlatformIO discovery fails (in whichever way): RuntimeError before anything is written
    if sc["upload"] and state != "ok":
        if wrote or any(n in ("RunBuild", "RunUpload") for n in names):
            out.append(("missing-pio", f"{call}: files/directories created although PlatformIO is missing",
                        "RuntimeError before anything is written", {"events": evs, "tree": r["tree"]}))
        if "readmain" not in faults and parses and not (raised and res[1] == "RuntimeError"):
            out.append(("missing-pio", f"{call}: missing PlatformIO with upload=True is not a RuntimeError", "raises RuntimeError",
                        res))

    # (3) build / upload only on request
    if not sc["upload"]:
        if any(n in TOOL_TAGS for n in names):
            out.append(("upload-iff", f"{call}: PlatformIO was run although upload=False", "no pio run", evs))
        if partner is not None and state != "ok":
            def view(x):
                return {"result": x["result"][:2], "effects": [e for e in x["events"] if e[0] not in RUN_TAGS],
                        "main": x["disk"].get("main_sha"), "ini": x["disk"].get("ini_fields")}
            a, b = view(r), view(partner)
            if a != b:
                out.append(("transpile-only-needs-pio",
                            f"{call}: transpile-only use behaves differently without PlatformIO than with it",
                            {"with pio": b}, {"without pio": a}))

    relevant = faults if sc["upload"] else faults - {"build", "upload", "buildexec", "uploadexec"}
    clean = not relevant and parses and (state == "ok" or not sc["upload"])

    # (4) otherwise: returns exactly the firmware text, project = that text + exact configuration
    if clean:
        exp = expected[sc["script"]]
        if res[0] != "returned" or not r["returned_is_str"] or not r["returned_equals_expected"]:
            out.append(("returns-emitted", f"{call}: does not return emit(parse(script text))",
                        {"returns": "str", "sha": exp["cpp_sha"]}, {"result": res, "sha": r["returned_sha"]}))
        d = r["disk"]
        if not d.get("main_exists") or not d.get("main_equals_expected") or (r["returned_is_str"] and not d.get("main_equals_returned")):
            out.append(("main-cpp", f"{call}: src/main.cpp is not the returned firmware text",
                        {"main.cpp sha": exp["cpp_sha"]}, {"exists": d.get("main_exists"), "sha": d.get("main_sha"), "tree": r["tree"]}))
        want = {"port": sc["port"], "platform": sc["platform"], "board": sc["board"]}
        got = d.get("ini_fields")
        libs_ok = got is not None and sorted(got["libs"]) == sorted(needs) and sorted(got["libs"]) == sorted(exp["libs"] or [])
        if got is None or {k: got[k] for k in want} != want or not libs_ok:
            out.append(("ini", f"{call}: platformio.ini does not name exactly the given port/platform/board and the needed libraries",
                        {**want, "libs": needs}, got if got is not None else {"ini": d.get("ini_text")}))
        tools = [e for e in evs if e[0] in TOOL_TAGS]
        if sc["upload"]:
            ok = [e[0] for e in tools] == ["RunBuild", "RunUpload"] and all(e[1] == "tmp" for e in tools)
            if ok:
                ib = names.index("RunBuild")
                ok = "WriteMain" in names[:ib] and "WriteIni" in names[:ib]
            if not ok or any(x["rc"] != 0 for x in r["runs"]):
                out.append(("build-then-upload", f"{call}: not `pio run` then `pio run -t upload` in the written project directory",
                            [["RunBuild", "tmp"], ["RunUpload", "tmp"]], {"events": evs, "runs": r["runs"]}))

    # (5) a failed build never proceeds to upload; tool failures propagate
    failed_build_seen = False
    for x in r["runs"]:
        if x["kind"] == "RunBuild" and x["rc"] != 0:          # non-zero exit, or (None) it could not be started
            failed_build_seen = True
        elif x["kind"] == "RunUpload" and failed_build_seen:
            out.append(("failed-build", f"{call}: upload attempted after a failed build", "no upload", r["runs"]))
            break
    tool_failed = any(x["kind"] in ("RunBuild", "RunUpload") and (x["rc"] not in (0, None) or (x["rc"] is None)) for x in r["runs"])
    if tool_failed and not raised:
        out.append(("tool-failure-propagates", f"{call}: a failing PlatformIO run did not propagate to the caller",
                    "raises", {"result": res, "runs": r["runs"]}))

    # (6) a failing step is the last effect and the call raises
    failing_at = None
    for i, e in enumerate(evs):
        f = {"ReadMain": "readmain", "Mkdtemp": "mkdtemp", "Mkdir": "mkdir", "WriteMain": "writemain", "WriteIni": "writeini"}.get(e[0])
        if f is not None and f in faults:
            failing_at = i
            break
    if failing_at is not None:
        later = [e for e in evs[failing_at + 1:] if e[0] in WRITE_TAGS or e[0] in TOOL_TAGS]
        if not raised or later:
            out.append(("failure-propagates", f"{call}: failure of {evs[failing_at][0]} did not stop the call",
                        "raises, nothing afterwards", {"result": res, "after": later}))

    # (7) a script that does not parse yields no project and no tool run
    if not parses:
        if not raised or r["disk"].get("main_exists") or r["disk"].get("ini_exists") or any(n in TOOL_TAGS for n in names):
            out.append(("parse-failure", f"{call}: a script the transpiler rejects still produced a project or a result",
                        "raises, no project files, no pio run", {"result": res, "events": evs, "tree": r["tree"]}))
    return out


def is_valid_pair(plats, pl, b):
    return b in plats.get(pl, ()) and sum(1 for bs in plats.values() if b in bs) == 1


# --------------------------------------------------------------------------- run
def run(ctx: C.Ctx):
    thorough = ctx.tier == "thorough"
    if not ctx.proof.get("ok") and ctx.proof.get("stage") == "make" and "Props/C12.v" in str(ctx.proof.get("what")):
        # the property file stopped compiling (normally: C12_current_shape_ok on a tree whose target() is not
        # well-formed); record which of its theorems are still accepted
        try:
            res = C.check_props_file("C12")
            ctx.proof["theorems"] = res["theorems"]
        except Exception:  # noqa
            pass
    reg = C.run_impl("c13_impl.py", {"cases": [["registry"]]})[0]
    plats = reg["platforms"]
    # more valid pairs straight from the registry: first / middle / last board of every platform
    more_valid = []
    for pl, bs in sorted(plats.items()):
        bs = sorted(bs)
        more_valid += [(pl, bs[0]), (pl, bs[len(bs) // 2]), (pl, bs[-1])] if bs else []
    cases = scenarios(thorough, more_valid if thorough else more_valid[1::3])
    for sc in cases:
        sc["stream"] = "product"
    cases += extra_scenarios(thorough, plats, ctx.rng)
    # transpile-only scenarios without a usable PlatformIO get their twin with one (clause: same behaviour)
    seen = {sc_key(sc) for sc in cases}
    for sc in list(cases):
        if not sc["upload"] and pio_state(sc["pio"]) != "ok":
            tw = {**sc, "pio": True, "stream": "twin"}
            if sc_key(tw) not in seen:
                seen.add(sc_key(tw))
                cases.append(tw)
    expected, results = run_impl_cases(cases, workers=12 if thorough else 8)
    by_key = {sc_key(sc): r for sc, r in zip(cases, results)}

    # the independent expectations must themselves be what the scripts were designed for
    for name, (_, needs, parses) in SCRIPTS.items():
        e = expected[name]
        if parses != (e["status"] == "ok") or (parses and sorted(e["libs"]) != sorted(needs)):
            ctx.disagree("scenario script no longer behaves as designed (parse status / required libraries)", name,
                         {"parses": parses, "libs": needs}, e)

    # ---- correspondence: extracted model vs recorded run
    shape_info = None
    n_corr = 0
    n_ini_cmp = 0
    if ctx.exe:
        shape_info = ctx.model([[1]])[0]
        mouts = ctx.model([model_case(sc, expected) for sc in cases])
        for sc, r, m in zip(cases, results, mouts):
            dm = decode_model(m)
            if dm is None:
                ctx.disagree("model could not decode the case", sc, m, None)
                continue
            n_corr += 1
            impl_view = (r["events"], r["result"][:2])
            if r["result"][0] == "unsupported":
                ctx.disagree("target() used a process/file API the recorder does not emulate: " + r["result"][1], sc, dm, r["result"])
            elif (dm[0], dm[1]) != (impl_view[0], impl_view[1]):
                ctx.disagree("effect list / result: model vs real target()", sc,
                             {"events": dm[0], "result": dm[1]}, {"events": r["events"], "result": r["result"]})
            elif dm[2] and r.get("ini_arg") is not None and dm[2][0] != r["ini_arg"]:
                n_ini_cmp += 1
                ctx.disagree("platformio.ini text: model (Tool/Ini.v render through Tool/TargetIni.v) vs the text target() wrote",
                             sc, dm[2][0], r["ini_arg"])
            elif dm[2]:
                n_ini_cmp += 1

    # ---- property oracle on the recorded runs (simplest scenarios first)
    dist_res, dist_len, dist_fault = {}, {}, {}
    dist_stream, dist_pio, dist_locale = {}, {}, {}
    boards_seen, ports_seen = set(), set()
    outcomes = set()
    n_valid = 0
    for sc, r in zip(cases, results):
        valid = is_valid_pair(plats, sc["platform"], sc["board"])
        n_valid += valid
        partner = by_key.get(sc_key({**sc, "pio": True})) if pio_state(sc["pio"]) != "ok" else None
        for key, what, exp, obs in oracle(sc, r, valid, expected, partner):
            ctx.fail(what, sc, exp, obs, key=key)
        k = r["result"][0] + ":" + str(r["result"][1])
        dist_res[k] = dist_res.get(k, 0) + 1
        dist_len[len(r["events"])] = dist_len.get(len(r["events"]), 0) + 1
        dist_fault[len(sc["faults"])] = dist_fault.get(len(sc["faults"]), 0) + 1
        for dd, kk in ((dist_stream, sc.get("stream", "product")), (dist_pio, pio_state(sc["pio"])),
                       (dist_locale, sc.get("locale") or "utf-8")):
            dd[kk] = dd.get(kk, 0) + 1
        if valid:
            boards_seen.add((sc["platform"], sc["board"]))
            ports_seen.add(sc["port"])
        outcomes.add(json.dumps([r["events"], r["result"][:2]]))

    # ---- known findings: replay every listed witness on the real code
    for f in ctx.findings:
        if f.get("kind") == "fixed":
            continue
        sc = f["witness"]
        _, rr = run_impl_cases([sc, {**sc, "pio": True}])
        valid = is_valid_pair(plats, sc["platform"], sc["board"])
        if oracle(sc, rr[0], valid, expected, rr[1]):
            ctx.known(f"{f['id']}: {f['what']}")

    ctx.coverage.update({
        "evaluations": len(cases),
        "distinct_nontrivial": sum(1 for sc in cases if is_valid_pair(plats, sc["platform"], sc["board"])),
        "rule": "exhaustive product: fault vectors (quick: every subset of size <= 2, three triples and the full set; thorough: all 2^7 subsets, plus every vector of size <= 3 that also has pio not startable at the build / upload, of "
                "{readmain, mkdtemp, mkdir, writemain, writeini (the injected OSError rotating over PermissionError, ENOSPC, FileNotFoundError, EROFS), build failing, upload failing - exit status rotating over 1, 2, 127 and signal deaths -9, -15}) x 8 scripts (parallel+I2C LCD, Servo+both LCDs, LED blink, empty, Servo+parallel LCD, "
                "two Servos+I2C LCD, non-ASCII comment, one the transpiler rejects with ValueError = the parse fault) x (platform, board) pairs "
                "(2 valid on both platforms, unknown platform, unknown board, 2 mismatched, near-miss names) x upload x PlatformIO present/absent; "
                "non-trivial = the pair is valid, so the call gets past validation; every scenario goes through the model correspondence and the oracle. "
                "Further streams: (discovery) every way the probe `pio --version` can fail - not on PATH, PermissionError, OSError(ENOEXEC), NotADirectoryError, "
                "non-zero exit - x upload x scripts x pairs x single faults; (tool-start) pio usable at the probe but not startable / failing at the build or the "
                "upload (subsets of buildexec, uploadexec, build, upload; exception class rotating) x file faults; (registry) EVERY (platform, board) pair of the "
                "registry, the boards that are not their own environment name also with upload; (registry-mismatch) registered boards under the other platforms; (near-miss) sanitised twins of the boards that are not their own "
                "environment name, case / blank / line-break variants of registered names; "
                "(ports) 14 port strings inside C13's guard (blanks, INI delimiters, comment characters, brackets, %, ${}, non-ASCII); (locale) platform "
                "default encodings cp1252 / ascii / utf-16 / latin-1 for calls that do not name one, with firmware text outside ASCII; (random) seeded mixtures; "
                "(twin) the same transpile-only call with a usable PlatformIO",
        "samples": [cases[0], cases[len(cases) // 3], cases[-1]],
        "distribution": {"scenarios": len(cases), "valid_pair": n_valid, "results": dist_res,
                         "event_list_lengths": {str(k): v for k, v in sorted(dist_len.items())},
                         "faults_per_scenario": {str(k): v for k, v in sorted(dist_fault.items())},
                         "distinct_observed_outcomes": len(outcomes), "model_cases_compared": n_corr,
                         "ini_texts_compared_with_model": n_ini_cmp,
                         "streams": dist_stream, "pio_state": dist_pio, "platform_default_encoding": dist_locale,
                         "registry_pairs": sum(len(v) for v in plats.values()),
                         "distinct_valid_pairs_run": len(boards_seen),
                         "valid_boards_not_their_own_env_name": sorted(b for _, b in boards_seen if not all(c.isascii() and (c.isalnum() or c == "_") for c in b)),
                         "distinct_ports_run": len(ports_seen),
                         "current_shape_ok_by_model": None if shape_info is None else bool(shape_info[1]),
                         "current_shape_steps": None if shape_info is None else shape_info[2]},
        "exhaustive": True,
        "guard": "none (no known finding is excluded; the unconditional ensure_pio() of the pinned commit is repaired by a fix: commit, see known_findings kind=fixed)",
        "unmodelled": ["PlatformIO itself (a usable pio exits 0 unless a fault is injected; an unusable one makes subprocess.run raise the OSError of its state)",
                       "exceptions of the probe other than FileNotFoundError / PermissionError / NotADirectoryError / OSError(ENOEXEC) / CalledProcessError "
                       "(KeyboardInterrupt, MemoryError, TimeoutExpired - no timeout is passed)",
                       "a script file that is not UTF-8 (PEP 263 coding cookie): read_text(encoding='utf-8') raises UnicodeDecodeError",
                       "sys.modules['__main__'] without __file__ (interactive use: AttributeError)",
                       "failures inside emit() or _collect_required_libraries() (no fault point; C11/C14)",
                       "partial writes (a write either happens completely or raises before writing)",
                       "the stderr notice about the Servo library"],
        "trusted_base": C.COMMON_TRUSTED + [
            "harness/gen/target.py (reads the statement sequence of target(), the signatures of the four pio.py helpers, the except clauses of ensure_pio() "
            "and the two subprocess.run statements of compile_upload() with ast; fail-closed)",
            "harness/impl/c12_impl.py (recording doubles for subprocess.run, tempfile.mkdtemp, pathlib.Path.read_text/write_text/mkdir, wrappers of Reduino.parse/emit; inspects the project directory on disk, configparser read-back)",
            "harness/impl/c13_impl.py registry dump (the oracle's notion of a supported pair: board registered for exactly that platform)"],
    })
    ctx.assumptions += [
        "a PlatformIO whose discovery probe fails in any way (cannot be started, or `pio --version` exits non-zero) is a 'missing PlatformIO' in the sense of "
        "the statement (anchor: ensure_pio wraps any failure into RuntimeError)",
        "a read_text/write_text without encoding= uses the platform default, which is a parameter of the scenario (emulated by the recorder)",
        "a step either fails before having any effect or succeeds (fault injection raises before the real operation)",
        "parse/emit are the module globals target() looks up at call time (wrapped to record the attempts)",
        "CPython configparser(interpolation=None) is the reference INI reader (as in C13)"]


def replay(data):
    sc = data.get("case")
    if not isinstance(sc, dict):
        print("replay: no scenario recorded (broken proof / tie only)")
        return 0
    reg = C.run_impl("c13_impl.py", {"cases": [["registry"]]})[0]
    expected, rr = run_impl_cases([sc, {**sc, "pio": True}])
    print("implementation:", json.dumps({"events": rr[0]["events"], "result": rr[0]["result"], "disk": rr[0]["disk"], "runs": rr[0]["runs"]}, indent=1)[:3000])
    try:
        exe = C.build_model("C12")
        print("model:", decode_model(C.run_model(exe, [model_case(sc, expected)])[0]))
    except Exception as e:  # noqa
        print("model unavailable:", e)
    fails = oracle(sc, rr[0], is_valid_pair(reg["platforms"], sc["platform"], sc["board"]), expected, rr[1])
    for key, what, exp, obs in fails:
        print(f"FAILS [{key}] {what}\n  expected: {exp}\n  observed: {obs}")
    return 1 if fails else 0
