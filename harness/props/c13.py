"""C13 - board registry validation is exact, project files round-trip."""
from __future__ import annotations

import string

from harness import common as C

META = {
    "id": "C13",
    "technique": "Coq proof (registry: reflection over translator-generated tables; INI: induction over text of a model of write_project's renderer and of configparser's reader) + extracted-model correspondence with pio.py and with CPython configparser + configparser read-back oracle",
    "level_text": "Theorems C13_* (coq/Props/C13.v) are proved for all strings about a Gallina model of validate_platform_board/write_project (tables and the PIO_INI template regenerated from pio.py on every run) and of configparser.ConfigParser(interpolation=None); the round trip is proved inside an explicit guard (no line break, no blank padding, library names not starting with # or ;) and refuted outside it by the three listed findings; the model is run against the real functions on (registry+near-miss)^2, generated project configurations, and - model-vs-implementation only - hostile configurations and INI texts outside the guard.",
    "level_note": "Trusted: Coq kernel, translator gen_tables.py, extraction (ExtrOcamlBasic), OCaml driver, CPython configparser(interpolation=None) as 'a standard INI parser'. The theorems are about the model; the correspondence check bounds its distance from pio.py.",
    "design_ref": "DESIGN.md section 4 C13, Appendix A.6",
}

PRINTABLE = string.ascii_letters + string.digits + "/._-:=#;[]%$ \\é√"


def near_misses(name: str):
    out = {name.upper(), name.lower(), name + " ", " " + name, name[:-1], name + "x", name.capitalize(), name.swapcase(), name + "\n"}
    out.discard(name)
    return sorted(out)


def in_guard_port(p: str) -> bool:
    return p.isprintable() and p == p.strip()


def in_guard_lib(n: str) -> bool:
    return n == "" or (n.isprintable() and n == n.strip() and n[0] not in "#;")


def gen_text(rng, alphabet, maxlen):
    return "".join(rng.choice(alphabet) for _ in range(rng.randint(0, maxlen)))


def expected_parsed(pl, b, port, libs):
    uniq = []
    for n in libs or []:
        if n and n not in uniq:
            uniq.append(n)
    return {"platform": pl, "board": b, "framework": "arduino", "upload_port": port}, uniq


def check_write(ctx, case, res):
    """Property oracle on the real write_project + configparser read-back."""
    _, src, port, pl, b, libs, pre = case
    if res["status"] != "ok":
        ctx.fail(f"write_project raised {res} for a registered pair", case, "project written", res, key="write-raised")
        return
    if not res["main_equal"]:
        ctx.fail("src/main.cpp is not the given source verbatim", case, "bytes equal", "differ", key="main-bytes")
    allowed = {"proj/", "proj/src/", "proj/src/main.cpp", "proj/platformio.ini"}
    if any(e not in allowed for e in res["new_entries"]) or res["removed_entries"] or not res["outside_ok"]:
        ctx.fail("write_project touched something outside the project files", case, sorted(allowed), res["new_entries"] + res["removed_entries"], key="outside")
    parsed = res["parsed"]
    want, uniq = expected_parsed(pl, b, port, libs)
    secs = [s for s in parsed if s != "DEFAULT"]
    ok = len(secs) == 1 and secs[0].startswith("env:") and "DEFAULT" not in parsed
    got = dict(parsed[secs[0]]) if ok else None
    if ok:
        got_libs = [l for l in got.pop("lib_deps", "").split("\n") if l != ""]
        ok = got == want and got_libs == uniq
    if not ok:
        ctx.fail("platformio.ini does not read back as the given configuration", case,
                 {"section": "env:*", **want, "lib_deps": uniq}, parsed, key="ini-readback")


def run(ctx: C.Ctx):
    rng = ctx.rng
    thorough = ctx.tier == "thorough"
    reg = C.run_impl("c13_impl.py", {"cases": [["registry"]]})[0]
    plats = reg["platforms"]
    all_boards = sorted({b for bs in plats.values() for b in bs})

    # ---------------- property oracle 1 (implementation only): registry partition
    for b in all_boards:
        owners = [p for p, bs in plats.items() if b in bs]
        if len(owners) != 1:
            ctx.fail(f"board {b!r} is registered for {len(owners)} platforms", ["registry", b], "exactly one platform", owners, key="partition")

    # ---------------- cases for validate
    pcands = list(plats) + [m for p in plats for m in near_misses(p)][: (40 if thorough else 14)] + ["", "atmel", "avr"]
    pcands += rng.sample(all_boards, 20 if thorough else 6)
    bcands = list(all_boards) + list(plats) + ["", "UNO", "Uno", "uno ", "nano", "esp32dev"]
    for b in (all_boards if thorough else rng.sample(all_boards, 120)):
        nm = near_misses(b)
        bcands += nm if thorough else rng.sample(nm, 2)
    pcands = sorted(set(pcands))
    bcands = sorted(set(bcands))
    vcases = [["validate", p, b] for p in pcands for b in bcands]
    impl = C.run_impl("c13_impl.py", {"cases": vcases})
    n_accept = 0
    kinds = {}
    model = ctx.model([[0, c[1], c[2]] for c in vcases]) if ctx.exe else [None] * len(vcases)
    for c, r, m in zip(vcases, impl, model):
        pl, b = c[1], c[2]
        should = b in plats.get(pl, ()) and sum(1 for bs in plats.values() if b in bs) == 1
        accepted = r[0] == "ok"
        n_accept += accepted
        kinds[r[0] + (":" + str(r[1]) if r[0] == "ValueError" else "")] = kinds.get(r[0] + (":" + str(r[1]) if r[0] == "ValueError" else ""), 0) + 1
        if r[0] == "Other":
            ctx.fail(f"validate_platform_board raised {r[1]} (not ValueError)", c, "ok or ValueError", r, key="validate-exc")
        elif accepted != should:
            ctx.fail("validate_platform_board verdict differs from 'registered for exactly that platform'", c,
                     "accept" if should else "ValueError", r, key="validate-verdict")
        if m is not None:
            m_acc = m == [0]
            if m_acc != accepted or (not accepted and r[0] == "ValueError" and r[1] != 0 and m[1] != r[1]):
                ctx.disagree("validate: model vs implementation", c, m, r)

    # ---------------- cases for write_project (inside the guard)
    wcases = []
    pairs = [(p, b) for p, bs in plats.items() for b in bs]
    n_w = 600 if thorough else 150
    libpool = ["Servo", "LiquidCrystal", "LiquidCrystal_I2C", "", "a b", "x=y", "arduino-libraries/Servo@^1.2.1", "é", "[z]", "Servo", "servo", "SERVO", "Servo2", "a  b"]
    srcpool = ["", "void setup(){}\nvoid loop(){}\n", "// é ü √ 漢字\r\nint x;\n", "\n\n  \n", "[env:x]\nboard = y\n"]
    for i in range(n_w):
        pl, b = pairs[i % len(pairs)] if i < 40 else rng.choice(pairs)
        port = rng.choice(["COM3", "/dev/ttyUSB0", "/dev/cu.usbmodem1101", "", "a b", "x = y", "#1", ";", "[p]", "%(x)s", "p:1", "/dev/", "COM3/", "=", "a  b", "é"]) if rng.random() < 0.5 else gen_text(rng, PRINTABLE, 12)
        libs = None if rng.random() < 0.15 else [rng.choice(libpool) if rng.random() < 0.7 else gen_text(rng, PRINTABLE, 8) for _ in range(rng.randint(0, 5))]
        if not in_guard_port(port):
            port = port.strip()
        if libs is not None:
            libs = [n if in_guard_lib(n) else n.strip().lstrip("#;").strip() for n in libs]
        src = rng.choice(srcpool) if rng.random() < 0.7 else gen_text(rng, PRINTABLE + "\n\t{}", 60)
        wcases.append(["write", src, port, pl, b, libs, rng.random() < 0.2])
    # invalid pairs must write nothing
    bad_pairs = [("atmelavr", "nano_every"), ("atmelmegaavr", "uno"), ("x", "uno"), ("atmelavr", "zz")]
    wbad = [["write", "int x;", "COM1", p, b, ["Servo"], False] for p, b in bad_pairs]
    wres = C.run_impl("c13_impl.py", {"cases": wcases + wbad})
    for c, r in zip(wcases, wres):
        check_write(ctx, c, r)
    for c, r in zip(wbad, wres[len(wcases):]):
        if r["status"] != "ValueError" or not r.get("tree_unchanged"):
            ctx.fail("write_project with an invalid pair did not raise ValueError before writing", c, "ValueError, nothing written", r, key="write-invalid")

    # ---------------- model correspondence for the INI renderer (if the model has it)
    n_ini = ini_correspondence(ctx, wcases, wres)
    # ---------------- the model on its whole domain (outside the guard: correspondence only, no oracle)
    ini_dist = ini_model_validation(ctx, pairs, all_boards)
    n_extra = sum(ini_dist.get(k, 0) for k in ("hostile_write_cases", "reader_texts", "libsec_cases", "envname_cases"))

    # ---------------- known findings: replay the listed witnesses
    for f in ctx.findings:
        if f.get("kind") == "fixed":
            continue
        w = f["witness"]
        case = ["write", w.get("src", "int x;"), w["port"], w.get("platform", "atmelavr"), w.get("board", "uno"), w.get("libs"), False]
        r = C.run_impl("c13_impl.py", {"cases": [case]})[0]
        probe = C.Ctx("C13", ctx.tier, ctx.seed)
        probe.findings = []
        check_write(probe, case, r)
        if probe.failures:
            ctx.known(f"{f['id']}: {f['what']}")

    ctx.coverage.update({
        "evaluations": len(vcases) + len(wcases) + len(wbad) + n_extra,
        "distinct_nontrivial": len({(c[1], c[2]) for c, r in zip(vcases, impl) if r[0] == "ok" or (r[0] == "ValueError" and r[1] in (2, 3))}) + len({repr(c) for c in wcases}),
        "rule": "validate: (platforms+near-miss+sampled board names) x (all registered boards+near-miss names), distinct non-trivial = accepted, unknown-board or mismatched pairs (unknown-platform rejections counted trivial); write_project: seeded configurations inside the guard (printable port without blank padding; library names without blank padding / comment prefix; duplicates and empties included), all distinct - these feed the property oracle AND the model correspondence (file text, configparser tables in order); model-only streams (never the oracle): write_project with hostile ports/libraries outside the guard (exhaustive singles and pairs over a boundary alphabet of blanks, line breaks, comment prefixes, delimiters, brackets, header/option look-alikes, then seeded), the reader alone on structured random INI texts, _format_lib_section and _sanitize_env_name on generated inputs (not counted in distinct_nontrivial)",
        "samples": [vcases[0], vcases[len(vcases) // 2], wcases[0], wcases[-1]],
        "distribution": {"validate_cases": len(vcases), "validate_outcomes": kinds, "accepted": n_accept,
                         "write_cases": len(wcases), "write_invalid_pairs": len(wbad), "ini_model_cases": n_ini,
                         "platform_candidates": len(pcands), "board_candidates": len(bcands),
                         "lib_lists_with_duplicates": sum(1 for c in wcases if c[5] and len(set(c[5])) < len(c[5])),
                         "lib_lists_with_empties": sum(1 for c in wcases if c[5] and "" in c[5]),
                         "ini_model_validation": ini_dist},
        "exhaustive": False,
        "guard": "port: str.isprintable() and no leading/trailing blank; library names: printable, no blank padding, not starting with '#' or ';' (outside: known findings F-C13-*)",
        "unmodelled": ["PlatformIO's own INI reader (configparser(interpolation=None) stands for 'a standard INI parser')",
                       "UTF-8 encoding/decoding of the file (identity on code points; lone surrogates make write_project raise and are never sent)",
                       "str.lower() of cased non-ASCII letters in option names (model lower-cases A-Z only; such letters are kept out of generated keys; the template's keys are ASCII)",
                       "configparser exception kinds (the model has one 'read raises' outcome)",
                       "the oracle's guard is the property's 'printable' one; the theorem's guard is wider (any character but line breaks inside, no blank padding)",
                       "file-system failures"],
        "trusted_base": C.COMMON_TRUSTED + ["harness/impl/c13_impl.py (calls pio.validate_platform_board / write_project in a scratch dir, reads back with configparser)"],
    })
    ctx.assumptions += ["CPython configparser(interpolation=None) is the reference INI reader", "registry tables are those of the imported module (translator reads them after import)"]


# ---------------------------------------------------------------------------
# model-vs-implementation correspondence for the INI half
# ---------------------------------------------------------------------------

def model_sections(wsecs):
    """wire ((name ((key value)...))...) -> [[name, [[k, v], ...]], ...] in the shape of impl 'raw':
    sections in first-seen order, the default section last and only if it has options"""
    secs = [[C.wstr(s[0]), [[C.wstr(k), C.wstr(v)] for k, v in s[1]]] for s in wsecs]
    dflt = [s for s in secs if s[0] == "DEFAULT"]
    secs = [s for s in secs if s[0] != "DEFAULT"]
    if dflt and dflt[0][1]:
        secs.append(dflt[0])
    return secs


def same_read(msecs, raw):
    """msecs: model_sections(...) or None for 'the read raises'; raw: impl raw tables or {'__error__': kind}"""
    if isinstance(raw, dict):
        return msecs is None
    return msecs is not None and msecs == raw


def compare_write(ctx, stream, wcases, wres, outs):
    """tag-1 outputs against write_project's real file and configparser's real tables"""
    n_err = 0
    for c, r, m in zip(wcases, wres, outs):
        if r["status"] != "ok":
            if m[0] == 0:
                ctx.disagree(f"render ({stream}): model writes, implementation raises", c, m[0], r["status"])
            continue
        # model returns (0 ini_text sections) - sections () when the read raises - or (1 kind)
        if m[0] != 0:
            ctx.disagree(f"render ({stream}): model rejects, implementation writes", c, m, r["status"])
            continue
        mtext = C.wstr(m[1])
        if mtext != r["ini"]:
            ctx.disagree(f"platformio.ini text ({stream}): model vs implementation", c, mtext, r["ini"])
            continue
        msecs = model_sections(m[2]) if m[2] != [] else None
        n_err += msecs is None
        if not same_read(msecs, r["raw"]):
            ctx.disagree(f"ini_read model vs configparser ({stream})", c, msecs, r["raw"])
    return n_err


def ini_correspondence(ctx, wcases, wres):
    """model render/ini_read vs the real renderer and configparser on the in-guard write cases;
    returns number of cases compared."""
    if not ctx.exe:
        return 0
    try:
        probe = ctx.model([[1, "COM1", "atmelavr", "uno", []]])
    except Exception:
        return 0
    if probe == [[2]]:
        return 0  # model has no INI part yet
    cases = [[1, c[2], c[3], c[4], list(c[5] or [])] for c in wcases]
    outs = ctx.model(cases)
    compare_write(ctx, "in guard", wcases, wres, outs)
    return len(cases)


# hostile material: blanks of every kind, line breaks, comment prefixes, delimiters, brackets,
# things that look like headers / options / continuation lines, upper-case keys.
# Cased non-ASCII letters are left out (the model lower-cases ASCII only), as are lone surrogates
# (not encodable as UTF-8: write_project raises before anything is read back).
ATOMS = ["", " ", "  ", "\t", "\r", "\n", "\r\n", "#", ";", "=", ":", "[", "]", "[x]", "[env:uno]", "[DEFAULT]",
         "KEY = v", "Key: V", "lib_deps = q", "board = zz", "upload_port", "\xa0", "\u2003", "\u3000", "\x0b", "\x0c",
         "\x1c", "\x85", "\u2028", "\u00e9", "a", "B", "0", "%(x)s", "x=y", "COM3", "Servo", "\x00", "\u221a\u6f22"]
SHORT = ["", " ", "\t", "\n", "\r", "#", ";", "=", ":", "[x]", "a", "K = v", "\xa0"]


def hostile_text(rng, maxatoms=4):
    return "".join(rng.choice(ATOMS) for _ in range(rng.randint(0, maxatoms)))


def ini_texts(rng, n):
    """structured random INI-like files for the reader alone"""
    ws = ["", " ", "  ", "\t", "\xa0", "\x0c", " \u2003", "   "]
    toks = ["a", "b", "K", "Key", "x y", "\u00e9", "#c", ";c", "[q]", "a=b", "a:b", "DEFAULT", "lib_deps", "%(x)s", "", "]", "[",
            "=", ":", "a]b", "\x1c", "\x85z", "z\x0b", "env:uno"]

    def line():
        k = rng.random()
        w, w2, w3 = rng.choice(ws), rng.choice(ws), rng.choice(ws)
        t = lambda: rng.choice(toks)
        if k < 0.2:
            return w + "[" + t() + "]" + w2 + (t() if rng.random() < 0.2 else "")
        if k < 0.55:
            return w + t() + w2 + rng.choice("=:") + w3 + t() + rng.choice(ws)
        if k < 0.75:
            return rng.choice(ws[1:]) + t()
        if k < 0.85:
            return w
        if k < 0.92:
            return w + rng.choice("#;") + t()
        return hostile_text(rng, 3)

    fixed = ["", "\n", "[a]", "[a]\nk=v", "[a]\nk=v\n  c\n\n  d\n\nj:1", "k=v", "[a]\n[a]", "[a]\nk=1\nK=2", "[a]\n=v", "[a]\nnodelim",
             "[]", "[]]\nk=v", "[a]x]y\nk=v", "[DEFAULT]\na=1\n[s]\nb=2\n[DEFAULT]\nc=3", "[DEFAULT]\na=1\n[DEFAULT]\na=2",
             "[a]\r\nk=v\r  x\r\n", "[a]\n k=v\n  c\n k2=w\n c2", "[a]\n  k=v\n c\n", "[a]\nk=v\n#c\n  d\n", "[a]\nk\x0b=\x1cv\x85\n"]
    out = list(fixed)
    for _ in range(n):
        out.append(("[s]\n" if rng.random() < 0.7 else "") +
                   "".join(line() + rng.choice(["\n", "\n", "\n", "\r\n", "\r", ""]) for _ in range(rng.randint(0, 7))))
    return out


def ini_model_validation(ctx, pairs, all_boards):
    """Validation of the model on its WHOLE domain (model vs implementation only; these cases are
    outside the guard and never reach the property oracle).  Returns a distribution dict."""
    if not ctx.exe or ctx.model([[1, "COM1", "atmelavr", "uno", []]]) == [[2]]:
        return {}
    rng = ctx.rng
    thorough = ctx.tier == "thorough"
    dist = {}
    # (a) write_project with hostile ports / library names -> file text and configparser tables
    confs = [(p, None) for p in ATOMS] + [("COM3", [a]) for a in ATOMS]
    confs += [(a + b, None) for a in SHORT for b in SHORT] + [("COM3", [a, b]) for a in SHORT for b in SHORT]
    confs += [(a + "x" + b, ["y" + b, a + "z"]) for a in SHORT for b in SHORT]
    for _ in range(2500 if thorough else 350):
        confs.append((hostile_text(rng), None if rng.random() < 0.2 else [hostile_text(rng, 3) for _ in range(rng.randint(0, 4))]))
    wc = []
    for i, (port, libs) in enumerate(confs):
        pl, b = pairs[i % len(pairs)] if i % 3 else ("atmelavr", "uno")
        wc.append(["write", "int x;", port, pl, b, libs, False])
    wr = C.run_impl("c13_impl.py", {"cases": wc})
    outs = ctx.model([[1, c[2], c[3], c[4], list(c[5] or [])] for c in wc])
    n_err = compare_write(ctx, "outside guard", wc, wr, outs)
    dist["hostile_write_cases"] = len(wc)
    dist["hostile_write_read_raises"] = n_err
    dist["hostile_write_outside_guard"] = sum(1 for c in wc if not (in_guard_port(c[2]) and all(in_guard_lib(n) for n in (c[5] or []))))
    # (b) the reader alone on INI-like texts
    texts = ini_texts(rng, 8000 if thorough else 1500)
    rr = C.run_impl("c13_impl.py", {"cases": [["iniread", t] for t in texts]})
    mo = ctx.model([[4, t] for t in texts])
    n_ok = 0
    for t, r, m in zip(texts, rr, mo):
        msecs = model_sections(m[1]) if m[0] == 0 else None
        n_ok += msecs is not None
        if not same_read(msecs, r):
            ctx.disagree("ini_read model vs configparser (reader alone)", ["iniread", t], msecs, r)
    dist["reader_texts"] = len(texts)
    dist["reader_texts_parsed"] = n_ok
    dist["reader_texts_raise"] = len(texts) - n_ok
    # (c) _format_lib_section and _sanitize_env_name directly
    pool = ["Servo", "LiquidCrystal", "", "a b", " Servo ", "#x", "x=y", "Servo", "\u00e9", "\n", "a\nb", " ", "servo"]
    liblists = [None, [], [""], ["", ""], ["a"], ["a", "a"], ["a", "", "a"], ["a", "b", "a"], ["b", "a", "b", "a"]]
    for _ in range(1500 if thorough else 300):
        liblists.append([rng.choice(pool) if rng.random() < 0.8 else hostile_text(rng, 2) for _ in range(rng.randint(0, 7))])
    lr = C.run_impl("c13_impl.py", {"cases": [["libsec", l] for l in liblists]})
    lm = ctx.model([[2, list(l or [])] for l in liblists])
    for l, r, m in zip(liblists, lr, lm):
        if m[0] != 0 or C.wstr(m[1]) != r:
            ctx.disagree("_format_lib_section: model vs implementation", ["libsec", l], C.wstr(m[1]) if m[0] == 0 else m, r)
    dist["libsec_cases"] = len(liblists)
    dist["libsec_with_duplicates"] = sum(1 for l in liblists if l and len(set(l)) < len(l))
    dist["libsec_empty_result"] = sum(1 for r in lr if r == "")
    names = list(all_boards) + ["", "-", "--", "a--b", "-a-", "a b", "a_b", "a.b/c", "\u00e9", "a\u00e9\u00e9b", "\u0663", "A\n\nZ", "__", "a-_-b", "\u212a"]
    walpha = "abzAZ09_-. /+\u00e9\u0663\n:"
    for _ in range(3000 if thorough else 500):
        names.append("".join(rng.choice(walpha) for _ in range(rng.randint(0, 10))))
    er = C.run_impl("c13_impl.py", {"cases": [["envname", n] for n in names]})
    em = ctx.model([[3, n] for n in names])
    for n, r, m in zip(names, er, em):
        if m[0] != 0 or C.wstr(m[1]) != r:
            ctx.disagree("_sanitize_env_name: model vs implementation", ["envname", n], C.wstr(m[1]) if m[0] == 0 else m, r)
    dist["envname_cases"] = len(names)
    dist["envname_changed"] = sum(1 for n, r in zip(names, er) if n != r)
    return dist
