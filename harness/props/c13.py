"""C13 - board registry validation is exact, project files round-trip."""
from __future__ import annotations

import string

from harness import common as C

META = {
    "id": "C13",
    "technique": "Coq proof (registry: reflection over translator-generated tables; INI: induction over text) + extracted-model correspondence with pio.py + configparser read-back oracle",
    "level_text": "Theorems C13_* (coq/Props/C13.v) are proved for all strings about a Gallina model of validate_platform_board/write_project whose tables are regenerated from pio.py on every run; the model is run against the real functions on (registry+near-miss)^2 and generated project configurations.",
    "level_note": "Trusted: Coq kernel, translator gen_tables.py, extraction (ExtrOcamlBasic), OCaml driver, CPython configparser(interpolation=None) as 'a standard INI parser'. The theorems are about the model; the correspondence check bounds its distance from pio.py.",
    "design_ref": "DESIGN.md section 4 C13, Appendix A.6",
}

PRINTABLE = string.ascii_letters + string.digits + "/._-:=#;[]%$ \\é√"


def near_misses(name: str):
    out = {name.upper(), name.lower(), name + " ", " " + name, name[:-1], name + "x", name.capitalize(), name.swapcase(), name + "\n"}
    out.discard(name)
    return sorted(out)


def in_guard_port(p: str) -> bool:
    return p.isprintable() and p == p.strip()


def in_guard_lib(n: str) -> bool:
    return n == "" or (n.isprintable() and n == n.strip() and n[0] not in "#;")


def gen_text(rng, alphabet, maxlen):
    return "".join(rng.choice(alphabet) for _ in range(rng.randint(0, maxlen)))


def expected_parsed(pl, b, port, libs):
    uniq = []
    for n in libs or []:
        if n and n not in uniq:
            uniq.append(n)
    return {"platform": pl, "board": b, "framework": "arduino", "upload_port": port}, uniq


def check_write(ctx, case, res):
    """Property oracle on the real write_project + configparser read-back."""
    _, src, port, pl, b, libs, pre = case
    if res["status"] != "ok":
        ctx.fail(f"write_project raised {res} for a registered pair", case, "project written", res, key="write-raised")
        return
    if not res["main_equal"]:
        ctx.fail("src/main.cpp is not the given source verbatim", case, "bytes equal", "differ", key="main-bytes")
    allowed = {"proj/", "proj/src/", "proj/src/main.cpp", "proj/platformio.ini"}
    if any(e not in allowed for e in res["new_entries"]) or res["removed_entries"] or not res["outside_ok"]:
        ctx.fail("write_project touched something outside the project files", case, sorted(allowed), res["new_entries"] + res["removed_entries"], key="outside")
    parsed = res["parsed"]
    want, uniq = expected_parsed(pl, b, port, libs)
    secs = [s for s in parsed if s != "DEFAULT"]
    ok = len(secs) == 1 and secs[0].startswith("env:") and "DEFAULT" not in parsed
    got = dict(parsed[secs[0]]) if ok else None
    if ok:
        got_libs = [l for l in got.pop("lib_deps", "").split("\n") if l != ""]
        ok = got == want and got_libs == uniq
    if not ok:
        ctx.fail("platformio.ini does not read back as the given configuration", case,
                 {"section": "env:*", **want, "lib_deps": uniq}, parsed, key="ini-readback")


def run(ctx: C.Ctx):
    rng = ctx.rng
    thorough = ctx.tier == "thorough"
    reg = C.run_impl("c13_impl.py", {"cases": [["registry"]]})[0]
    plats = reg["platforms"]
    all_boards = sorted({b for bs in plats.values() for b in bs})

    # ---------------- property oracle 1 (implementation only): registry partition
    for b in all_boards:
        owners = [p for p, bs in plats.items() if b in bs]
        if len(owners) != 1:
            ctx.fail(f"board {b!r} is registered for {len(owners)} platforms", ["registry", b], "exactly one platform", owners, key="partition")

    # ---------------- cases for validate
    pcands = list(plats) + [m for p in plats for m in near_misses(p)][: (40 if thorough else 14)] + ["", "atmel", "avr"]
    pcands += rng.sample(all_boards, 20 if thorough else 6)
    bcands = list(all_boards) + list(plats) + ["", "UNO", "Uno", "uno ", "nano", "esp32dev"]
    for b in (all_boards if thorough else rng.sample(all_boards, 120)):
        nm = near_misses(b)
        bcands += nm if thorough else rng.sample(nm, 2)
    pcands = sorted(set(pcands))
    bcands = sorted(set(bcands))
    vcases = [["validate", p, b] for p in pcands for b in bcands]
    impl = C.run_impl("c13_impl.py", {"cases": vcases})
    n_accept = 0
    kinds = {}
    model = ctx.model([[0, c[1], c[2]] for c in vcases]) if ctx.exe else [None] * len(vcases)
    for c, r, m in zip(vcases, impl, model):
        pl, b = c[1], c[2]
        should = b in plats.get(pl, ()) and sum(1 for bs in plats.values() if b in bs) == 1
        accepted = r[0] == "ok"
        n_accept += accepted
        kinds[r[0] + (":" + str(r[1]) if r[0] == "ValueError" else "")] = kinds.get(r[0] + (":" + str(r[1]) if r[0] == "ValueError" else ""), 0) + 1
        if r[0] == "Other":
            ctx.fail(f"validate_platform_board raised {r[1]} (not ValueError)", c, "ok or ValueError", r, key="validate-exc")
        elif accepted != should:
            ctx.fail("validate_platform_board verdict differs from 'registered for exactly that platform'", c,
                     "accept" if should else "ValueError", r, key="validate-verdict")
        if m is not None:
            m_acc = m == [0]
            if m_acc != accepted or (not accepted and r[0] == "ValueError" and r[1] != 0 and m[1] != r[1]):
                ctx.disagree("validate: model vs implementation", c, m, r)

    # ---------------- cases for write_project (inside the guard)
    wcases = []
    pairs = [(p, b) for p, bs in plats.items() for b in bs]
    n_w = 600 if thorough else 150
    libpool = ["Servo", "LiquidCrystal", "LiquidCrystal_I2C", "", "a b", "x=y", "arduino-libraries/Servo@^1.2.1", "é", "[z]", "Servo"]
    srcpool = ["", "void setup(){}\nvoid loop(){}\n", "// é ü √ 漢字\r\nint x;\n", "\n\n  \n", "[env:x]\nboard = y\n"]
    for i in range(n_w):
        pl, b = pairs[i % len(pairs)] if i < 40 else rng.choice(pairs)
        port = rng.choice(["COM3", "/dev/ttyUSB0", "/dev/cu.usbmodem1101", "", "a b", "x = y", "#1", ";", "[p]", "%(x)s", "p:1"]) if rng.random() < 0.5 else gen_text(rng, PRINTABLE, 12)
        libs = None if rng.random() < 0.15 else [rng.choice(libpool) if rng.random() < 0.7 else gen_text(rng, PRINTABLE, 8) for _ in range(rng.randint(0, 5))]
        if not in_guard_port(port):
            port = port.strip()
        if libs is not None:
            libs = [n if in_guard_lib(n) else n.strip().lstrip("#;").strip() for n in libs]
        src = rng.choice(srcpool) if rng.random() < 0.7 else gen_text(rng, PRINTABLE + "\n\t{}", 60)
        wcases.append(["write", src, port, pl, b, libs, rng.random() < 0.2])
    # invalid pairs must write nothing
    bad_pairs = [("atmelavr", "nano_every"), ("atmelmegaavr", "uno"), ("x", "uno"), ("atmelavr", "zz")]
    wbad = [["write", "int x;", "COM1", p, b, ["Servo"], False] for p, b in bad_pairs]
    wres = C.run_impl("c13_impl.py", {"cases": wcases + wbad})
    for c, r in zip(wcases, wres):
        check_write(ctx, c, r)
    for c, r in zip(wbad, wres[len(wcases):]):
        if r["status"] != "ValueError" or not r.get("tree_unchanged"):
            ctx.fail("write_project with an invalid pair did not raise ValueError before writing", c, "ValueError, nothing written", r, key="write-invalid")

    # ---------------- model correspondence for the INI renderer (if the model has it)
    n_ini = ini_correspondence(ctx, wcases, wres)

    # ---------------- known findings: replay the listed witnesses
    for f in ctx.findings:
        if f.get("kind") == "fixed":
            continue
        w = f["witness"]
        case = ["write", w.get("src", "int x;"), w["port"], w.get("platform", "atmelavr"), w.get("board", "uno"), w.get("libs"), False]
        r = C.run_impl("c13_impl.py", {"cases": [case]})[0]
        probe = C.Ctx("C13", ctx.tier, ctx.seed)
        probe.findings = []
        check_write(probe, case, r)
        if probe.failures:
            ctx.known(f"{f['id']}: {f['what']}")

    ctx.coverage.update({
        "evaluations": len(vcases) + len(wcases) + len(wbad),
        "distinct_nontrivial": len({(c[1], c[2]) for c, r in zip(vcases, impl) if r[0] == "ok" or (r[0] == "ValueError" and r[1] in (2, 3))}) + len({repr(c) for c in wcases}),
        "rule": "validate: (platforms+near-miss+sampled board names) x (all registered boards+near-miss names), distinct non-trivial = accepted, unknown-board or mismatched pairs (unknown-platform rejections counted trivial); write_project: seeded configurations inside the guard (printable port without blank padding; library names without blank padding / comment prefix; duplicates and empties included), all distinct",
        "samples": [vcases[0], vcases[len(vcases) // 2], wcases[0], wcases[-1]],
        "distribution": {"validate_cases": len(vcases), "validate_outcomes": kinds, "accepted": n_accept,
                         "write_cases": len(wcases), "write_invalid_pairs": len(wbad), "ini_model_cases": n_ini,
                         "platform_candidates": len(pcands), "board_candidates": len(bcands),
                         "lib_lists_with_duplicates": sum(1 for c in wcases if c[5] and len(set(c[5])) < len(c[5])),
                         "lib_lists_with_empties": sum(1 for c in wcases if c[5] and "" in c[5])},
        "exhaustive": False,
        "guard": "port: str.isprintable() and no leading/trailing blank; library names: printable, no blank padding, not starting with '#' or ';' (outside: known findings F-C13-*)",
        "unmodelled": ["PlatformIO's own INI reader (configparser(interpolation=None) stands for 'a standard INI parser')", "non-printable characters in port/library names", "file-system failures"],
        "trusted_base": C.COMMON_TRUSTED + ["harness/impl/c13_impl.py (calls pio.validate_platform_board / write_project in a scratch dir, reads back with configparser)"],
    })
    ctx.assumptions += ["CPython configparser(interpolation=None) is the reference INI reader", "registry tables are those of the imported module (translator reads them after import)"]


def ini_correspondence(ctx, wcases, wres):
    """model render/ini_read vs the real renderer and configparser; returns number of cases compared."""
    if not ctx.exe:
        return 0
    try:
        probe = ctx.model([[1, "COM1", "atmelavr", "uno", []]])
    except Exception:
        return 0
    if probe == [[2]]:
        return 0  # model has no INI part yet
    cases = [[1, c[2], c[3], c[4], list(c[5] or [])] for c in wcases]
    outs = ctx.model(cases)
    for c, r, m in zip(wcases, wres, outs):
        if r["status"] != "ok":
            continue
        # model returns (0 ini_text (section-name ((key value)...)))  or error
        if m[0] != 0:
            ctx.disagree("render: model rejects, implementation writes", c, m, r["status"])
            continue
        mtext = C.wstr(m[1])
        if mtext != r["ini"]:
            ctx.disagree("platformio.ini text: model vs implementation", c, mtext, r["ini"])
            continue
        if len(m) > 2 and m[2] != []:
            msec = {C.wstr(s[0]): {C.wstr(k): C.wstr(v) for k, v in s[1]} for s in m[2]}
            isec = {k: v for k, v in r["parsed"].items()}
            if msec != isec:
                ctx.disagree("ini_read model vs configparser", c, msec, isec)
    return len(cases)
