"""C13 - board registry validation is exact, project files round-trip."""
from __future__ import annotations

import string

from harness import common as C
from harness import c13_names as NM

META = {
    "id": "C13",
    "technique": "Coq proof (registry: reflection over translator-generated tables; INI: induction over text of a model of write_project's renderer and of configparser's reader) + near-miss names: for any normaliser separating the registered ids, lookup through a keyed index is exact iff no id has a twin, and the code refuses every twin; source inventory of pio.py regenerated per run) + extracted-model correspondence with pio.py and with CPython configparser + property oracles (verdict = registered for exactly that platform over near-miss families; configparser read-back; byte snapshot of project, current directory, HOME and siblings)",
    "level_text": "Theorems C13_* (coq/Props/C13.v) are proved for all strings about a Gallina model of validate_platform_board/write_project (tables and the PIO_INI template regenerated from pio.py on every run) and of configparser.ConfigParser(interpolation=None); the round trip is proved inside an explicit guard (no line break, no blank padding, library names not starting with # or ;) and refuted outside it by the three listed findings; near-miss names (twins of a registered id under _sanitize_env_name, case folding, strip, separator dropping) are proved refused, never written, and shown to be exactly what separates the code from validation through a keyed index (C13_keyed_validation_exact_iff_no_twin, C13_keyed_validation_refuted); C13_source_inventory ties the model's claim 'validation reads SUPPORTED_PLATFORMS and BOARD_TO_PLATFORM only, the module holds no other table' to the byte code and module dict of the current pio.py; the model is run against the real functions on (registry+near-miss)^2 with nine near-miss families per registered id, strings harvested from the module itself, generated project configurations, and - model-vs-implementation only - hostile configurations and INI texts outside the guard.",
    "level_note": "Trusted: Coq kernel, translator gen_tables.py, extraction (ExtrOcamlBasic), OCaml driver, CPython configparser(interpolation=None) as 'a standard INI parser'. The theorems are about the model; the correspondence check bounds its distance from pio.py.",
    "design_ref": "DESIGN.md section 4 C13, Appendix A.6",
}

PRINTABLE = string.ascii_letters + string.digits + "/._-:=#;[]%$ \\é√"
# every printable ASCII character (braces, quotes, shell and format metacharacters included) and printable
# non-ASCII ones: Latin-1, Greek, Cyrillic, CJK, a combining mark, a right-to-left letter, astral-plane symbols
PRINTABLE_WIDE = "".join(chr(c) for c in range(0x20, 0x7F)) + "\u00e9\u00df\u00b5\u03a9\u0416\u6f22\u5b57\u0301\u05d0\u221a\U0001f600\U00010348"

# ports that mean something to pyserial / PlatformIO / a shell / str.format / pathlib / int()
PORT_POOL = ["COM3", "/dev/ttyUSB0", "/dev/cu.usbmodem1101", "", "a b", "x = y", "#1", ";", "[p]", "%(x)s", "p:1", "/dev/", "COM3/", "=",
             "a  b", "\u00e9", "com3", "COM10", "\\\\.\\COM10", "rfc2217://192.168.1.20:4000", "socket://localhost:7777", "loop://",
             "hwgrep://0403:6001", "/dev//ttyUSB0", "./ttyV0", "/dev/./ttyS0", "/dev/pts/", "~/tty", "../x", "C:\\dev\\x", "/dev/tty.usb*",
             "/dev/ttyUSB?", "{port}", "{0}", "{}", "{board}", "{{x}}", "}{", "%s", "%d", "%%", "%(board)s", "${sysenv.PORT}", "$PORT",
             "$(tty)", "`tty`", "a'b", 'a"b', '"COM3"', "'COM3'", "a,b", "a;b", "a#b", "a ;b", "a #b", "x\\n", "\\t", "0", "007", "1e3",
             "-1", "0x10", "True", "none", "None", "yes", "on", "192.168.0.7", "192.168.0.7:23", "[::1]:23", "board = zz", "upload_port = x",
             "lib_deps =", "[env:x]", "\U0001f600", "\u6f22\u5b57", "e\u0301", "\u05d0\u05d1", "A" * 300, "/dev/" + "x" * 120,
             "a" * 79 + " " + "b" * 79, "x=", "=x", ":x", "x:", "x]", "[x", "-", "--port", "-p COM3", "@", "!", "&", "|", "<", ">", "(", ")", "*", "?", "^", "+", "~"]

LIB_POOL = ["Servo", "LiquidCrystal", "LiquidCrystal_I2C", "", "a b", "x=y", "arduino-libraries/Servo@^1.2.1", "\u00e9", "[z]", "Servo",
            "servo", "SERVO", "Servo2", "a  b", "Serv", "ervo", "Servo@1.2.3", "Servo @ 1.2.3", "https://github.com/x/y.git#v1",
            "symlink://../lib", "file:///tmp/lib", "{lib}", "{0}", "{}", "%s", "%(x)s", "${x}", "a;b", "a #b", "a ;b", "x:y", "lib_deps = q",
            "lib_deps", "[env:x]", "board = zz", "e\u0301", "\u00e9", "\U0001f600", "\u6f22\u5b57", "a,b", "a, b", "A" * 200, "0", "None",
            "-", "=", ":", "]", "'Servo'", '"Servo"', "Servo\\", "~lib", "*", "Wire", "SPI", "wire"]

SRC_POOL = ["", "void setup(){}\nvoid loop(){}\n", "// \u00e9 \u00fc \u221a \u6f22\u5b57\r\nint x;\n", "\n\n  \n", "[env:x]\nboard = y\n",
            "int x;", "int x;\n\n\n", " \tint x;\t \n", "\r", "\r\n", "a\rb\r", "\x0c\x0b\x1c", "x\x00y", "\ufeffint x;\n", "int x;\ufeff",
            "// \U0001f600 \U00010348\n", "e\u0301 \u00e9\n", "\u2028\u2029\x85", "{} {0} {port} %s %(x)s ${x} \\n \\\\", "#include <Servo.h>\n" * 400,
            "x" * 70000, "\u6f22" * 9000, "\n" * 5000, "a\n" * 3 + "b", "\\", "'\"'", "\t"]


def near_misses(name: str):
    out = {name.upper(), name.lower(), name + " ", " " + name, name[:-1], name + "x", name.capitalize(), name.swapcase(), name + "\n"}
    out.discard(name)
    return sorted(out)


def in_guard_port(p: str) -> bool:
    return p.isprintable() and p == p.strip()


def in_guard_lib(n: str) -> bool:
    return n == "" or (n.isprintable() and n == n.strip() and n[0] not in "#;")


def gen_text(rng, alphabet, maxlen):
    return "".join(rng.choice(alphabet) for _ in range(rng.randint(0, maxlen)))


def expected_parsed(pl, b, port, libs):
    uniq = []
    for n in libs or []:
        if n and n not in uniq:
            uniq.append(n)
    return {"platform": pl, "board": b, "framework": "arduino", "upload_port": port}, uniq


def check_write(ctx, case, res):
    """Property oracle on the real write_project + configparser read-back."""
    _, src, port, pl, b, libs, pre = case[:7]
    if res["status"] != "ok":
        ctx.fail(f"write_project raised {res} for a registered pair", case, "project written", res, key="write-raised")
        return
    if not res["main_equal"]:
        ctx.fail("src/main.cpp is not the given source verbatim", case, "bytes equal", "differ", key="main-bytes")
    # the statement: "touches nothing outside the project directory" - entries inside it, and the missing
    # ancestors mkdir has to create on the way down to it, are not outside
    proj = res.get("proj_rel", "proj/")
    inside = lambda e: e.startswith(proj) or proj.startswith(e)
    stray = [e for e in res["new_entries"] + res["removed_entries"] if not inside(e)] + list(res.get("changed_outside", []))
    if stray or not res["outside_ok"]:
        ctx.fail("write_project touched something outside the project directory", case, "only entries under " + proj, sorted(set(stray)), key="outside")
    parsed = res["parsed"]
    want, uniq = expected_parsed(pl, b, port, libs)
    secs = [s for s in parsed if s != "DEFAULT"]
    ok = len(secs) == 1 and secs[0].startswith("env:") and "DEFAULT" not in parsed and "__error__" not in parsed
    got = dict(parsed[secs[0]]) if ok else None
    if ok:
        got_libs = [l for l in got.pop("lib_deps", "").split("\n") if l != ""]
        ok = got == want and got_libs == uniq
    if not ok:
        ctx.fail("platformio.ini does not read back as the given configuration", case,
                 {"section": "env:*", **want, "lib_deps": uniq}, parsed, key="ini-readback")


def check_write_invalid(ctx, case, res):
    """an unregistered pair: ValueError, and not a byte of the tree changed"""
    if res["status"] != "ValueError" or not res.get("tree_unchanged"):
        seen = {"status": res["status"]}
        if res["status"] == "ok":
            seen["platformio.ini"] = res.get("ini")
        else:
            seen.update({k: v for k, v in res.items() if k != "status"})
        ctx.fail("write_project with an unregistered (platform, board) pair did not raise ValueError before writing", case,
                 "ValueError, nothing written", seen, key="write-invalid")


def validate_stream(ctx, stream, vcases, plats, families=None):
    """one stream of (platform, board) cases through validate_platform_board: property oracle on the implementation
    (verdict == registered for exactly that platform) and correspondence with the extracted model (verdict and error
    kind).  The model also answers what the four keyed variants of Tool/NearMiss.v would do, which measures how many
    cases separate exact lookup from lookup through an index keyed by a normalised name."""
    impl = C.run_impl("c13_impl.py", {"cases": vcases})
    model = ctx.model([[6, c[1], c[2]] for c in vcases]) if ctx.exe else [None] * len(vcases)
    st = {"cases": len(vcases), "accepted": 0, "outcomes": {}, "separating": {"env_name": 0, "case_fold": 0, "strip": 0, "squash": 0},
          "nontrivial": set()}
    owners_of = {}
    for p, bs in plats.items():
        for b in bs:
            owners_of.setdefault(b, []).append(p)
    for c, r, m in zip(vcases, impl, model):
        pl, b = c[1], c[2]
        should = owners_of.get(b) == [pl]
        accepted = r[0] == "ok"
        st["accepted"] += accepted
        k = r[0] + (":" + str(r[1]) if r[0] == "ValueError" else "")
        st["outcomes"][k] = st["outcomes"].get(k, 0) + 1
        if accepted or (r[0] == "ValueError" and r[1] in (2, 3)):
            st["nontrivial"].add((pl, b))
        if r[0] == "Other":
            ctx.fail(f"validate_platform_board raised {r[1]} (not ValueError)", c, "ok or ValueError", r, key="validate-exc")
        elif accepted != should:
            why = ""
            if families is not None:
                fam = families[0].get(b) or families[1].get(pl)
                if fam:
                    why = f" [{stream}: {fam[0]} variant of {fam[1]!r}]"
            ctx.fail("validate_platform_board verdict differs from 'registered for exactly that platform'" + why, c,
                     "accept" if should else "ValueError", r, key="validate-verdict")
        if m is not None:
            mv = m[1]
            if (mv == 0) != accepted or (not accepted and r[0] == "ValueError" and r[1] != 0 and mv != r[1]):
                ctx.disagree(f"validate ({stream}): model vs implementation", c, m, r)
            for name, kv in zip(("env_name", "case_fold", "strip", "squash"), m[2:6]):
                st["separating"][name] += kv != mv
    return st


def run_impl_cases(cases, jobs=12):
    """C.run_impl on slices of the case list in parallel subprocesses (every case is independent: own temp dir)"""
    import concurrent.futures
    if len(cases) < 64:
        return C.run_impl("c13_impl.py", {"cases": cases})
    n = (len(cases) + jobs - 1) // jobs
    parts = [cases[i:i + n] for i in range(0, len(cases), n)]
    with concurrent.futures.ThreadPoolExecutor(len(parts)) as ex:
        outs = list(ex.map(lambda part: C.run_impl("c13_impl.py", {"cases": part}), parts))
    return [r for o in outs for r in o]


def simplicity(f):
    """replays: plain short ASCII cases first (the order of the failures list decides which case is written out)"""
    text = repr(f.get("case"))
    return (sum(1 for ch in text if not (" " <= ch <= "~")) + text.count("\\"), len(text))


def run(ctx: C.Ctx):
    import time
    rng = ctx.rng
    t0 = time.time()
    phase = {}

    def lap(name):
        nonlocal t0
        phase[name] = round(time.time() - t0, 2)
        t0 = time.time()
    thorough = ctx.tier == "thorough"
    reg = C.run_impl("c13_impl.py", {"cases": [["registry"]]})[0]
    plats = reg["platforms"]
    all_boards = sorted({b for bs in plats.values() for b in bs})

    # ---------------- property oracle 1 (implementation only): registry partition
    for b in all_boards:
        owners = [p for p, bs in plats.items() if b in bs]
        if len(owners) != 1:
            ctx.fail(f"board {b!r} is registered for {len(owners)} platforms", ["registry", b], "exactly one platform", owners, key="partition")

    # ---------------- cases for validate
    pcands = list(plats) + [m for p in plats for m in near_misses(p)][: (40 if thorough else 14)] + ["", "atmel", "avr"]
    pcands += rng.sample(all_boards, 20 if thorough else 6)
    bcands = list(all_boards) + list(plats) + ["", "UNO", "Uno", "uno ", "nano", "esp32dev"]
    for b in (all_boards if thorough else rng.sample(all_boards, 120)):
        nm = near_misses(b)
        bcands += nm if thorough else rng.sample(nm, 2)
    pcands = sorted(set(pcands))
    bcands = sorted(set(bcands))
    vcases = [["validate", p, b] for p in pcands for b in bcands]
    vstat = validate_stream(ctx, "registry x simple near-misses", vcases, plats)

    lap("validate: registry x simple near-misses")
    # ---------------- near-miss names, by the loosening of the lookup they would slip through (harness/c13_names.py)
    # boards: every family for every registered id, against every real platform ...
    fam_count = {}
    board_nm = {}                      # name -> (family, the id it was derived from)
    for rnd in range(5 if thorough else 1):
        for b in all_boards:
            for fam, vs in NM.near_miss_names(b, rng).items():
                for v in vs:
                    if v not in board_nm:
                        board_nm[v] = (fam, b)
                        fam_count["board:" + fam] = fam_count.get("board:" + fam, 0) + 1
    plat_nm = {}
    for rnd in range(5 if thorough else 1):
        for pname in plats:
            for fam, vs in NM.near_miss_names(pname, rng).items():
                for v in vs:
                    if v not in plat_nm:
                        plat_nm[v] = (fam, pname)
                        fam_count["platform:" + fam] = fam_count.get("platform:" + fam, 0) + 1
    ncases = [["validate", p, v] for v in sorted(board_nm) for p in plats]
    # ... platform near-misses against registered boards of both platforms and against board near-misses ...
    some_boards = [rng.choice(sorted(bs)) for bs in plats.values() for _ in range(12 if thorough else 5)]
    some_nm = rng.sample(sorted(board_nm), 60 if thorough else 12)
    ncases += [["validate", v, b] for v in sorted(plat_nm) for b in some_boards + some_nm]
    # ... each kind of name in the other position (platform near-misses as boards, board near-misses as platforms) ...
    ncases += [["validate", p, v] for v in sorted(plat_nm) for p in plats]
    ncases += [["validate", v, b] for v in rng.sample(sorted(board_nm), 3000 if thorough else 600) for b in some_boards[:2]]
    # ... and near-miss x near-miss
    pn_sample = rng.sample(sorted(plat_nm), min(len(plat_nm), 40 if thorough else 8))
    ncases += [["validate", p, v] for v in rng.sample(sorted(board_nm), 20000 if thorough else 1500) for p in pn_sample[:(8 if thorough else 4)]]
    nstat = validate_stream(ctx, "near-miss families", ncases, plats, families=(board_nm, plat_nm))

    lap("validate: near-miss families")
    # ---------------- names the module itself knows: members of every module-level container of pio.py and the
    # string constants of its source (an alias table, a second index, a default name would be found here)
    harvested = C.run_impl("c13_impl.py", {"cases": [["harvest"]]})[0]
    hnames = sorted({h[0] for h in harvested})
    hcases = [["validate", p, h] for h in hnames for p in plats]
    hcases += [["validate", h, b] for h in hnames if h not in plats for b in some_boards[:4]]
    hstat = validate_stream(ctx, "strings harvested from pio.py", hcases, plats)
    n_hv_unreg = len([h for h in hnames if h not in all_boards and h not in plats])

    lap("validate: harvested strings")
    # ---------------- cases for write_project (inside the guard)
    wcases = []
    pairs = [(p, b) for p, bs in plats.items() for b in sorted(bs)]
    n_w = 2000 if thorough else 260
    libpool = LIB_POOL
    srcpool = SRC_POOL

    def some_port():
        r = rng.random()
        if r < 0.55:
            return rng.choice(PORT_POOL)
        return gen_text(rng, PRINTABLE if r < 0.75 else PRINTABLE_WIDE, 12 if r < 0.95 else 200)

    def some_libs():
        r = rng.random()
        if r < 0.12:
            return None
        if r < 0.2:       # a long list with few distinct names: repeats far apart
            base = rng.sample(libpool, 4)
            return [rng.choice(base) for _ in range(rng.randint(8, 40))]
        return [rng.choice(libpool) if rng.random() < 0.7 else gen_text(rng, PRINTABLE_WIDE, 8) for _ in range(rng.randint(0, 6))]

    def guard(port, libs):
        if not in_guard_port(port):
            port = "".join(c for c in port if c.isprintable()).strip()
        if libs is not None:
            libs = [n if in_guard_lib(n) else "".join(c for c in n if c.isprintable()).strip().lstrip("#;").strip() for n in libs]
        return port, libs

    for i in range(n_w):
        pl, b = pairs[i % len(pairs)] if i < 40 else rng.choice(pairs)
        port, libs = guard(some_port(), some_libs())
        src = rng.choice(srcpool) if rng.random() < 0.7 else gen_text(rng, PRINTABLE_WIDE + "\n\t\r", 60)
        r = rng.random()
        pre = r < 0.2
        if 0.2 <= r < 0.5:
            # an earlier write_project into the same directory with a related source / configuration
            variants = [src, src.replace("\r\n", "\n").replace("\n", "\r\n"), src.replace("\r\n", "\n"), src.replace("\n", "\r"),
                        src + "\n", src.rstrip(), src.upper(), src + " ", "\ufeff" + src, src[:-1], src + src, src + "x" * 50]
            pre = ["prior", rng.choice(variants), rng.choice([port, "COM9", port + "0", port + "/dev/ttyUSB0" * 3]).strip(),
                   rng.choice([libs, ["Servo"], None, [], (libs or []) + ["Extra", "More"]])]
            if rng.random() < 0.4:     # ... generated for another registered board (longer / shorter names, another platform)
                pre += list(rng.choice(pairs))
        wcases.append(["write", src, port, pl, b, libs, pre, rng.choice([0, 0, 1, 2, 3, 4])])
    # every registered pair is written at least once (env-name sanitising and the ini for every board id)
    for i, (pl, b) in enumerate(pairs):
        port, libs = guard(PORT_POOL[i % len(PORT_POOL)], [LIB_POOL[(i + j) % len(LIB_POOL)] for j in range(i % 4)])
        wcases.append(["write", SRC_POOL[i % 19], port, pl, b, libs, False, 0])
    # degenerate sources onto every kind of earlier state (nothing / foreign files / an earlier project with a longer,
    # an equal-length and a shorter source): "always writes the given source", also when it is empty or blank
    n_degenerate = 0
    for src in ["", "\n", " ", "\x00", "\r\n", "x"]:
        for pre in [False, True, ["prior", "int old_source = 1;\n", "COM3", ["Servo"]], ["prior", (src + "y")[:max(len(src), 1)], "COM3", None],
                    ["prior", src, "COM3", None], ["prior", "", "COM3", None]]:
            wcases.append(["write", src, "COM3", "atmelavr", "uno", None, pre, 0])
            n_degenerate += 1
    # library lists exhaustively over a boundary alphabet: a name, another, the empty entry, a superstring of the
    # first, its case variant (every order, every repeat pattern up to the length bound)
    alpha = ["Servo", "Wire", "", "Servo2", "servo"]
    import itertools
    for n in range(0, 7 if thorough else 5):
        for combo in itertools.product(alpha, repeat=n):
            wcases.append(["write", "int x;", "COM3", "atmelavr", "uno", list(combo), False, 0])
    n_exh = sum(len(alpha) ** n for n in range(0, 7 if thorough else 5))

    # unregistered pairs must write nothing: fixed ones, then near-miss names in board and platform position
    # (fresh directory, or on top of a project generated earlier for the registered twin - which must stay as it was)
    bad = [("atmelavr", "nano_every"), ("atmelmegaavr", "uno"), ("x", "uno"), ("atmelavr", "zz")]
    twinish = [v for v in sorted(board_nm) if board_nm[v][0] in NM.TWIN_FAMILIES + ("unicode",)]
    for v in rng.sample(twinish, 5000 if thorough else 420) + rng.sample(sorted(board_nm), 3000 if thorough else 240):
        home = board_nm[v][1]
        owner = next(p for p, bs in plats.items() if home in bs)
        bad.append((owner if rng.random() < 0.85 else rng.choice(list(plats)), v))
    for v in rng.sample(sorted(plat_nm), 200 if thorough else 60):
        bad.append((v, rng.choice(sorted(plats[plat_nm[v][1]]))))
    bad += [(p, h) for h in hnames for p in plats]
    bad = [(p, b) for p, b in bad if not (b in plats.get(p, ()))]
    wbad = []
    for i, (p, b) in enumerate(bad):
        pre = False
        if i % 3 == 1:
            pre = True
        elif i % 3 == 2:
            pre = ["prior", "int y;", "COM7", ["Servo"]] + list(rng.choice(pairs))
        wbad.append(["write", "int x;", rng.choice(["COM1", "/dev/ttyUSB0"]), p, b, rng.choice([["Servo"], None, ["a", "b"]]), pre, i % 5])
    wres = run_impl_cases(wcases + wbad)
    for c, r in zip(wcases, wres):
        check_write(ctx, c, r)
    for c, r in zip(wbad, wres[len(wcases):]):
        check_write_invalid(ctx, c, r)
    if ctx.exe:
        mb = ctx.model([[1, c[2], c[3], c[4], list(c[5] or [])] for c in wbad])
        for c, r, m in zip(wbad, wres[len(wcases):], mb):
            if m[0] != 1 or (r["status"] == "ValueError" and r.get("kind") not in (0, m[1])) or r["status"] != "ValueError":
                ctx.disagree("write_project on an unregistered pair: model vs implementation", c, m, {k: r.get(k) for k in ("status", "kind")})

    lap("write_project: implementation runs + oracles")
    # ---------------- model correspondence for the INI renderer (if the model has it)
    n_ini = ini_correspondence(ctx, wcases, wres)
    lap("write_project: model correspondence")
    # ---------------- the model on its whole domain (outside the guard: correspondence only, no oracle)
    ini_dist = ini_model_validation(ctx, pairs, all_boards)
    n_extra = sum(ini_dist.get(k, 0) for k in ("hostile_write_cases", "reader_texts", "libsec_cases", "envname_cases"))
    lap("model on its whole domain (outside the guard)")

    # ---------------- known findings: replay the listed witnesses
    for f in ctx.findings:
        if f.get("kind") == "fixed":
            continue
        w = f["witness"]
        case = ["write", w.get("src", "int x;"), w["port"], w.get("platform", "atmelavr"), w.get("board", "uno"), w.get("libs"), False]
        r = C.run_impl("c13_impl.py", {"cases": [case]})[0]
        probe = C.Ctx("C13", ctx.tier, ctx.seed)
        probe.findings = []
        check_write(probe, case, r)
        if probe.failures:
            ctx.known(f"{f['id']}: {f['what']}")

    streams = {"registry x simple near-misses": vstat, "near-miss families": nstat, "strings harvested from pio.py": hstat}
    nontrivial = set().union(*(st.pop("nontrivial") for st in streams.values()))
    n_validate = sum(st["cases"] for st in streams.values())
    ctx.coverage.update({
        "evaluations": n_validate + len(wcases) + len(wbad) + n_extra,
        "distinct_nontrivial": len(nontrivial) + len({repr(c) for c in wcases}) + len({(c[3], c[4]) for c in wbad}),
        "rule": "validate: (1) (platforms+near-miss+sampled board names) x (all registered boards+simple near-miss names); (2) near-miss families of harness/c13_names.py - for EVERY registered id: separator runs replaced/inserted/dropped, case variants, blank/control/invisible padding, Unicode compatibility forms / case-folding specials / foreign digits / homoglyphs / combining marks, version-path-key-quote decorations, glob-regex-LIKE metacharacters, every proper prefix and suffix, single edits, digit-run changes - each against every real platform; the same families of every platform name against boards of both platforms and against board near-misses; near-miss x near-miss samples; (3) every string held by a module-level container of pio.py or occurring as a constant in its source, in both positions.  Distinct non-trivial = accepted, unknown-board or mismatched pairs (unknown-platform rejections counted trivial).  All three streams feed the property oracle AND the model correspondence (verdict and error kind); 'separating' counts, per normaliser of Tool/NearMiss.v, the cases on which the extracted keyed-index variant answers differently from the model of the code.  write_project: seeded configurations inside the guard (ports from a pool of pyserial URLs, Windows/Unix device paths, format/shell/INI metacharacters, numerals and booleans, 300-character names, then random printable ASCII and non-ASCII incl. astral; library lists from a pool incl. superstrings, case variants, URLs, format fields, long lists with far-apart repeats; sources incl. NUL, BOM, CR-only, astral, 70 kB), 30 % onto an earlier project (related source, longer/shorter configuration, another board), project directory spelled absolute / relative to the current directory / not normalised / under missing non-ASCII ancestors; every registered pair written once; empty / blank / one-character sources onto six kinds of earlier directory state; library lists exhaustively over {name, other, '', superstring, case variant} up to the length bound; unregistered pairs (near-miss boards for their twin's platform, near-miss platforms, harvested strings) must raise ValueError and leave every byte of the watched tree (project, current directory, HOME, siblings) as it was.  Model-only streams (never the oracle): write_project with hostile ports/libraries outside the guard, the reader alone on structured random INI texts, _format_lib_section and _sanitize_env_name on generated inputs (not counted in distinct_nontrivial)",
        "samples": [vcases[len(vcases) // 2], ncases[len(ncases) // 3], ncases[len(ncases) // 2], ncases[-1], hcases[len(hcases) // 2]]
                   + [c for c in wcases[:n_w] if len(repr(c)) < 300 and isinstance(c[6], list)][:2]
                   + [c for c in wcases[:n_w] if len(repr(c)) < 300 and c[7] != 0][:1] + [wcases[n_w + 3], wcases[-7], wbad[5], wbad[-1]],
        "distribution": {"validate_cases": n_validate, "validate_streams": streams,
                         "near_miss_names_per_family": fam_count,
                         "near_miss_board_names": len(board_nm), "near_miss_platform_names": len(plat_nm),
                         "harvested_strings": len(hnames), "harvested_not_registered": n_hv_unreg,
                         "write_cases": len(wcases), "write_random": n_w, "write_every_registered_pair": len(pairs),
                         "write_exhaustive_lib_lists": n_exh, "write_degenerate_sources_x_earlier_states": n_degenerate, "write_invalid_pairs": len(wbad), "ini_model_cases": n_ini,
                         "write_onto_earlier_project": sum(1 for c in wcases if isinstance(c[6], list)),
                         "write_dir_forms": {str(k): sum(1 for c in wcases if c[7] == k) for k in range(5)},
                         "ports_non_ascii": sum(1 for c in wcases if not c[2].isascii()),
                         "ports_with_format_or_shell_meta": sum(1 for c in wcases if any(ch in c[2] for ch in "{}%$`*?~")),
                         "sources_over_10kB": sum(1 for c in wcases if len(c[1]) > 10000),
                         "platform_candidates": len(pcands), "board_candidates": len(bcands),
                         "lib_lists_with_duplicates": sum(1 for c in wcases if c[5] and len(set(c[5])) < len(c[5])),
                         "lib_lists_with_empties": sum(1 for c in wcases if c[5] and "" in c[5]),
                         "lib_lists_over_8": sum(1 for c in wcases if c[5] and len(c[5]) > 8),
                         "ini_model_validation": ini_dist, "phase_seconds (informative only)": phase},
        "exhaustive": False,
        "guard": "port: str.isprintable() and no leading/trailing blank; library names: printable, no blank padding, not starting with '#' or ';' (outside: known findings F-C13-*)",
        "unmodelled": ["PlatformIO's own INI reader (configparser(interpolation=None) stands for 'a standard INI parser')",
                       "UTF-8 encoding/decoding of the file (identity on code points; lone surrogates make write_project raise and are never sent)",
                       "str.lower() of cased non-ASCII letters in option names (model lower-cases A-Z only; such letters are kept out of generated keys; the template's keys are ASCII)",
                       "configparser exception kinds (the model has one 'read raises' outcome)",
                       "the oracle's guard is the property's 'printable' one; the theorem's guard is wider (any character but line breaks inside, no blank padding)",
                       "file-system failures, symbolic links inside the project directory",
                       "near-miss names are generated from fixed families (harness/c13_names.py); a loosening of the lookup that none of them anticipates is seen only through the source inventory obligation C13_source_inventory",
                       "non-str arguments; library arguments that are not lists (the signature allows any iterable, the statement says lists)"],
        "trusted_base": C.COMMON_TRUSTED + ["harness/impl/c13_impl.py (calls pio.validate_platform_board / write_project in a scratch dir, reads back with configparser)"],
    })
    ctx.failures.sort(key=simplicity)
    ctx.assumptions += ["CPython configparser(interpolation=None) is the reference INI reader", "registry tables are those of the imported module (translator reads them after import)",
                        "'registered' is membership in SUPPORTED_PLATFORMS as imported; the inventory of pio.py (names read by validate_platform_board / write_project, module-level data) is taken from byte code and module dict after import"]


# ---------------------------------------------------------------------------
# model-vs-implementation correspondence for the INI half
# ---------------------------------------------------------------------------

def model_sections(wsecs):
    """wire ((name ((key value)...))...) -> [[name, [[k, v], ...]], ...] in the shape of impl 'raw':
    sections in first-seen order, the default section last and only if it has options"""
    secs = [[C.wstr(s[0]), [[C.wstr(k), C.wstr(v)] for k, v in s[1]]] for s in wsecs]
    dflt = [s for s in secs if s[0] == "DEFAULT"]
    secs = [s for s in secs if s[0] != "DEFAULT"]
    if dflt and dflt[0][1]:
        secs.append(dflt[0])
    return secs


def same_read(msecs, raw):
    """msecs: model_sections(...) or None for 'the read raises'; raw: impl raw tables or {'__error__': kind}"""
    if isinstance(raw, dict):
        return msecs is None
    return msecs is not None and msecs == raw


def compare_write(ctx, stream, wcases, wres, outs):
    """tag-1 outputs against write_project's real file and configparser's real tables"""
    n_err = 0
    for c, r, m in zip(wcases, wres, outs):
        if r["status"] != "ok":
            if m[0] == 0:
                ctx.disagree(f"render ({stream}): model writes, implementation raises", c, m[0], r["status"])
            continue
        # model returns (0 ini_text sections) - sections () when the read raises - or (1 kind)
        if m[0] != 0:
            ctx.disagree(f"render ({stream}): model rejects, implementation writes", c, m, r["status"])
            continue
        mtext = C.wstr(m[1])
        if mtext != r["ini"]:
            ctx.disagree(f"platformio.ini text ({stream}): model vs implementation", c, mtext, r["ini"])
            continue
        msecs = model_sections(m[2]) if m[2] != [] else None
        n_err += msecs is None
        if not same_read(msecs, r["raw"]):
            ctx.disagree(f"ini_read model vs configparser ({stream})", c, msecs, r["raw"])
    return n_err


def ini_correspondence(ctx, wcases, wres):
    """model render/ini_read vs the real renderer and configparser on the in-guard write cases;
    returns number of cases compared."""
    if not ctx.exe:
        return 0
    try:
        probe = ctx.model([[1, "COM1", "atmelavr", "uno", []]])
    except Exception:
        return 0
    if probe == [[2]]:
        return 0  # model has no INI part yet
    cases = [[1, c[2], c[3], c[4], list(c[5] or [])] for c in wcases]
    outs = ctx.model(cases)
    compare_write(ctx, "in guard", wcases, wres, outs)
    return len(cases)


# hostile material: blanks of every kind, line breaks, comment prefixes, delimiters, brackets,
# things that look like headers / options / continuation lines, upper-case keys.
# Cased non-ASCII letters are left out (the model lower-cases ASCII only), as are lone surrogates
# (not encodable as UTF-8: write_project raises before anything is read back).
ATOMS = ["", " ", "  ", "\t", "\r", "\n", "\r\n", "#", ";", "=", ":", "[", "]", "[x]", "[env:uno]", "[DEFAULT]",
         "KEY = v", "Key: V", "lib_deps = q", "board = zz", "upload_port", "\xa0", "\u2003", "\u3000", "\x0b", "\x0c",
         "\x1c", "\x85", "\u2028", "\u00e9", "a", "B", "0", "%(x)s", "x=y", "COM3", "Servo", "\x00", "\u221a\u6f22"]
SHORT = ["", " ", "\t", "\n", "\r", "#", ";", "=", ":", "[x]", "a", "K = v", "\xa0"]


def hostile_text(rng, maxatoms=4):
    return "".join(rng.choice(ATOMS) for _ in range(rng.randint(0, maxatoms)))


def ini_texts(rng, n):
    """structured random INI-like files for the reader alone"""
    ws = ["", " ", "  ", "\t", "\xa0", "\x0c", " \u2003", "   "]
    toks = ["a", "b", "K", "Key", "x y", "\u00e9", "#c", ";c", "[q]", "a=b", "a:b", "DEFAULT", "lib_deps", "%(x)s", "", "]", "[",
            "=", ":", "a]b", "\x1c", "\x85z", "z\x0b", "env:uno"]

    def line():
        k = rng.random()
        w, w2, w3 = rng.choice(ws), rng.choice(ws), rng.choice(ws)
        t = lambda: rng.choice(toks)
        if k < 0.2:
            return w + "[" + t() + "]" + w2 + (t() if rng.random() < 0.2 else "")
        if k < 0.55:
            return w + t() + w2 + rng.choice("=:") + w3 + t() + rng.choice(ws)
        if k < 0.75:
            return rng.choice(ws[1:]) + t()
        if k < 0.85:
            return w
        if k < 0.92:
            return w + rng.choice("#;") + t()
        return hostile_text(rng, 3)

    fixed = ["", "\n", "[a]", "[a]\nk=v", "[a]\nk=v\n  c\n\n  d\n\nj:1", "k=v", "[a]\n[a]", "[a]\nk=1\nK=2", "[a]\n=v", "[a]\nnodelim",
             "[]", "[]]\nk=v", "[a]x]y\nk=v", "[DEFAULT]\na=1\n[s]\nb=2\n[DEFAULT]\nc=3", "[DEFAULT]\na=1\n[DEFAULT]\na=2",
             "[a]\r\nk=v\r  x\r\n", "[a]\n k=v\n  c\n k2=w\n c2", "[a]\n  k=v\n c\n", "[a]\nk=v\n#c\n  d\n", "[a]\nk\x0b=\x1cv\x85\n"]
    out = list(fixed)
    for _ in range(n):
        out.append(("[s]\n" if rng.random() < 0.7 else "") +
                   "".join(line() + rng.choice(["\n", "\n", "\n", "\r\n", "\r", ""]) for _ in range(rng.randint(0, 7))))
    return out


def ini_model_validation(ctx, pairs, all_boards):
    """Validation of the model on its WHOLE domain (model vs implementation only; these cases are
    outside the guard and never reach the property oracle).  Returns a distribution dict."""
    if not ctx.exe or ctx.model([[1, "COM1", "atmelavr", "uno", []]]) == [[2]]:
        return {}
    rng = ctx.rng
    thorough = ctx.tier == "thorough"
    dist = {}
    # (a) write_project with hostile ports / library names -> file text and configparser tables
    confs = [(p, None) for p in ATOMS] + [("COM3", [a]) for a in ATOMS]
    confs += [(a + b, None) for a in SHORT for b in SHORT] + [("COM3", [a, b]) for a in SHORT for b in SHORT]
    confs += [(a + "x" + b, ["y" + b, a + "z"]) for a in SHORT for b in SHORT]
    for _ in range(2500 if thorough else 350):
        confs.append((hostile_text(rng), None if rng.random() < 0.2 else [hostile_text(rng, 3) for _ in range(rng.randint(0, 4))]))
    wc = []
    for i, (port, libs) in enumerate(confs):
        pl, b = pairs[i % len(pairs)] if i % 3 else ("atmelavr", "uno")
        wc.append(["write", "int x;", port, pl, b, libs, False])
    wr = run_impl_cases(wc)
    outs = ctx.model([[1, c[2], c[3], c[4], list(c[5] or [])] for c in wc])
    n_err = compare_write(ctx, "outside guard", wc, wr, outs)
    dist["hostile_write_cases"] = len(wc)
    dist["hostile_write_read_raises"] = n_err
    dist["hostile_write_outside_guard"] = sum(1 for c in wc if not (in_guard_port(c[2]) and all(in_guard_lib(n) for n in (c[5] or []))))
    # (b) the reader alone on INI-like texts
    texts = ini_texts(rng, 8000 if thorough else 1500)
    rr = run_impl_cases([["iniread", t] for t in texts])
    mo = ctx.model([[4, t] for t in texts])
    n_ok = 0
    for t, r, m in zip(texts, rr, mo):
        msecs = model_sections(m[1]) if m[0] == 0 else None
        n_ok += msecs is not None
        if not same_read(msecs, r):
            ctx.disagree("ini_read model vs configparser (reader alone)", ["iniread", t], msecs, r)
    dist["reader_texts"] = len(texts)
    dist["reader_texts_parsed"] = n_ok
    dist["reader_texts_raise"] = len(texts) - n_ok
    # (c) _format_lib_section and _sanitize_env_name directly
    pool = ["Servo", "LiquidCrystal", "", "a b", " Servo ", "#x", "x=y", "Servo", "\u00e9", "\n", "a\nb", " ", "servo"]
    liblists = [None, [], [""], ["", ""], ["a"], ["a", "a"], ["a", "", "a"], ["a", "b", "a"], ["b", "a", "b", "a"]]
    for _ in range(1500 if thorough else 300):
        liblists.append([rng.choice(pool) if rng.random() < 0.8 else hostile_text(rng, 2) for _ in range(rng.randint(0, 7))])
    lr = C.run_impl("c13_impl.py", {"cases": [["libsec", l] for l in liblists]})
    lm = ctx.model([[2, list(l or [])] for l in liblists])
    for l, r, m in zip(liblists, lr, lm):
        if m[0] != 0 or C.wstr(m[1]) != r:
            ctx.disagree("_format_lib_section: model vs implementation", ["libsec", l], C.wstr(m[1]) if m[0] == 0 else m, r)
    dist["libsec_cases"] = len(liblists)
    dist["libsec_with_duplicates"] = sum(1 for l in liblists if l and len(set(l)) < len(l))
    dist["libsec_empty_result"] = sum(1 for r in lr if r == "")
    names = list(all_boards) + ["", "-", "--", "a--b", "-a-", "a b", "a_b", "a.b/c", "\u00e9", "a\u00e9\u00e9b", "\u0663", "A\n\nZ", "__", "a-_-b", "\u212a"]
    walpha = "abzAZ09_-. /+\u00e9\u0663\n:"
    for _ in range(3000 if thorough else 500):
        names.append("".join(rng.choice(walpha) for _ in range(rng.randint(0, 10))))
    er = C.run_impl("c13_impl.py", {"cases": [["envname", n] for n in names]})
    em = ctx.model([[3, n] for n in names])
    for n, r, m in zip(names, er, em):
        if m[0] != 0 or C.wstr(m[1]) != r:
            ctx.disagree("_sanitize_env_name: model vs implementation", ["envname", n], C.wstr(m[1]) if m[0] == 0 else m, r)
    dist["envname_cases"] = len(names)
    dist["envname_changed"] = sum(1 for n, r in zip(names, er) if n != r)
    return dist
