"""C14 - library deps, #includes and instantiated library classes always agree."""
from __future__ import annotations

import json
import re
from collections import Counter
from fractions import Fraction

from harness import common as C
from harness import fw

META = {
    "id": "C14",
    "technique": "Coq proof (structural induction over the nested IR skeleton: deep walk of _collect_required_libraries vs. the emitter's top-level scans; text model of the emitted object definitions / initialisation lines with injectivity of the generated identifiers; invariant proof that the emitter's name -> display-object resolution is the latest-binding semantics) + class->header / declaration->library tables regenerated from emitter.py and __init__.py by a fail-closed translator and pinned by a theorem + extracted-model correspondence with the real parse/_collect_required_libraries/emit (library lists, #include lines, every library-object line of the global section, the initialisation lines of setup(), the receiver object of every emitted LCD command) on exhaustively enumerated device multiplicities / positions / binding-and-command sequences and seeded random declarations + property oracle on lib list / #include lines / global object definitions / g++ link against the mock library headers",
    "level_text": "Theorems C14_* (coq/Props/C14.v) hold for all programs of a Gallina model (coq/Tool/Libs.v, coq/Tool/LibObjs.v) of _collect_required_libraries, of the emitter's include flags, of the text of its Servo / LiquidCrystal / LiquidCrystal_I2C object definitions and initialisation calls (constructor arguments, cols/rows, backlight pin) and of its name -> current display object resolution; the model is run against the real functions on every multiplicity 0..3 of {Servo, parallel LCD, I2C LCD} x other devices x permitted and non-permitted positions, on binding/command sequences and on random declarations with varied arguments, and sketches inside the quantifier are compiled and linked.",
    "level_note": "Trusted: Coq kernel, extraction, OCaml driver, the skeleton walker in harness/impl/c14_impl.py, the regexes that read #include lines and object definitions from the emitted text, g++ and the mock library headers. The theorems are about the model; the correspondence bounds its distance from __init__.py / emitter.py.",
    "design_ref": "DESIGN.md section 4 C14",
}

LIBS = ["Servo", "LiquidCrystal", "LiquidCrystal_I2C"]                      # model lib 0,1,2
HEADERS = ["Servo.h", "LiquidCrystal.h", "Wire.h", "LiquidCrystal_I2C.h"]  # model header 0..3
HEADER_LIB = {"Servo.h": "Servo", "LiquidCrystal.h": "LiquidCrystal", "LiquidCrystal_I2C.h": "LiquidCrystal_I2C"}

IMPORTS = """from Reduino import target
from Reduino.Actuators import Servo
from Reduino.Actuators import Led
from Reduino.Actuators import Buzzer
from Reduino.Actuators import DCMotor
from Reduino.Displays import LCD
from Reduino.Sensors import Potentiometer
from Reduino.Core import analog_read
from Reduino.Utils import sleep
target("COM3")
"""

SERVO_DECL = ["sv0 = Servo(9)", "sv1 = Servo(pin=10, min_angle=0, max_angle=170)", "sv2 = Servo(6, min_pulse_us=600, max_pulse_us=2300)"]
PAR_DECL = ["lp0 = LCD(rs=12, en=11, d4=5, d5=4, d6=3, d7=2)",
            "lp1 = LCD(22, 23, 24, 25, 26, 27, cols=20, rows=4)",
            "lp2 = LCD(rs=30, en=31, d4=32, d5=33, d6=34, d7=35, rw=36, backlight_pin=44)"]
I2C_DECL = ["li0 = LCD(i2c_addr=0x27)", "li1 = LCD(i2c_addr=0x3F, cols=20, rows=4)", "li2 = LCD(cols=16, rows=2, i2c_addr=38)"]
SERVO_USE = ["sv0.write(90)", "sv1.write(45)", "sv2.write(10)"]
PAR_USE = ['lp0.write(0, 0, "A")', 'lp1.write(1, 0, "B")', "lp2.clear()"]
I2C_USE = ['li0.write(0, 0, "C")', 'li1.write(0, 1, "D")', "li2.clear()"]

OTHER_DECL = ["led = Led(13)", "bz = Buzzer(8)", 'pot = Potentiometer("A1")', "mot = DCMotor(4, 7, 3)"]
OTHER_SETUP = ["led.on()", "for q in range(2):", "    led.toggle()", "    sleep(5)"]
OTHER_LOOP = ["r = pot.read()", "if r > 100:", "    led.on()", "    mot.set_speed(0.5)", "else:", "    led.off()", "    mot.stop()", "bz.beep()"]

DECLS = {"S": SERVO_DECL, "P": PAR_DECL, "I": I2C_DECL}
USES = {"S": SERVO_USE, "P": PAR_USE, "I": I2C_USE}
KIND_LIB = {"S": "Servo", "P": "LiquidCrystal", "I": "LiquidCrystal_I2C"}
ORDERS = ["SPI", "IPS", "PSI", "round"]


def ind(lines, n=1):
    return ["    " * n + l for l in lines]


def ordered(order, groups):
    """groups: {"S": [...], "P": [...], "I": [...]} -> one list in the given order"""
    if order == "round":
        out, k = [], 0
        while any(k < len(groups[g]) for g in "SPI"):
            for g in "IPS":
                if k < len(groups[g]):
                    out.append(groups[g][k])
            k += 1
        return out
    return [x for g in order for x in groups[g]]


def rotl(xs, r):
    r %= len(xs)
    return xs[r:] + xs[:r]


def script_in(s, p, i, others, mode, has_loop, order, rot=0):
    """A script INSIDE the quantifier: LCDs before the main loop; servos before it (mode 'pre'),
    at the top of its body ('top'), or the first before and the rest at the top ('split').
    rot rotates which constructor spellings (positional / keyword / optional pins such as rw=) are used first,
    so that every spelling also occurs as the ONLY device of its kind."""
    pre_s = {"pre": s, "top": 0, "split": min(1, s)}[mode]
    SERVO_DECL, PAR_DECL, I2C_DECL = rotl(DECLS["S"], rot), rotl(DECLS["P"], rot), rotl(DECLS["I"], rot)
    SERVO_USE, PAR_USE, I2C_USE = rotl(USES["S"], rot), rotl(USES["P"], rot), rotl(USES["I"], rot)
    lines = [IMPORTS.rstrip("\n")]
    if others:
        lines += OTHER_DECL
    lines += ordered(order, {"S": SERVO_DECL[:pre_s], "P": PAR_DECL[:p], "I": I2C_DECL[:i]})
    uses = ordered(order, {"S": SERVO_USE[:s], "P": PAR_USE[:p], "I": I2C_USE[:i]})
    if others:
        lines += OTHER_SETUP
    if has_loop:
        body = SERVO_DECL[pre_s:s] + uses + (OTHER_LOOP if others else []) + ["sleep(20)"]
        lines += ["while True:"] + ind(body)
    else:
        lines += uses + ["sleep(20)"]
    return "\n".join(lines) + "\n"


CONTAINERS = ["if", "elif", "else", "while", "for", "try", "except", "fn", "deep"]


def nest(container, inner):
    """wrap the statement lines `inner` into a control structure; returns (prelude_at_indent0, lines)"""
    if container == "if":
        return [], ["if v > 1:"] + ind(inner)
    if container == "elif":
        return [], ["if v > 900:", "    sleep(1)", "elif v > 1:"] + ind(inner)
    if container == "else":
        return [], ["if v > 900:", "    sleep(1)", "else:"] + ind(inner)
    if container == "while":
        return [], ["k = 0", "while k < 2:"] + ind(inner) + ["    k = k + 1"]
    if container == "for":
        return [], ["for j in range(2):"] + ind(inner)
    if container == "try":
        return [], ["try:"] + ind(inner) + ["except Exception:", "    sleep(1)"]
    if container == "except":
        return [], ["try:", "    sleep(1)", "except Exception:"] + ind(inner)
    if container == "fn":
        return ["def helper():"] + ind(inner), ["helper()"]
    if container == "deep":
        return [], ["for j in range(2):", "    if v > 1:"] + ind(inner, 2)
    raise ValueError(container)


def script_nested(kind, container, region, also_documented, others):
    """A script OUTSIDE the quantifier: one device of `kind` declared inside a control structure
    (in setup or in the main loop) or inside a function."""
    lines = [IMPORTS.rstrip("\n")]
    if others:
        lines += OTHER_DECL
    if also_documented:
        lines += [DECLS[kind][1], USES[kind][1]]
    prelude, block = nest(container, [DECLS[kind][0], USES[kind][0]])
    lines += prelude
    lines += ['v = analog_read("A0")']
    if region == "setup":
        lines += block + ["while True:", "    sleep(20)"]
    else:
        lines += ["while True:"] + ind(['v = analog_read("A0")'] + block + ["sleep(20)"])
    return "\n".join(lines) + "\n"


def script_loop_decl(kind, n, where, extra, others):
    """declarations of `kind` in the main loop body: where='top' (LCD: outside the quantifier) or
    'mid' (after other statements; outside the quantifier's wording for every kind)"""
    lines = [IMPORTS.rstrip("\n")]
    if others:
        lines += OTHER_DECL
    for g in extra:
        lines += [DECLS[g][2], USES[g][2]]
    body = []
    if where == "mid":
        body += ["sleep(5)", 'w = analog_read("A2")']
    body += DECLS[kind][:n] + USES[kind][:n] + ["sleep(20)"]
    lines += ["while True:"] + ind(body)
    return "\n".join(lines) + "\n"


def script_post(kind, others):
    """declaration textually after the `while True:` block"""
    lines = [IMPORTS.rstrip("\n")] + (OTHER_DECL if others else [])
    lines += ["while True:", "    sleep(20)", DECLS[kind][0], USES[kind][0]]
    return "\n".join(lines) + "\n"


def script_rebind(first, second, extra, with_servo):
    """one LCD variable bound twice before the loop"""
    d = {"P": "lcd = LCD(rs=12, en=11, d4=5, d5=4, d6=3, d7=2)", "I": "lcd = LCD(i2c_addr=0x27)"}
    lines = [IMPORTS.rstrip("\n")]
    if with_servo:
        lines += [SERVO_DECL[0]]
    for g in extra:
        lines += [DECLS[g][1]]
    lines += [d[first], 'lcd.write(0, 0, "A")', d[second], 'lcd.write(0, 0, "B")', "while True:", "    sleep(20)"]
    return "\n".join(lines) + "\n"


LCD_ARGS = {"P": ["rs=12, en=11, d4=5, d5=4, d6=3, d7=2", "22, 23, 24, 25, 26, 27, cols=20, rows=4", "rs=30, en=31, d4=32, d5=33, d6=34, d7=35, rw=36, backlight_pin=44"],
            "I": ["i2c_addr=0x27", "i2c_addr=0x3F, cols=20, rows=4", "cols=16, rows=2, i2c_addr=38"]}
BIND_ALPHABET = [("a", "P"), ("a", "I"), ("b", "P"), ("b", "I")]


def script_bindings(seq, rot, others, with_servo, has_loop):
    """LCD variables bound (and bound again) before the main loop: seq = [(variable, "P"|"I"), ...] in textual order,
    every binding followed by a command on the variable; the last bindings are used again in the loop body.
    This is the region the repaired finding F-C14-lcd-rebind used to exclude (plus same-interface re-bindings)."""
    lines = [IMPORTS.rstrip("\n")]
    if others:
        lines += OTHER_DECL
    if with_servo:
        lines += [SERVO_DECL[0]]
    for k, (var, kind) in enumerate(seq):
        lines += [f"{var} = LCD({LCD_ARGS[kind][(rot + k) % 3]})", f'{var}.write(0, {k % 2}, "{kind}{k}")']
    last = [f'{var}.write(1, 0, "L")' for var in dict.fromkeys(v for v, _ in seq)]
    if with_servo:
        last += [SERVO_USE[0]]
    if has_loop:
        lines += ["while True:"] + ind(last + (OTHER_LOOP if others else []) + ["sleep(20)"])
    else:
        lines += last + ["sleep(20)"]
    return "\n".join(lines) + "\n"


def binding_sequences(tier, rng):
    """sequences over {a, b} x {parallel, I2C} that bind some variable at least twice (first variable: a)"""
    import itertools
    out = []
    for n in (2, 3, 4):
        seqs = [list(q) for q in itertools.product(BIND_ALPHABET, repeat=n)
                if q[0][0] == "a" and len({v for v, _ in q}) < n]
        if tier != "thorough":
            if n == 3:
                seqs = seqs[::2]
            if n == 4:
                rng.shuffle(seqs)
                seqs = seqs[:8]
        out += seqs
    return out


def mixed(seq):
    """some variable is bound to both interfaces (the formerly excluded region)"""
    kinds = {}
    for v, k in seq:
        kinds.setdefault(v, set()).add(k)
    return any(len(x) == 2 for x in kinds.values())


def script_servo_rebind(where):
    lines = [IMPORTS.rstrip("\n"), "sv0 = Servo(9)", "sv0.write(1)"]
    if where == "pre":
        lines += ["sv0 = Servo(10)", "sv0.write(2)", "while True:", "    sleep(20)"]
    else:
        lines += ["while True:", "    sv0 = Servo(10)", "    sv0.write(2)", "    sleep(20)"]
    return "\n".join(lines) + "\n"


def gen_cases(tier, rng):
    """-> list of {"src", "cat": "in"|"out", "kind", "declared": set of lib names, "meta"}"""
    cases = []
    n = 0
    for s in range(4):
        for p in range(4):
            for i in range(4):
                for others in (False, True):
                    modes = [("pre", False), ("pre", True)]
                    if s >= 1:
                        modes.append(("top", True))
                    if s >= 2:
                        modes.append(("split", True))
                    for mode, has_loop in modes:
                        order = ORDERS[n % len(ORDERS)]
                        single = (s + p + i == 1)
                        for rot in ((0, 1, 2) if single else ((n // len(ORDERS)) % 3,)):
                            declared = {KIND_LIB[g] for g, k in (("S", s), ("P", p), ("I", i)) if k}
                            cases.append({"src": script_in(s, p, i, others, mode, has_loop, order, rot), "cat": "in", "kind": "in:" + mode + (":loop" if has_loop else ":noloop"),
                                          "declared": declared, "meta": {"s": s, "p": p, "i": i, "others": others, "mode": mode, "loop": has_loop, "order": order, "rot": rot}})
                        n += 1
    # same-name re-declarations with one interface / one class: inside the quantifier
    for first in "PI":
        for extra in ("", "P", "I", "PI"):
            declared = {KIND_LIB[first]} | {KIND_LIB[g] for g in extra}
            cases.append({"src": script_rebind(first, first, extra, False), "cat": "in", "kind": "in:rebind-same-interface", "declared": declared,
                          "meta": {"first": first, "second": first, "extra": extra}})
    # one LCD variable bound to both interfaces (the region the repaired finding F-C14-lcd-rebind used to exclude)
    # and longer binding sequences over two variables: inside the quantifier
    for first, second in (("P", "I"), ("I", "P")):
        for extra in ("", "P", "I"):
            for with_servo in (False, True):
                cases.append({"src": script_rebind(first, second, extra, with_servo), "cat": "in", "kind": "in:lcd-rebind-other-interface",
                              "declared": {"LiquidCrystal", "LiquidCrystal_I2C"} | ({"Servo"} if with_servo else set()), "rebind_mixed": True,
                              "meta": {"first": first, "second": second, "extra": extra, "servo": with_servo}})
    for k, seq in enumerate(binding_sequences(tier, rng)):
        others, with_servo, has_loop = bool(k % 2), (k % 3 == 1), (k % 4 != 3)
        cases.append({"src": script_bindings(seq, k, others, with_servo, has_loop), "cat": "in",
                      "kind": "in:lcd-bindings:" + ("mixed" if mixed(seq) else "same-interface"),
                      "declared": {KIND_LIB[g] for _, g in seq} | ({"Servo"} if with_servo else set()), "rebind_mixed": mixed(seq),
                      "meta": {"seq": ["%s:%s" % vk for vk in seq], "rot": k % 3, "others": others, "servo": with_servo, "loop": has_loop}})
    for where in ("pre", "top"):
        cases.append({"src": script_servo_rebind(where), "cat": "in", "kind": "in:servo-rebind", "declared": {"Servo"}, "meta": {"where": where}})

    out = []
    for kind in "SPI":
        for container in CONTAINERS:
            for region in ("setup", "loop"):
                if container == "fn" and region == "loop":
                    continue
                for also in (False, True):
                    others = (len(out) % 2 == 1)
                    out.append({"src": script_nested(kind, container, region, also, others), "cat": "out", "kind": f"out:nested:{container}",
                                "declared": {KIND_LIB[kind]}, "meta": {"kind": kind, "container": container, "region": region, "also_documented": also, "others": others}})
    for kind in "SPI":
        for cnt in (1, 2, 3):
            for where in ("top", "mid"):
                if kind == "S" and where == "top":
                    continue  # that is the quantifier's own position (covered above)
                for extra in ("", "PI" if kind == "S" else "S"):
                    others = (len(out) % 2 == 1)
                    out.append({"src": script_loop_decl(kind, cnt, where, extra, others), "cat": "out", "kind": f"out:loop-{where}:{kind}",
                                "declared": {KIND_LIB[kind]} | {KIND_LIB[g] for g in extra}, "meta": {"kind": kind, "n": cnt, "where": where, "extra": extra, "others": others}})
    for kind in "SPI":
        for others in (False, True):
            # declarations textually after `while True:` are rejected since repair 69cce40 ("statements after the main
            # loop are unreachable"): nothing is transpiled, so there is nothing to compare
            pass
    if tier != "thorough":
        # stratified: every multiplicity triple once (alternating others/mode), every boundary kind, a seeded rest
        ins = [c for c in cases if c["kind"].startswith("in:") and "s" in c["meta"]]
        keep, seen = [], set()
        rng.shuffle(ins)
        for c in ins:
            m = c["meta"]
            k = (m["s"], m["p"], m["i"], m["rot"] if m["s"] + m["p"] + m["i"] == 1 else -1)
            if k not in seen:
                seen.add(k)
                keep.append(c)
        rest = [c for c in ins if c not in keep]
        keep += rest[:30]
        keep += [c for c in cases if "s" not in c["meta"] and not c["kind"].startswith("in:lcd-")][::2]
        keep += [c for c in cases if c["kind"] == "in:lcd-rebind-other-interface" and not (c["meta"]["extra"] and c["meta"]["servo"])]
        keep += [c for c in cases if c["kind"].startswith("in:lcd-bindings:")]      # already subsampled by binding_sequences
        # outside the quantifier: every (kind, container, region) once without a documented twin (the twin
        # would mask a difference), every loop/after-loop/rebind shape once, plus a seeded rest
        keep_out = [c for c in out if c["kind"].startswith("out:nested:") and not c["meta"]["also_documented"]]
        keep_out += [c for c in out if c["kind"].startswith("out:loop-") and c["meta"]["n"] == 1 and not c["meta"]["extra"]]
        keep_out += [c for c in out if c["kind"] == "out:after-loop" and not c["meta"]["others"]]
        rest_out = [c for c in out if c not in keep_out]
        rng.shuffle(rest_out)
        keep_out += rest_out[:12]
        cases, out = keep, keep_out
    return cases + out + gen_object_cases(tier, rng) + gen_decoy_cases(tier, rng)



# ---------------------------------------------------------------- growth round: object text and receiver resolution
OBJ_IMPORTS = """from Reduino import target
from Reduino.Actuators import Servo
from Reduino.Actuators import Led
from Reduino.Displays import LCD
from Reduino.Core import analog_read
from Reduino.Utils import sleep
target("COM3")
"""
GEOMS = [(16, 2), (20, 4), (8, 1), (40, 2), (16, 4), ("4 * 4", "1 + 1"), ("2 - 1", 1), (1, "3 - 2")]
MIN_PULSES = ["544", "600", "600.5", "599.5", "0.4", "1000.25", "-0.5", "700.0"]
MAX_PULSES = ["2400", "2300", "2300.0", "2399.5", "2500.75"]
CMD_FORMS = ['{n}.write(0, {r}, "w{k}")', '{n}.line({r}, "l{k}")', "{n}.clear()", "{n}.progress(0, {k}, 10)"]


def lcd_ctor(rng, kind, bl_pool):
    """one LCD constructor call (argument text) of the given interface with randomly chosen spelling and arguments"""
    cols, rows = rng.choice(GEOMS)
    geom = rng.choice(["", "kw", "kw", "pos"])
    if kind == "I":
        addr = rng.choice(["0x27", "0x3F", "38", "av", "0x20", "0", "0x00", "0x27 - 39", "1 - 1"])
        args = [f"i2c_addr={addr}"]
        if geom:
            args += [f"cols={cols}", f"rows={rows}"]
        if rng.random() < 0.2 and bl_pool:
            args.append(f"backlight_pin={bl_pool.pop()}")
        rng.shuffle(args)
        return ", ".join(args)
    pins = rng.sample(range(22, 44), 7)
    pin_txt = [str(x) for x in pins[:6]]
    if rng.random() < 0.2:
        pin_txt[rng.randrange(6)] = rng.choice(["0", "0x0", "2 - 2"])        # falsy-looking pin values
    if rng.random() < 0.2:
        pin_txt[rng.randrange(6)] = "pv"
    if rng.random() < 0.5:
        args = list(pin_txt)
        if geom == "pos":
            args += [str(cols), str(rows)]
        elif geom:
            args += [f"cols={cols}", f"rows={rows}"]
    else:
        args = [f"{k}={v}" for k, v in zip(("rs", "en", "d4", "d5", "d6", "d7"), pin_txt)]
        rng.shuffle(args)
        if geom:
            args += [f"rows={rows}", f"cols={cols}"]
    if rng.random() < 0.35:
        args.append(f"rw={pins[6]}")
    if rng.random() < 0.4 and bl_pool:
        args.append(f"backlight_pin={bl_pool.pop()}")
    return ", ".join(args)


def servo_ctor(rng, pin):
    form = rng.randrange(4)
    if form == 0:
        return f"{pin}"
    if form == 1:
        return f"pin={pin}, min_angle=0, max_angle=170"
    mn, mx = rng.choice(MIN_PULSES), rng.choice(MAX_PULSES)
    if form == 2:
        return f"{pin}, min_pulse_us={mn}, max_pulse_us={mx}"
    return f"max_pulse_us={mx}, pin={pin}, min_pulse_us={mn}"


def script_objects(rng, size, blocks=True):
    """random declarations (Servo / parallel LCD / I2C LCD with varied constructor arguments; LCD names re-bound)
    interleaved with one-line LCD commands (top level and inside if/for/try/while bodies) before the main loop,
    commands in the loop body and in a function.  -> (source, declared libraries)"""
    lines = [OBJ_IMPORTS.rstrip("\n"), "sleep(7)", 'pv = analog_read("A0")', 'av = analog_read("A1")', "kk = 0"]
    declared = set()
    kinds = {}
    lcd_vars = rng.sample(["a", "b", "c"], rng.choice([1, 2, 2, 3]))
    bound, servos = [], []
    bl_pool = [44, 45, 46, 47, 48]
    rng.shuffle(bl_pool)
    servo_pins = ["9", "10", "6", "5", "pv"]
    k = 0

    def cmd(n):
        nonlocal k
        k += 1
        return rng.choice(CMD_FORMS).format(n=n, r=k % 2, k=k)

    for _ in range(size):
        u = rng.random()
        if u < 0.3 or not bound:
            n = rng.choice(lcd_vars)
            kind = rng.choice("PI")
            lines.append(f"{n} = LCD({lcd_ctor(rng, kind, bl_pool)})")
            declared.add(KIND_LIB[kind])
            kinds.setdefault(n, set()).add(kind)
            if n not in bound:
                bound.append(n)
        elif u < 0.42 and len(servos) < 3:
            n = f"s{len(servos)}"
            servos.append(n)
            lines.append(f"{n} = Servo({servo_ctor(rng, servo_pins[len(servos) - 1])})")
            declared.add("Servo")
        elif u < 0.8 or not blocks:
            lines.append(cmd(rng.choice(bound)))
        else:
            body = [cmd(rng.choice(bound)) for _ in range(rng.choice([1, 2]))]
            form = rng.choice([0, 1, 2, 4])      # (3: try/except - the emitted `catch (Exception &)` does not compile: C06's business)
            if form == 0:
                lines += ["if pv > 1:"] + ind(body)
            elif form == 1:
                lines += ["if pv > 900:"] + ind(body[:1]) + ["else:"] + ind([cmd(rng.choice(bound))])
            elif form == 2:
                lines += ["for j in range(2):"] + ind(body)
            elif form == 3:
                lines += ["try:"] + ind(body) + ["except Exception:"] + ind([cmd(rng.choice(bound))])
            else:
                lines += ["while kk < 2:"] + ind(body + ["kk = kk + 1"])
    has_fn = bool(bound) and rng.random() < 0.4
    if has_fn:
        lines += ["def show():"] + ind([cmd(rng.choice(bound)) for _ in range(rng.choice([1, 2]))])
    loop = []
    has_loop = rng.random() < 0.85
    if has_loop and rng.random() < 0.3 and len(servos) < 3:
        loop.append(f"s{len(servos)} = Servo({servo_ctor(rng, servo_pins[len(servos)])})")
        servos.append(f"s{len(servos)}")
        declared.add("Servo")
    loop += [cmd(n) for n in bound if rng.random() < 0.8]
    if bound and rng.random() < 0.4:
        loop += ["if pv > 3:"] + ind([cmd(rng.choice(bound))])
    if has_fn:
        loop.append("show()")
    loop += [f"{s}.write(90)" for s in servos[:1]] + ["sleep(20)"]
    if has_loop:
        lines += ["while True:"] + ind(loop)
    return "\n".join(lines) + "\n", declared, any(len(x) == 2 for x in kinds.values())


RES_ALPHABET = ["Da:P", "Da:I", "Db:P", "Ca", "Cb", "If:Ca", "For:Cb"]


def script_resolution(seq, with_fn):
    """exhaustive family for the receiver resolution: seq over RES_ALPHABET (declarations of a / b, commands on them at
    the top level or inside a block); the loop body and (with_fn) a function use both variables"""
    lines = [OBJ_IMPORTS.rstrip("\n"), 'pv = analog_read("A0")']
    bound, declared, kinds = [], set(), {}
    for k, t in enumerate(seq):
        if t[0] == "D":
            n, kind = t[1], t[3]
            kinds.setdefault(n, set()).add(kind)
            args = LCD_ARGS[kind][k % 3]
            lines.append(f"{n} = LCD({args})")
            declared.add(KIND_LIB[kind])
            if n not in bound:
                bound.append(n)
        elif t[0] == "C":
            lines.append(f'{t[1]}.write(0, 0, "t{k}")')
        elif t.startswith("If:"):
            lines += ["if pv > 1:", f'    {t[4]}.line(1, "i{k}")']
        else:
            lines += ["for j in range(2):", f"    {t[5]}.clear()"]
    if with_fn:
        lines += ["def show():"] + ind([f'{n}.write(0, 1, "f")' for n in bound])
    lines += ["while True:"] + ind([f'{n}.line(0, "L")' for n in bound] + (["show()"] if with_fn else []) + ["sleep(20)"])
    return "\n".join(lines) + "\n", declared, any(len(x) == 2 for x in kinds.values())


def resolution_sequences(tier, rng):
    import itertools
    out = []

    def valid(q):
        bound = set()
        for t in q:
            if t[0] == "D":
                bound.add(t[1])
            elif t[-1] not in bound:
                return False
        return True
    for n in (1, 2, 3, 4):
        seqs = [list(q) for q in itertools.product(RES_ALPHABET, repeat=n) if valid(q)]
        if tier != "thorough" and n == 4:
            rng.shuffle(seqs)
            seqs = seqs[:40]
        out += seqs
    extra = 400 if tier == "thorough" else 30
    for _ in range(extra):
        n = rng.choice([5, 6, 7])
        while True:
            q = [rng.choice(RES_ALPHABET) for _ in range(n)]
            if valid(q):
                break
        out.append(q)
    return out


def gen_object_cases(tier, rng):
    cases = []
    n_rand = 600 if tier == "thorough" else 90
    for k in range(n_rand):
        src, declared, mix = script_objects(rng, rng.choice([2, 3, 4, 6, 8, 10]), blocks=(k % 4 != 0))
        cases.append({"src": src, "cat": "in", "kind": "in:objects:random", "declared": declared, "rebind_mixed": mix, "nocompile": (k % 2 == 0) if tier == "thorough" else (k % 4 != 1),
                      "meta": {"family": "objects", "k": k}})
    for k, seq in enumerate(resolution_sequences(tier, rng)):
        src, declared, mix = script_resolution(seq, with_fn=(k % 3 == 0))
        cases.append({"src": src, "cat": "in", "kind": "in:objects:resolution", "declared": declared, "rebind_mixed": mix, "nocompile": (k % 4 != 0) if tier == "thorough" else (k % 8 != 0),
                      "meta": {"family": "resolution", "seq": seq}})
    return cases



# ---------------------------------------------------------------- decoys and falsy-looking values
# ordinary values whose TEXT mentions a library class (a string shown to the user, a variable, an LED or a motor whose
# identifier ends in the class name): they need no library.  (name, declaration lines, lines for the loop body)
DECOYS = [
    ("str-servo", ['title = "Servo tester v2"'], []),
    ("str-lcd", ['banner = "no LiquidCrystal attached"'], []),
    ("str-i2c", ['note = "LiquidCrystal_I2C backpack at 0x27"'], []),
    ("str-include", ['hint = "#include <Servo.h>"'], []),
    ("var-servo", ["panServo = 90"], ["panServo = panServo + 1"]),
    ("var-lcd", ["rowsLiquidCrystal = 2"], ["rowsLiquidCrystal = rowsLiquidCrystal + 1"]),
    ("var-i2c", ["addrLiquidCrystal_I2C = 39"], ["addrLiquidCrystal_I2C = addrLiquidCrystal_I2C + 1"]),
    ("var-exact-servo", ["Servo_ = 1", "LiquidCrystal_ = 2"], ["Servo_ = Servo_ + LiquidCrystal_"]),
    ("led-servo", ["statusServo = Led(13)"], ["statusServo.toggle()"]),
    ("led-lcd", ["myLiquidCrystal = Led(12)"], ["myLiquidCrystal.toggle()"]),
    ("led-i2c", ["okLiquidCrystal_I2C = Led(2)"], ["okLiquidCrystal_I2C.on()"]),
    ("motor-servo", ["driveServo = DCMotor(4, 7, 3)"], ["driveServo.stop()"]),
    ("buzzer-lcd", ["beepLiquidCrystal = Buzzer(8)"], ["beepLiquidCrystal.beep()"]),
]
REAL = {"S": ["arm = Servo(9)"], "P": ["lcdp = LCD(rs=12, en=11, d4=5, d5=4, d6=3, d7=2)"], "I": ["lcdi = LCD(i2c_addr=0x27)"]}
REAL_USE = {"S": ["arm.write(10)"], "P": ['lcdp.line(0, "p")'], "I": ['lcdi.line(1, "i")']}


def script_decoy(decoys, real, decoy_first):
    lines = [IMPORTS.rstrip("\n")]
    dl = [l for _, d, _ in decoys for l in d]
    rl = [l for g in real for l in REAL[g]]
    lines += (dl + rl) if decoy_first else (rl + dl)
    body = [l for _, _, u in decoys for l in u] + [l for g in real for l in REAL_USE[g]] + ["sleep(20)"]
    lines += ["while True:"] + ind(body)
    return "\n".join(lines) + "\n"


# constructor values that are falsy in Python although they denote a device: bus address 0, pin 0, ...
ZERO_LCDS = ["z = LCD(i2c_addr=0)", "z = LCD(i2c_addr=0x00, cols=20, rows=4)", "z = LCD(i2c_addr=0x27 - 39)", "z = LCD(cols=16, rows=2, i2c_addr=1 - 1)",
             "z = LCD(i2c_addr=0, backlight_pin=0)", "z = LCD(0, 1, 2, 3, 4, 5)", "z = LCD(rs=0, en=0, d4=0, d5=0, d6=0, d7=0)",
             "z = LCD(rs=7, en=0, d4=5, d5=4, d6=3, d7=2, rw=0, backlight_pin=0)", "z = LCD(12, 11, 5, 4, 3, 2, cols=0, rows=0)",
             "z = LCD(i2c_addr=0, cols=0, rows=0)", "z = LCD(12, 11, 5, 4, 3, 2, 2 - 1, 1)"]
ZERO_SERVOS = ["zs = Servo(0)", "zs = Servo(pin=0, min_angle=0, max_angle=1)", "zs = Servo(0, min_pulse_us=0, max_pulse_us=1)", "zs = Servo(9, min_pulse_us=0.0, max_pulse_us=0.4)"]


def script_zero(lcd, servo, extra, servo_in_loop):
    lines = [IMPORTS.rstrip("\n")]
    declared = set()
    for g in extra:
        lines += REAL[g]
        declared.add(KIND_LIB[g])
    if lcd is not None:
        lines.append(lcd)
        declared.add("LiquidCrystal_I2C" if "i2c_addr" in lcd else "LiquidCrystal")
        lines.append('z.line(0, "z")')
    body = []
    if servo is not None:
        declared.add("Servo")
        if servo_in_loop:
            body.append(servo)
        else:
            lines.append(servo)
        body.append("zs.write(10)")
    lines += ["while True:"] + ind(body + [l for g in extra for l in REAL_USE[g]] + ["sleep(20)"])
    return "\n".join(lines) + "\n", declared


def gen_decoy_cases(tier, rng):
    import itertools
    cases = []
    reals = ["", "S", "P", "I", "SP", "SI", "PI", "SPI"]
    k = 0
    for d in DECOYS:
        for real in reals:
            if tier != "thorough" and real not in ("", "S", "P", "I") and (k % 3):
                k += 1
                continue
            k += 1
            cases.append({"src": script_decoy([d], real, decoy_first=bool(k % 2)), "cat": "in", "kind": "in:decoy:" + d[0].split("-")[0],
                          "declared": {KIND_LIB[g] for g in real}, "nocompile": tier != "thorough" and bool(k % 4),
                          "meta": {"family": "decoy", "decoy": d[0], "real": real}})
    for n in range(24 if tier != "thorough" else 200):
        ds = rng.sample(DECOYS, rng.choice([2, 3, 4]))
        real = rng.choice(reals)
        cases.append({"src": script_decoy(ds, real, decoy_first=bool(n % 2)), "cat": "in", "kind": "in:decoy:mixed",
                      "declared": {KIND_LIB[g] for g in real}, "nocompile": tier != "thorough" and bool(n % 4),
                      "meta": {"family": "decoy", "decoy": [d[0] for d in ds], "real": real}})
    n = 0
    for lcd in ZERO_LCDS + [None]:
        for servo in [None] + ZERO_SERVOS:
            if lcd is None and servo is None:
                continue
            n += 1
            if tier != "thorough" and lcd is not None and servo is not None and n % 3:
                continue
            extra = ["", "I", "P", "S"][n % 4]
            if servo is not None:
                extra = extra.replace("S", "")
            src, declared = script_zero(lcd, servo, extra, servo_in_loop=bool(n % 2))
            cases.append({"src": src, "cat": "in", "kind": "in:zero-valued-arguments", "declared": declared, "nocompile": tier != "thorough" and bool(n % 3),
                          "meta": {"family": "zero", "lcd": lcd, "servo": servo, "extra": extra}})
    return cases


def fix_items(x):
    if isinstance(x, dict):
        return Fraction(x["frac"][0], x["frac"][1])
    if isinstance(x, list):
        return [fix_items(y) for y in x]
    return x


GLOBAL_LINE_RE = re.compile(r"^(?:(?:Servo|LiquidCrystal|LiquidCrystal_I2C)[ \t]|(?:const int|int|bool) __redu_lcd\d*_(?:cols|rows|brightness|backlight_state)_)")
LIB_INCLUDE_RE = re.compile(r"^#include <(?:Servo\.h|LiquidCrystal\.h|Wire\.h|LiquidCrystal_I2C\.h)>$")
SERVO_INIT_RE = re.compile(r"^\s*__servo_\w+\.(?:attach|writeMicroseconds)\(")


def body_of(cpp, start):
    """the lines of the function body that starts with the line `start` (up to the closing brace in column 0)"""
    i = cpp.find("\n" + start + "\n")
    if i < 0:
        return None, -1
    out = []
    for line in cpp[i + len(start) + 2:].split("\n"):
        if line == "}":
            return out, i
        out.append(line)
    return None, i


def item_names(items):
    """(LCD variable names, rendered backlight-pin expressions) mentioned in the item encoding"""
    names, bls = set(), set()

    def walk(x):
        if isinstance(x, list) and x and isinstance(x[0], int) and not isinstance(x[0], bool):
            if x[0] == 1 and len(x) == 14:
                names.add(x[1])
                bl = x[12]
                if bl:
                    bls.add(str(bl[1]))
                return
            if x[0] == 9 and len(x) == 2 and isinstance(x[1], str):
                names.add(x[1])
                return
        if isinstance(x, list):
            for y in x:
                walk(y)
    walk(items)
    return names, bls


def read_objects(cpp, items):
    """library-object lines of the emitted sketch: global definition lines, the initialisation + command lines of
    setup(), the command lines of loop() and of the function bodies (None when the sketch has an unexpected shape)"""
    setup, i_setup = body_of(cpp, "void setup() {")
    loop, _ = body_of(cpp, "void loop() {")
    if setup is None or loop is None:
        return None
    head = cpp[:i_setup].split("\n")
    names, bls = item_names(items)
    if names:
        ident = re.compile(r"__redu_lcd(\d*)_(?:(cols|rows|brightness|backlight_state)_)?(%s)\b" % "|".join(sorted(map(re.escape, names), key=len, reverse=True)))
    else:
        ident = re.compile(r"(?!x)x")
    blre = re.compile(r"^\s*pinMode\((?:%s), OUTPUT\);" % "|".join(map(re.escape, sorted(bls)))) if bls else re.compile(r"(?!x)x")

    def relevant(l):
        return bool(ident.search(l) or SERVO_INIT_RE.match(l) or blre.match(l))

    def receiver(l):
        obj = cols = None
        for m in ident.finditer(l):
            if m.group(2) is None and obj is None:
                obj = m.group(0)
            if m.group(2) == "cols" and cols is None:
                cols = m.group(0)
        return [obj, cols]
    return {"globals": [l for l in head if GLOBAL_LINE_RE.match(l)],
            "head": [l for l in head if GLOBAL_LINE_RE.match(l) or LIB_INCLUDE_RE.match(l)],
            "setup": [l for l in setup if relevant(l)],
            "loop": [receiver(l) for l in loop if ident.search(l)],
            "functions": [receiver(l) for l in head if l.startswith(" ") and ident.search(l)],
            "receiver": receiver}


def same_receivers(model, real):
    """model: [[object, cols_var], ...]; real: [[object, cols_var or None], ...] (a `.clear();` line has no cols variable)"""
    if len(model) != len(real):
        return False
    return all(m[0] == r[0] and (r[1] is None or m[1] == r[1]) for m, r in zip(model, real))


def wrecvs(v):
    return [[C.wstr(x[0]), C.wstr(x[1])] for x in v]


def object_correspondence(ctx, c, r, m, incs, dist):
    """model (coq/Tool/LibObjs.v through coq/Wire/C14W.v case 1) vs the emitted text"""
    case_rep = {"script": c["src"], "items": r["items"]}
    if m[0] != 0:
        ctx.disagree("object model could not decode the items", case_rep, m, None)
        return False
    real = read_objects(r["cpp"], r["items"])
    if real is None:
        ctx.disagree("emitted sketch has no setup()/loop() of the expected shape", case_rep, None, r["cpp"][-400:])
        return False
    g, init = [C.wstr(x) for x in m[1]], [C.wstr(x) for x in m[2]]
    rs, rl, rf = wrecvs(m[3]), wrecvs(m[4]), [wrecvs(f) for f in m[5]]
    spec_s, spec_l, at_top, follow = wrecvs(m[6]), wrecvs(m[7]), m[8], m[9]
    hdr = [HEADERS[j] for j in m[10]]
    ok = True
    if g != real["globals"]:
        ok = False
        ctx.disagree("library object definitions (global lines with constructor arguments): model vs emit", case_rep, g, real["globals"])
    if real["setup"][:len(init)] != init:
        ok = False
        ctx.disagree("initialisation lines of the library objects in setup(): model vs emit", case_rep, init, real["setup"][:len(init) + 2])
    sketch = [C.wstr(x) for x in m[12]]
    real_sketch = real["head"] + ["void setup() {"] + real["setup"][:len(init)]
    if sketch != real_sketch:
        ok = False
        ctx.disagree("order of the library lines of the sketch (#include lines, object definitions, void setup() {, initialisation): model vs emit", case_rep, sketch, real_sketch)
    real_rs = [real["receiver"](l) for l in real["setup"][len(init):]]
    if not same_receivers(rs, real_rs):
        ok = False
        ctx.disagree("display object addressed by the LCD commands of setup(): model vs emit", case_rep, rs, real_rs)
    if not same_receivers(rl, real["loop"]):
        ok = False
        ctx.disagree("display object addressed by the LCD commands of loop(): model vs emit", case_rep, rl, real["loop"])
    flat = [x for f in rf for x in f]
    if not same_receivers(flat, real["functions"]):
        ok = False
        ctx.disagree("display object addressed by the LCD commands of the function bodies: model vs emit", case_rep, flat, real["functions"])
    if hdr != [h for h in incs if h in HEADERS]:
        ok = False
        ctx.disagree("#include lines: model on the erased items vs emit", case_rep, hdr, incs)
    dist["objects:lcds_at_top:" + str(at_top)] += 1
    if c["cat"] == "in" and follow != 1:
        ok = False
        ctx.disagree("the IR of a script inside the quantifier holds an LCD command before the first top-level declaration of its variable (assumed not to be produced by the parser: guard cmds_follow_decl)", case_rep, None, None)
    if c["cat"] == "in" and at_top != 1:
        ok = False
        ctx.disagree("a script inside the quantifier is parsed to an IR outside the guard lcds_at_top of C14_resolution_is_latest_binding", case_rep, None, None)
    if at_top == 1 and follow == 1:
        # inside the guard of C14_resolution_is_latest_binding the emitted receivers are the reference semantics
        if not same_receivers(spec_s, real_rs) or not same_receivers(spec_l, real["loop"]):
            ok = False
            ctx.disagree("a command does not address the display of the latest declaration of its variable that precedes it", case_rep,
                         {"setup": spec_s, "loop": spec_l}, {"setup": real_rs, "loop": real["loop"]})
        dist["objects:inside_resolution_guard"] += 1
    dist["objects:global_lines"] += len(g)
    dist["objects:init_lines"] += len(init)
    dist["objects:command_receivers"] += len(rs) + len(rl) + len(flat)
    if len({x[0] for x in rs + rl + flat}) > 1:
        dist["objects:scripts_addressing_several_displays"] += 1
    return ok

# ---------------------------------------------------------------- reading the emitted text
INC_RE = re.compile(r'^[ \t]*#[ \t]*include[ \t]*[<"]([^>"]+)[>"]', re.M)
OBJ_RE = re.compile(r"^[ \t]*(?:static[ \t]+)?(Servo|LiquidCrystal_I2C|LiquidCrystal)[ \t]+([A-Za-z_]\w*)[ \t]*(?:;|\(|\{|=)", re.M)


def read_cpp(cpp):
    incs = INC_RE.findall(cpp)
    objs = OBJ_RE.findall(cpp)
    return incs, objs


LCD_ID_RE = re.compile(r"^__redu_lcd(\d*)_(\w+)$")


def obj_var(cls, ident):
    """emitted object identifier -> script variable name"""
    if cls == "Servo":
        return ident[len("__servo_"):] if ident.startswith("__servo_") else None
    m = LCD_ID_RE.match(ident)
    return m.group(2) if m else None


def obj_index(ident):
    """binding index of an LCD object: __redu_lcd_<n> -> 0, __redu_lcd<k>_<n> -> k - 1 (k >= 2)"""
    m = LCD_ID_RE.match(ident)
    if not m:
        return -1
    if m.group(1) == "":
        return 0
    return int(m.group(1)) - 1 if int(m.group(1)) >= 2 and not m.group(1).startswith("0") else -1


def libsec_entries(text):
    if text == "":
        return []
    lines = text.split("\n")
    if lines[0].strip() != "lib_deps =":
        return None
    return [l.strip() for l in lines[1:]]


def oracle(ctx, case, r, compiled):
    """the property's own relation on the real artefacts of one script inside the quantifier"""
    src = case["src"]
    libs = r["libs"]
    incs, objs = read_cpp(r["cpp"])
    lib_incs = [HEADER_LIB[h] for h in incs if h in HEADER_LIB]
    classes = {c for c, _ in objs}
    declared = set(case["declared"])
    rep = {"script": src, "lib_deps": libs, "includes": incs, "objects": objs, "declared_devices_need": sorted(declared)}
    dup = [x for x, k in Counter(libs).items() if k > 1]
    if dup:
        ctx.fail("a library is requested twice", rep, "each library at most once", dup, key="lib-twice")
    dup = [x for x, k in Counter(incs).items() if k > 1 and (x in HEADER_LIB or x == "Wire.h")]
    if dup:
        ctx.fail("a library header is included twice", rep, "each header at most once", dup, key="include-twice")
    if any(x not in LIBS for x in libs):
        ctx.fail("an unknown library is requested", rep, LIBS, libs, key="lib-unknown")
    if set(libs) != declared:
        ctx.fail("requested libraries differ from the libraries the declared devices need", rep, sorted(declared), libs,
                 key="requested-vs-declared:" + ("needless" if set(libs) - declared else "missing"))
    if set(lib_incs) != declared:
        ctx.fail("included library headers differ from the libraries the declared devices need", rep, sorted(declared), incs,
                 key="included-vs-declared:" + ("needless" if set(lib_incs) - declared else "missing"))
    if set(libs) != set(lib_incs):
        ctx.fail("requested libraries and included headers disagree", rep, libs, incs, key="requested-vs-included")
    if classes != set(lib_incs):
        ctx.fail("included headers and instantiated library classes disagree", rep, sorted(classes), incs, key="included-vs-instantiated")
    written = libsec_entries(r["libsec"])
    if written != list(dict.fromkeys(x for x in libs if x)):   # pio de-duplicates and drops empties (C13's business)
        ctx.fail("lib_deps section written to platformio.ini differs from the requested libraries", rep, libs, r["libsec"], key="written-vs-requested")
    if compiled is not None and not compiled["compiled"]:
        ctx.fail("emitted sketch does not compile/link against the library headers", dict(rep, compile_log=compiled["compile_log"][-1500:]),
                 "compiles and links", "g++ error", key="link")


def run_cases(cases):
    res = []
    for k in range(0, len(cases), 200):
        res += C.run_impl("c14_impl.py", {"sources": [c["src"] for c in cases[k:k + 200]]}, timeout=900)
    return res


def local_findings(ctx):
    """known_findings.json entries for C14 plus this work package's own file (before it is merged)"""
    items = {f["id"]: f for f in ctx.findings}
    f = C.VERIF / "known_findings.d" / "C14.json"
    if f.exists():
        for e in json.loads(f.read_text()):
            if e.get("property") == "C14":
                items[e["id"]] = e          # the package's own file is the source known_findings.json is assembled from
    return list(items.values())


def replay_witness(f):
    """run the witness of a known_findings entry through the real code and the property's oracle -> (case, result, failures)"""
    w = f["witness"]
    case = {"src": w["script"], "cat": "in", "kind": "finding", "declared": set(w["declared_devices_need"]), "meta": {}}
    r = run_cases([case])[0]
    probe = C.Ctx("C14", "quick", 0)
    probe.findings = []
    if r.get("ok"):
        oracle(probe, case, r, None)
    else:
        probe.fail("witness script is rejected by the real parse/emit", {"script": case["src"]}, "accepted", r, key="rejected")
    return case, r, probe.failures


def replay_fixed(ctx, dist):
    """the witnesses of the repaired findings: a fixed entry suppresses nothing - a witness that fails again is a
    violation of the property (with the witness as replay), not a known finding.  Returns the ids that regressed."""
    back = set()
    for f in local_findings(ctx):
        if f.get("kind") != "fixed":
            continue
        case, r, failures = replay_witness(f)
        dist["fixed-witness:" + f["id"] + (":fails-again" if failures else ":holds")] += 1
        if failures:
            back.add(f["id"])
            first = failures[0]
            observed = {"lib_deps": r.get("libs"), "includes": read_cpp(r["cpp"])[0], "objects": read_cpp(r["cpp"])[1]} if r.get("ok") else r
            ctx.fail(f"the repaired defect {f['id']} is back: {first['what']} ({f.get('fixed', '')})",
                     {"kind": "fixed-witness", "finding": f["id"], "script": case["src"], "declared_devices_need": sorted(case["declared"]),
                      "witness": f["witness"]},
                     first["expected"], observed, key="fixed:" + f["id"])
    return back


def run(ctx: C.Ctx):
    dist = Counter()
    # ---- 0. the witnesses of the repaired findings (fixed entries suppress nothing)
    regressed = replay_fixed(ctx, dist)
    cases = gen_cases(ctx.tier, ctx.rng)
    cases.sort(key=lambda c: (len(c["src"]), c["src"]))      # smallest scripts first: the first replay per class is the shortest
    res = run_cases(cases)
    nontrivial = set()
    n_eval = 0

    # ---- compile + link every sketch inside the quantifier
    in_idx = [k for k, (c, r) in enumerate(zip(cases, res)) if c["cat"] == "in" and r.get("ok") and not c.get("nocompile")]
    comp = fw.run_sketches([{"cpp": res[k]["cpp"], "compile_only": True} for k in in_idx])
    compiled = dict(zip(in_idx, comp))

    # ---- model
    ok_idx = [k for k, r in enumerate(res) if r.get("ok")]
    model, obj_model = {}, {}
    if ctx.exe:
        outs = ctx.model([[0] + res[k]["skeleton"] for k in ok_idx])
        model = dict(zip(ok_idx, outs))
        obj_idx = [k for k in ok_idx if not res[k].get("items_unsupported")]
        outs = ctx.model([[1] + fix_items(res[k]["items"]) for k in obj_idx])
        obj_model = dict(zip(obj_idx, outs))

    nested_seen = Counter()

    class _Obs(dict):
        def __missing__(self, key):
            self[key] = Counter()
            return self[key]
    observed = _Obs()
    for k, (c, r) in enumerate(zip(cases, res)):
        dist["cat:" + c["cat"]] += 1
        dist["kind:" + c["kind"]] += 1
        if not r.get("ok"):
            dist["rejected:" + r.get("exc", "?")] += 1
            ctx.disagree("generated script is rejected by the real parse/emit (generator expects acceptance)", c["src"], "accepted", r)
            continue
        incs, objs = read_cpp(r["cpp"])
        dist["libs:" + ",".join(r["libs"])] += 1
        if r["unencodable"]:
            ctx.disagree("IR holds a device declaration where the model's skeleton has no position", c["src"], None, r["unencodable"])
        if r["libs"] != r["libs_after_emit"]:
            ctx.disagree("emit() changed what _collect_required_libraries sees", c["src"], r["libs"], r["libs_after_emit"])
        # ---------- correspondence
        m = model.get(k)
        if m is not None:
            n_eval += 1
            if m[0] != 0:
                ctx.disagree("model could not decode the skeleton", c["src"], m, r["skeleton"])
                continue
            m_req, m_hdr, m_inc, m_inst, m_sobj, m_lobj, m_guard, m_agree, m_sdoc, m_ldoc, m_names = m[1:12]
            ids = r["names"]
            i_req = [LIBS.index(x) if x in LIBS else -1 for x in r["libs"]]
            i_hdr = [HEADERS.index(h) for h in incs if h in HEADERS]
            i_sobj = [ids.get(obj_var(cl, ident), -1) for cl, ident in objs if cl == "Servo"]
            i_lobj = [[1 if cl == "LiquidCrystal_I2C" else 0, ids.get(obj_var(cl, ident), -1), obj_index(ident)] for cl, ident in objs if cl != "Servo"]
            i_inst = [j for j, name in enumerate(LIBS) if any(cl == name for cl, _ in objs)]
            case_rep = {"script": c["src"], "skeleton": r["skeleton"]}
            if m_req != i_req:
                ctx.disagree("required libraries: model vs _collect_required_libraries", case_rep, [LIBS[j] for j in m_req], r["libs"])
            if m_hdr != i_hdr:
                ctx.disagree("#include lines: model vs emit", case_rep, [HEADERS[j] for j in m_hdr], incs)
            if m_sobj != i_sobj:
                ctx.disagree("Servo object definitions: model vs emit", case_rep, m_sobj, [o for o in objs if o[0] == "Servo"])
            if m_lobj != i_lobj:
                ctx.disagree("LCD object definitions: model vs emit", case_rep, m_lobj, [o for o in objs if o[0] != "Servo"])
            if m_inst != i_inst:
                ctx.disagree("instantiated classes: model vs emit", case_rep, [LIBS[j] for j in m_inst], sorted({cl for cl, _ in objs}))
            dist["model_guard:" + str(m_guard)] += 1
            dist["model_agree:" + str(m_agree)] += 1
            if m_guard == 1 and m_names == 0:
                dist["inside_guard_in_region_formerly_excluded_by_F-C14-lcd-rebind"] += 1
            if c["cat"] == "in" and c.get("rebind_mixed", False) != (m_names == 0):
                ctx.disagree("generator's classification 'an LCD variable is bound to both interfaces' differs from the model's on the real IR", case_rep,
                             {"names_consistent": m_names}, {"rebind_mixed": c.get("rebind_mixed", False)})
            if c["cat"] == "in" and m_guard != 1:
                ctx.disagree("a script inside the quantifier is parsed to an IR outside the theorem's guard", case_rep,
                             {"guard": m_guard, "servos_documented": m_sdoc, "lcds_documented": m_ldoc, "names_consistent": m_names}, None)
            if c["cat"] == "out":
                nested_seen["guard_false" if m_guard == 0 else "guard_true"] += 1
            if m_req or m_hdr:
                nontrivial.add(json.dumps(r["skeleton"]))
        mo = obj_model.get(k)
        if mo is not None:
            n_eval += 1
            dist["objects:compared"] += 1
            if object_correspondence(ctx, c, r, mo, incs, dist):
                nontrivial.add(json.dumps(r["items"]))
        elif r.get("items_unsupported"):
            dist["objects:skipped (command kinds outside the item model)"] += 1
        # ---------- property oracle (inside the quantifier only)
        if c["cat"] == "in" and c.get("rebind_mixed") and "F-C14-lcd-rebind" in regressed:
            # the repaired defect is back and already reported with its witness as replay: scripts of the same
            # region (a variable bound to both interfaces) are counted, not reported a second time
            dist["skipped:oracle on rebind-mixed scripts (F-C14-lcd-rebind is back)"] += 1
        elif c["cat"] == "in":
            n_eval += 1
            oracle(ctx, c, r, compiled.get(k))
        else:
            # observation only (never a failure): does the relation happen to hold outside the quantifier?
            probe = C.Ctx("C14", ctx.tier, ctx.seed)
            probe.findings = []
            oracle(probe, c, r, None)
            observed[c["kind"].split(":")[1] + (":" + c["meta"]["kind"] if "kind" in c["meta"] else "")]["holds" if not probe.failures else "fails"] += 1

    # ---- known findings still open (none at present): replay every listed witness on the real code
    for f in local_findings(ctx):
        if f.get("kind") == "fixed":
            continue            # replayed in step 0
        _, _, failures = replay_witness(f)
        if failures:
            ctx.known(f"{f['id']}: {f['what']}")

    n_in = sum(1 for c in cases if c["cat"] == "in")
    ctx.coverage.update({
        "evaluations": n_eval,
        "distinct_nontrivial": len(nontrivial),
        "rule": "scripts enumerated exhaustively: multiplicities 0..3 of Servo x parallel LCD x I2C LCD, other devices present/absent, servo placement before the loop / top of the loop body / split, with and without a main loop, declaration order rotating over 4 orders; same-name re-declarations; an LCD variable bound to one and then to the other interface (the witness shapes of the repaired finding F-C14-lcd-rebind, with further LCDs / a Servo around) and every sequence of 2..4 bindings of the variables a, b to parallel / I2C displays that binds some variable again (thorough: all 164; quick: all of length 2, half of length 3, 8 seeded of length 4), constructor spellings, other devices, Servo and main loop rotating - all inside the quantifier, judged by the oracle and compiled; step 0 replays the witnesses of the repaired findings first; outside the quantifier (correspondence only): each kind nested in if/elif/else/while/for/try/except/function/2-deep in setup and in the loop, LCDs in the loop body, servos in the loop body after other statements, declarations after the loop. quick = stratified seeded subsample. Growth round: (objects:random) seeded random scripts of 2..10 steps - Servo / parallel / I2C LCD declarations with randomly chosen constructor spellings and arguments (positional / keyword / shuffled, rw, backlight pins, five geometries and folding expressions, run-time expressions as pin or address, float pulse bounds with halves and a negative one, zero-valued arguments), LCD variables a/b/c re-bound, one-line LCD commands (write/line/clear/progress) at the top level and inside if/else/for/while bodies, in the loop body and in a function; (objects:resolution) every valid sequence of length 1..3 (quick: plus 40 of length 4 and 30 longer; thorough: all of length 4 and 400 longer) over {declare a parallel, declare a I2C, declare b parallel, command on a, command on b, if-body command on a, for-body command on b}; (decoy) strings / variables / Led / DCMotor / Buzzer identifiers whose text contains Servo, LiquidCrystal, LiquidCrystal_I2C or an #include line, with every subset of real devices; (zero-valued-arguments) bus address 0 / 0x00 / constant expressions folding to 0, pin 0, rw=0, backlight_pin=0, cols/rows 0, Servo(0), zero pulse bounds. For every accepted script whose IR holds only one-line LCD commands the extracted object model is compared with the emitted text: global library-object lines (exact list), initialisation lines of setup() (exact prefix of the library-object lines of setup()), receiver object and cols variable of every command line of setup(), loop() and the function bodies; inside the guard of C14_resolution_is_latest_binding the receivers are also compared with the reference semantics. distinct non-trivial = distinct IR skeletons for which at least one library is requested or included, plus distinct argument-carrying item trees whose object comparison ran",
        "samples": [cases[0]["src"], cases[len(cases) // 3]["src"], cases[-1]["src"]],
        "distribution": dict(dist, scripts=len(cases), inside_quantifier=n_in, compiled_and_linked=sum(1 for v in compiled.values() if v["compiled"]),
                             outside_quantifier_guard=dict(nested_seen),
                             outside_quantifier_relation_observed={k: dict(v) for k, v in sorted(observed.items())}),
        "exhaustive": ctx.tier == "thorough",
        "guard": "the property's quantifier only: LCDs declared before the main loop (top level), servos before it or at the top of its body. No finding of this property is open: the region F-C14-lcd-rebind used to exclude (an LCD variable bound to both interfaces) is generated and judged. Model guard decls_at_documented_positions (extracted) is evaluated on the real IR of every script and must be true inside the quantifier; so must the guards lcds_at_top and cmds_follow_decl of C14_resolution_is_latest_binding (both on every script inside the quantifier).",
        "fixed_findings_replayed": sorted(f["id"] for f in local_findings(ctx) if f.get("kind") == "fixed"),
        "regressed": sorted(regressed),
        "unmodelled": ["the servo calibration globals (float __servo_min_angle_<n> = static_cast<float>(0.0); ... - their text needs Python's repr of floats); the object line, attach and writeMicroseconds lines of a servo are modelled",
                       "the argument text of the LCD command lines beyond receiver object and cols variable; LCD commands that emit several lines (message, display, backlight, brightness, glyph, animate, tick) - scripts holding them skip the object comparison (counted)",
                       "which display a function body addresses when the function is called between two bindings of the variable (the emitter uses the latest binding of the whole script: modelled as is, C14_resolution_is_latest_binding states exactly that; Python's run-time answer may differ - not part of this property)",
                       "a servo variable bound twice is attached once, with the arguments of its first declaration (theorem C14_servo_rebind_first_wins_remark; not part of this property)",
                       "PlatformIO's library resolution itself (the check stops at the lib_deps section text)",
                       "real Arduino library headers (mock headers: LiquidCrystal_I2C.h includes LiquidCrystal.h and does not need Wire.h, so those two omissions are visible only textually)",
                       "IR shapes the parser cannot produce (LCDDecl.interface other than parallel/i2c; declarations inside global_decls) - flagged as unencodable if they appear"],
        "trusted_base": C.COMMON_TRUSTED + ["harness/impl/c14_impl.py (walks the real Program dataclasses into the model's node encoding; calls parse, _collect_required_libraries, emit, pio._format_lib_section)",
                                            "harness/props/c14.py regexes INC_RE / OBJ_RE / LCD_ID_RE reading #include lines, global object definitions and the binding index in an LCD object identifier",
                                            "harness/props/c14.py read_objects (GLOBAL_LINE_RE, SERVO_INIT_RE, the per-script identifier regex built from the LCD variable names and backlight pins of the IR) splitting the emitted sketch into global lines / setup() / loop() / function bodies",
                                            "harness/impl/c14_impl.py Items (walks the real Program dataclasses into the argument-carrying item encoding of coq/Wire/C14W.v case 1)",
                                            "harness/gen/c14_libs.py (ast walk of emit() and _collect_required_libraries printing coq/Gen/LibTable.v; an unrecognised shape prints a sentinel row that C14_tables_are_the_models rejects)",
                                            "g++ -std=gnu++17 and mock/ (Servo.h, LiquidCrystal.h, LiquidCrystal_I2C.h, Wire.h)"],
    })
    ctx.assumptions += ["variable names are distinct per declared device unless a case says otherwise (names are numbered by first occurrence in the IR walk)",
                        "the parser produces LCDDecl.interface in {parallel, i2c} only (checked on every case)",
                        "no user global line coincides textually with a library-object line (the emitter de-duplicates globals_ by line text; the model de-duplicates among the library-object lines only)",
                        "the parser drops an LCD command that precedes the first declaration of its variable (guard cmds_follow_decl of C14_resolution_is_latest_binding; evaluated by the extracted model on every real IR and counted)"]


def replay(data):
    case = data.get("case")
    if case is None and data.get("broken_correspondence"):
        case = data["broken_correspondence"][0].get("case")
    src = case.get("script") if isinstance(case, dict) else case
    if not isinstance(src, str):
        return 0
    r = run_cases([{"src": src}])[0]
    if r.get("ok"):
        incs, objs = read_cpp(r["cpp"])
        print(json.dumps({"lib_deps": r["libs"], "includes": incs, "objects": objs, "libsec": r["libsec"]}, indent=1))
    else:
        print(json.dumps(r, indent=1))
    return 0
