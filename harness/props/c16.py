"""C16 - buzzer protocol of the generated firmware (tone/noTone/delay on the buzzer pin + getters).

Engines
  * Coq: coq/Props/C16.v (model coq/Device/DBuzzer.v, proofs coq/Proofs/BuzzerP.v); the melody score
    table and the parser's name set are regenerated from /repo on every run (harness/gen/melodies.py)
    and checked against the pinned scores of coq/Device/MelodySpec.v by theorem C16_tables_agree.
  * correspondence: generated call sequences are run through the extracted model and, as Reduino
    scripts transpiled by the real parser/emitter, compiled and executed under the mock Arduino core.
  * property oracle: the C16 clauses evaluated directly on the firmware trace.
"""
from __future__ import annotations

import math
import struct
from fractions import Fraction as Fr

from harness import common as C
from harness import fw

META = {
    "id": "C16",
    "technique": "Coq proof (buzzer device model: induction over call sequences and loop counters; melody tables: reflection over translator-generated tables against a pinned score) + extracted-model correspondence with the emitted C++ executed under the mock Arduino core + property oracle on the firmware trace",
    "level_text": "Theorems C16_* (coq/Props/C16.v) hold for all call sequences and all rational arguments of a Gallina model written line by line from the five buzzer emitter branches; the emitter's melody table and the parser's name set are regenerated from the source on every run and proved equal to a pinned score; the model is run against the real parser+emitter output (compiled, executed on the mock core) on exhaustive boundary grids, exhaustive pairs of boundary calls, seeded random sequences with literal and run-time arguments, bodies repeated over passes of loop() and of a for loop, two interleaved buzzers, and arguments computed from the buzzer's own getters; the thorough tier re-runs a sample under ASan+UBSan.",
    "level_note": "Trusted: Coq kernel, translator harness/gen/melodies.py, extraction, OCaml driver, mock Arduino core (tone/noTone/delay/Serial/String(float)), g++. C++ float is modelled as exact rational; cases on which float32 and exact arithmetic round an integer output differently are not generated (measured). No known finding is left. Five former findings are repaired in the project (kind=fixed in known_findings.d/C16.json: beep(times<=0) left a running tone, negative run-time durations wrapped, frequencies in (0, 0.5) became tone(pin, 0), sweep durations >= 2^24 ms were rounded up by a float conversion, sweep(steps<=0) played one tone); their regions are generated and judged like any other, and their witnesses are replayed first on every run - a witness that fails again is a VIOLATION.",
    "design_ref": "DESIGN.md section 4 C16",
}

FREQS = [-5, 0, 0.25, 0.5, 1, 440, 440.4, 440.5, 65535]
DURS = [0, 1, 50, 2.5, -1, -2.5]
TIMES = [-1, 0, 1, 3]
STEPS = [-1, 0, 1, 2, 5]
TEMPOS = [-10, 0, 60, 120, 240]
SEVEN = ["success", "error", "startup", "notify", "alarm", "scale_c", "siren"]
DEFAULTS = [None, 523.25, 0, -5, 440.4, 0.25, 0.5]
DEF = {"on": 100, "off": 100, "times": 1, "steps": 10}
OFF = 100000
HEADER = ("from Reduino.Actuators import Buzzer\nfrom Reduino.Communication import SerialMonitor\n"
          "from Reduino.Core import analog_read\nmon = SerialMonitor(9600)\n")


# ----------------------------------------------------------------------------- numbers
def f32(x) -> float:
    return struct.unpack("f", struct.pack("f", float(x)))[0]


def qfreq(a) -> Fr:       # static_cast<float>(expr)
    return Fr(f32(a[0]))


def qdur(a) -> Fr:        # the double (or int) the unsigned-long cast sees
    return Fr(float(a[0])) if isinstance(a[0], float) else Fr(a[0])


qint = qdur


def trunc(q: Fr) -> int:
    return int(q)          # toward zero


def rnd(q: Fr) -> int:     # static_cast<unsigned int>(f + 0.5f), f > 0
    return math.floor(q + Fr(1, 2))


class F32:
    """float32 arithmetic (each operation correctly rounded: binary64 has > 2*24+2 bits)."""
    __slots__ = ("v",)

    def __init__(self, v):
        self.v = f32(v.v if isinstance(v, F32) else v)

    def _o(self, o):
        return o.v if isinstance(o, F32) else float(o)

    def __add__(self, o): return F32(self.v + self._o(o))
    def __sub__(self, o): return F32(self.v - self._o(o))
    def __mul__(self, o): return F32(self.v * self._o(o))
    def __truediv__(self, o): return F32(self.v / self._o(o))
    def __lt__(self, o): return self.v < self._o(o)
    def __le__(self, o): return self.v <= self._o(o)
    def __gt__(self, o): return self.v > self._o(o)
    def __floor__(self): return math.floor(self.v)


def numeric_sites(case, spec, N, tones=None):
    """Every integer / sign decision the firmware derives from float arithmetic, computed with the
    number type N (Fraction = the model's exact rationals, F32 = the device's float).  Harness-side
    arithmetic only: used to keep cases on which the two disagree out of the generated set."""
    half, zero = N(Fr(1, 2)), N(0)
    d0 = case["default"]
    last = N(Fr(f32(440.0 if d0 is None else d0)))
    out = []
    tones = [] if tones is None else tones      # the tone() arguments, in order

    def clamp(x):           # if (x < 0.0f) x = 0.0f
        return zero if x < zero else x

    def clamph(x):          # if (x < 0.5f) x = 0.0f
        out.append(x < half)
        return zero if x < half else x

    for c in case["calls"]:
        k = c["k"]
        if k == "play":
            f = clamph(N(qfreq(c["f"])))
            if f > zero:
                out.append(math.floor(f + half))
                tones.append(out[-1])
                last = f
        elif k == "beep":
            t = clamph(N(qfreq(c["f"])) if c["f"] is not None else last)
            n = max(0, trunc(qint(c["times"] or [DEF["times"], False])))
            if t > zero and n > 0:
                out.append(math.floor(t + half))
                tones.append(out[-1])
                last = t
        elif k == "sweep":
            s, e = clamp(N(qfreq(c["s"]))), clamp(N(qfreq(c["e"])))
            n = max(0, trunc(qint(c["steps"] or [DEF["steps"], False])))
            for i in range(n):
                p = N(1) if n == 1 else N(i) / (N(n) - N(1))
                f = clamph(s + (e - s) * p)
                if f > zero:
                    out.append(math.floor(f + half))
                    tones.append(out[-1])
                    last = f
        elif k == "melody":
            t0, notes = spec[c["name"].lower()]
            t = N(qfreq(c["tempo"])) if c["tempo"] is not None else N(t0)
            if t <= zero:
                t = N(t0)
            beat = N(60000) / t
            for fq, b in notes:
                dur = N(b) * beat
                out.append(dur > zero)
                if dur > zero:
                    out.append(math.floor(dur))
                f = N(fq)
                if f > zero:
                    out.append(math.floor(f + half))
                    tones.append(out[-1])
                    last = f
    return out


# ----------------------------------------------------------------------------- cases -> wire
def A(v, rt=False):
    return [v, bool(rt)]


def GA(src, a, b):
    """a frequency-type argument written as an expression over a getter of the same buzzer:
    get_last_frequency() * a + b (src "last") or get_frequency() * a + b (src "cur"); slot 0 holds the value
    the expression has when the call is made (filled in by resolve_feedback / by the oracle from the trace)"""
    return [None, "g", {"src": src, "a": a, "b": b}]


def is_derived(a):
    return a is not None and a[1] == "g"


def wfreq(a):
    if is_derived(a):
        g = a[2]
        return [1 if g["src"] == "last" else 2, Fr(g["a"]), Fr(g["b"])]
    return qfreq(a)


FREQ_KEYS = {"play": ("f",), "beep": ("f",), "sweep": ("s", "e"), "melody": ("tempo",), "stop": ()}


def wire_call(c):
    k = c["k"]
    if k == "play":
        return [0, wfreq(c["f"])] if c["d"] is None else [1, wfreq(c["f"]), qdur(c["d"])]
    if k == "stop":
        return [2]
    if k == "beep":
        return [3, [] if c["f"] is None else [wfreq(c["f"])], qdur(c["on"] or [DEF["on"], False]),
                qdur(c["off"] or [DEF["off"], False]), qint(c["times"] or [DEF["times"], False])]
    if k == "sweep":
        return [4, wfreq(c["s"]), wfreq(c["e"]), qdur(c["d"]), qint(c["steps"] or [DEF["steps"], False])]
    if k == "melody":
        return [5, c["name"].lower(), [] if c["tempo"] is None else [wfreq(c["tempo"])]]
    raise ValueError(k)


def wire_case(case):
    items = [[6], [7], [8]]
    for c in case["calls"]:
        items.append(wire_call(c))
        items += [[6], [7], [8]]
    d0 = case["default"]
    return [0, case["pin"], Fr(f32(440.0 if d0 is None else d0)), items]


def model_segments(out):
    """model output -> [getters0, (events, getters) ...]"""
    evs = [e for e in out[1] if e[0] != 9]
    segs, cur, i = [], [], 0
    while i < len(evs):
        e = evs[i]
        if e[0] == 3:
            g = (e[1], C.wq(evs[i + 1][1]), C.wq(evs[i + 2][1]))
            segs.append((cur, g))
            cur = []
            i += 3
        else:
            cur.append(("T", e[1], e[2]) if e[0] == 0 else ("NT", e[1]) if e[0] == 1 else ("D", e[1]))
            i += 1
    return segs


def model_shown(out):
    """model output -> per call, the values of its frequency-type arguments (entries tagged 9)"""
    return [[C.wq(x) for x in e[1:]] for e in out[1] if e[0] == 9]


# ----------------------------------------------------------------------------- cases -> script
class Sketch:
    """one Reduino script holding many cases.  Plain cases live in setup(); a case with "passes" = P has its
    declaration and initial getters in setup() and its calls inside `while True:` (run for P passes: the
    firmware's globals must carry the buzzer state from one pass of loop() to the next)."""

    def __init__(self, passes=0):
        self.lines = [HEADER.rstrip("\n")]
        self.reads = []
        self.loop_lines = []
        self.loop_reads = []
        self.passes = passes
        self.nvar = 0
        self.ids = []
        self._tl, self._tr = self.lines, self.reads

    def expr(self, a, var=None):
        if is_derived(a):
            g = a[2]
            getter = "get_last_frequency" if g["src"] == "last" else "get_frequency"
            return f"({var}.{getter}() * {g['a']!r} + {g['b']!r})"
        v, rt = a[0], a[1]
        if not rt:
            return repr(v)
        name = f"r{self.nvar}"
        self.nvar += 1
        self._tl.append(f'{name} = analog_read("A0")')
        fr = Fr(str(v)) if isinstance(v, float) else Fr(v)
        if fr.denominator == 1:
            self._tr.append(int(fr) + OFF)
            return f"({name} - {OFF})"
        D = next(D for D in (2, 4, 8, 16, 10, 100, 1000) if (fr * D).denominator == 1)
        reading = int(fr * D) + OFF
        assert (reading - OFF) / float(D) == v, (v, D)
        self._tr.append(reading)
        return f"({name} - {OFF}) / {D}.0"

    def call_line(self, var, c, style):
        k = c["k"]
        if k == "play":
            f = self.expr(c["f"], var)
            if c["d"] is None:
                return f"{var}.play_tone({f})" if style % 2 == 0 else f"{var}.play_tone(frequency={f})"
            d = self.expr(c["d"])
            return [f"{var}.play_tone({f}, {d})", f"{var}.play_tone({f}, duration_ms={d})",
                    f"{var}.play_tone(frequency={f}, duration_ms={d})",
                    f"{var}.play_tone(duration_ms={d}, frequency={f})"][style % 4]
        if k == "stop":
            return f"{var}.stop()"
        if k == "beep":
            # mode 0: positional frequency + keywords; 1: keywords only (sometimes in reverse order);
            # 2: as many leading arguments as possible positionally (frequency, on_ms, off_ms, times)
            mode = style % 3
            parts, positional = [], (mode == 2 and c["f"] is not None)
            if c["f"] is not None:
                f = self.expr(c["f"], var)
                parts.append(f"frequency={f}" if mode == 1 else f)
            for key, kw in (("on", "on_ms"), ("off", "off_ms"), ("times", "times")):
                if c[key] is not None:
                    e = self.expr(c[key])
                    parts.append(e if positional else f"{kw}={e}")
                else:
                    positional = False
            if mode == 1 and style % 5 == 4:
                parts.reverse()
            return f"{var}.beep({', '.join(parts)})"
        if k == "sweep":
            s, e, d = self.expr(c["s"], var), self.expr(c["e"], var), self.expr(c["d"])
            if style % 3 == 2:           # fully positional
                tail = "" if c["steps"] is None else f", {self.expr(c['steps'])}"
                return f"{var}.sweep({s}, {e}, {d}{tail})"
            head = f"{s}, {e}" if style % 2 == 0 else f"start_hz={s}, end_hz={e}"
            tail = "" if c["steps"] is None else f", steps={self.expr(c['steps'])}"
            return f"{var}.sweep({head}, duration_ms={d}{tail})"
        if k == "melody":
            nm = f'"{c["name"]}"' if style % 2 == 0 else f'name="{c["name"]}"'
            if c["tempo"] is None:
                return f"{var}.melody({nm})"
            t = self.expr(c["tempo"], var)
            return f"{var}.melody({nm}, {t})" if style % 4 == 0 else f"{var}.melody({nm}, tempo={t})"
        raise ValueError(k)

    @staticmethod
    def getters(var):
        return [f"mon.write({var}.get_state())", f"mon.write({var}.get_frequency())",
                f"mon.write({var}.get_last_frequency())"]

    def declare(self, cid, case):
        var = f"b{len(self.ids)}"
        self.ids.append(cid)
        d0, pin = case["default"], case["pin"]
        # declaration spellings: positional pin, pin=, default_frequency first, a constant expression as pin
        psrc = [f"{pin}", f"pin={pin}", f"pin={pin}", f"{pin - 1} + 1"][case.get("style", 0) % 4]
        if d0 is None:
            decl = f"Buzzer({psrc})"
        elif case.get("style", 0) % 4 == 2:
            decl = f"Buzzer(default_frequency={d0!r}, {psrc})"
        else:
            decl = f"Buzzer({psrc}, default_frequency={d0!r})"
        self.lines.append(f"{var} = {decl}")
        self.lines.append(f'mon.write("##case {cid}")')
        self.lines += self.getters(var)
        return var

    def add_case(self, cid, case):
        var = self.declare(cid, case)
        body = case.get("body", case["calls"])
        if case.get("func_passes"):
            # the body inside a user-defined function (defined after the declaration, or - "func_early" - at the
            # top of the script, before the buzzer exists), called P times from setup()
            tl, tr = [f'mon.write("##case {cid}")'], []
            self._tl, self._tr = tl, tr
            for j, c in enumerate(body):
                tl.append(self.call_line(var, c, case.get("style", 0) + j))
                tl.extend(self.getters(var))
            self._tl, self._tr = self.lines, self.reads
            fn = f"fn{len(self.ids)}"
            block = [f"def {fn}():"] + ["    " + l for l in tl]
            if case.get("func_early"):
                self.lines[1:1] = block
            else:
                self.lines += block
            self.lines += [f"{fn}()"] * case["func_passes"]
            self.reads += tr * case["func_passes"]
            return
        if case.get("for_passes"):
            # the body inside `for k in range(P):` in setup(): P executions of the same emitted block
            tl, tr = [f'mon.write("##case {cid}")'], []
            self._tl, self._tr = tl, tr
            for j, c in enumerate(body):
                tl.append(self.call_line(var, c, case.get("style", 0) + j))
                tl.extend(self.getters(var))
            self._tl, self._tr = self.lines, self.reads
            self.lines.append(f"for k{len(self.ids)} in range({case['for_passes']}):")
            self.lines += ["    " + l for l in tl]
            self.reads += tr * case["for_passes"]
            return
        if self.passes:
            self._tl, self._tr = self.loop_lines, self.loop_reads
            self.loop_lines.append(f'mon.write("##case {cid}")')
        for j, c in enumerate(body):
            self._tl.append(self.call_line(var, c, case.get("style", 0) + j))
            self._tl.extend(self.getters(var))
        self._tl, self._tr = self.lines, self.reads

    def add_duo(self, cid_a, case_a, cid_b, case_b, order):
        """two buzzers on different pins, their calls interleaved as given by `order` (0 = a, 1 = b)"""
        va, vb = self.declare(cid_a, case_a), self.declare(cid_b, case_b)
        ia = ib = 0
        for who in order:
            var, cid, case, j = (va, cid_a, case_a, ia) if who == 0 else (vb, cid_b, case_b, ib)
            self.lines.append(f'mon.write("##case {cid}")')
            self.lines.append(self.call_line(var, case["calls"][j], case.get("style", 0) + j))
            self.lines += self.getters(var)
            if who == 0:
                ia += 1
            else:
                ib += 1

    def job(self):
        lines = list(self.lines)
        reads = list(self.reads)
        if self.passes:
            lines.append("while True:")
            lines += ["    " + l for l in self.loop_lines]
            reads += self.loop_reads * self.passes
        src = "\n".join(lines) + "\n"
        inp = ("ar 14 " + " ".join(str(r) for r in reads) + "\n") if reads else ""
        return src, inp


def split_multi(events, marker="S ##case "):
    """like fw.split_cases, but a marker that occurs again (next pass of loop(), next call of an interleaved
    buzzer) continues that case's event list"""
    out, cur = {}, None
    for e in events:
        if e.startswith(marker):
            cur = e[len(marker):].strip()
            out.setdefault(cur, [])
        elif cur is not None:
            out[cur].append(e)
    return out


def fw_segments(events):
    """firmware events of one case -> [(pin events, (state, freq, last))...] or None if malformed"""
    segs, cur, i = [], [], 0
    ev = [e for e in events if not e.startswith("AR ") and not e.startswith("M ")]
    while i < len(ev):
        p = ev[i].split()
        if p[0] == "S":
            try:
                g = (int(ev[i][2:]), float(ev[i + 1][2:]), float(ev[i + 2][2:]))
            except (ValueError, IndexError):
                return None
            if not (ev[i + 1].startswith("S ") and ev[i + 2].startswith("S ")):
                return None
            segs.append((cur, g))
            cur = []
            i += 3
            continue
        if p[0] == "T" and len(p) == 3:
            cur.append(("T", int(p[1]), int(p[2])))
        elif p[0] == "NT" and len(p) == 2:
            cur.append(("NT", int(p[1])))
        elif p[0] == "D" and len(p) == 2:
            cur.append(("D", int(p[1])))
        else:
            cur.append(("?", ev[i]))
        i += 1
    if cur:
        return None
    return segs


# ----------------------------------------------------------------------------- oracle on the firmware trace
def tol(case):
    m = 1000.0
    for c in case["calls"]:
        for key in ("f", "s", "e"):
            if c.get(key) is not None:
                m = max(m, abs(float(c[key][0])))
    return 0.006 + 4e-7 * m


HALF = Fr(1, 2)


def audible(q):
    """a frequency the firmware sounds: it is rounded to tone(pin, t) with t >= 1"""
    return q is not None and q >= HALF


def drop_redundant_notone(evs, sounding):
    """the pin events without the noTone() calls issued while the pin is already silent (not observable on the
    pin; the statement does not count them)"""
    out = []
    for e in evs:
        if e[0] == "NT":
            if not sounding:
                continue
            sounding = False
        elif e[0] == "T":
            sounding = True
        out.append(e)
    return out


def beep_pattern(pin, t, on, off, n):
    out = []
    for i in range(n):
        out.append(("T", pin, t))
        if on > 0:
            out.append(("D", on))
        out.append(("NT", pin))
        if i + 1 < n and off > 0:
            out.append(("D", off))
    return out


def oracle(ctx, case, segs, spec):
    """the C16 clauses, evaluated on the firmware trace of one case (segs from fw_segments)"""
    if case.get("kind") == "feedback":
        case = resolve_from_trace(case, segs)
    pin, eps = case["pin"], tol(case)
    d0 = case["default"]
    default = f32(440.0 if d0 is None else d0)
    sounding, last_t, last_src = False, None, None
    last_unknown = False       # set when the statement does not determine the last frequency (non-integer steps)
    fails = []

    def eff_last():
        """frequency a beep() without argument repeats, None when not determined by the statement"""
        return None if last_unknown else (last_src if last_src is not None else Fr(default))

    def bad(key, what, expected, observed, j):
        fails.append((key, f"call #{j} {case['calls'][j]['k'] if j >= 0 else 'declaration'}: {what}", expected, observed))

    # initial getters
    ev0, g0 = segs[0]
    if ev0 or g0[0] != 0 or abs(g0[1]) > eps or abs(g0[2] - default) > eps:
        bad("getters", "fresh buzzer must be silent, frequency 0, last = default_frequency", (0, 0.0, default), (ev0, g0), -1)
    prev_last_printed = g0[2]
    for j, c in enumerate(case["calls"]):
        evs, g = segs[j + 1]
        k = c["k"]
        tones = [e[2] for e in evs if e[0] == "T"]
        delays = [e[1] for e in evs if e[0] == "D"]
        if any(e[0] == "?" or (e[0] in ("T", "NT") and e[1] != pin) for e in evs):
            bad("pin", "event on a foreign pin / unknown event", f"only pin {pin}", evs, j)
        # ---- clause 1: a frequency <= 0 never starts a tone
        nonpos = (k == "play" and qfreq(c["f"]) <= 0) or \
                 (k == "beep" and c["f"] is not None and qfreq(c["f"]) <= 0) or \
                 (k == "beep" and c["f"] is None and eff_last() is not None and eff_last() <= 0) or \
                 (k == "sweep" and qfreq(c["s"]) <= 0 and qfreq(c["e"]) <= 0)
        if nonpos and tones:
            bad("nonpositive-tones", "a frequency <= 0 started a tone", "no tone()", evs, j)
        if any(t <= 0 for t in tones):
            bad("tone-zero", "tone() was called with a frequency <= 0 on the pin", "every tone(pin, f) has f >= 1", evs, j)
        # ---- per-call clauses
        # (a frequency in (0, 0.5) would be rounded to tone(pin, 0): the statement neither asks for a tone nor
        #  forbids silence there - only the universal clauses are judged on such a call; a negative duration
        #  asks for no delay at all)
        if k == "play" and audible(qfreq(c["f"])):
            t = rnd(qfreq(c["f"]))
            exp = [("T", pin, t)]
            if c["d"] is not None:
                du = math.floor(qdur(c["d"]))
                exp += ([("D", du)] if du > 0 else []) + [("NT", pin)]
            if evs != exp:
                bad("play-tone", "play_tone does not sound the given frequency for the given duration", exp, evs, j)
        if k == "play" and c["d"] is not None and sum(delays) > max(0, math.floor(qdur(c["d"]))):
            bad("play-duration", "play_tone delays longer than the given duration", f"<= {max(0, math.floor(qdur(c['d'])))}", delays, j)
        if k == "beep":
            n = max(0, trunc(qint(c["times"] or A(DEF["times"]))))
            on = math.floor(qdur(c["on"] or A(DEF["on"])))
            off = math.floor(qdur(c["off"] or A(DEF["off"])))
            target = qfreq(c["f"]) if c["f"] is not None else eff_last()
            # a non-integer `times` is not constrained by the statement: left to the correspondence
            if audible(target) and qint(c["times"] or A(DEF["times"])).denominator == 1:
                # n beeps, then the pin silent: compared up to noTone() calls issued on an already silent pin
                exp = drop_redundant_notone(beep_pattern(pin, rnd(target), on, off, n) + [("NT", pin)], sounding)
                got = drop_redundant_notone(evs, sounding)
                if got != exp:
                    bad("beep-counts", f"beep must sound exactly {n} time(s) with the given on/off gaps and leave the pin silent", exp, evs, j)
            if qint(c["times"] or A(DEF["times"])).denominator == 1 and sum(delays) > n * max(0, on) + max(0, n - 1) * max(0, off):
                bad("beep-duration", "beep delays longer than times*on_ms + (times-1)*off_ms", n * max(0, on) + max(0, n - 1) * max(0, off), delays, j)
        if k == "sweep":
            steps = trunc(qint(c["steps"] or A(DEF["steps"])))
            whole_steps = qint(c["steps"] or A(DEF["steps"])).denominator == 1
            n = max(0, steps)          # "plays `steps` tones": none for steps <= 0
            s, e = max(Fr(0), qfreq(c["s"])), max(Fr(0), qfreq(c["e"]))
            total = math.floor(qdur(c["d"]))
            if s <= e and any(a > b for a, b in zip(tones, tones[1:])):
                bad("sweep-monotone", "rising sweep is not monotone", "non-decreasing", tones, j)
            if s >= e and any(a < b for a, b in zip(tones, tones[1:])):
                bad("sweep-monotone", "falling sweep is not monotone", "non-increasing", tones, j)
            # every count is judged, steps <= 0 included (the former finding F-C16-sweep-steps-clamped is repaired):
            # a sweep of no steps plays no tone, so it has no end frequency to end on
            if whole_steps and len(tones) > n:
                bad("sweep-count", "sweep plays more tones than steps", f"<= {n}", tones, j)
            if n >= 1 and audible(e) and (not tones or tones[-1] != rnd(e)):
                bad("sweep-end", "sweep does not end on the end frequency", rnd(e), tones, j)
            if audible(s) and audible(e):
                if whole_steps and len(tones) != n:
                    bad("sweep-count", "sweep does not play `steps` tones", n, tones, j)
                if n > 1 and tones and tones[0] != rnd(s):
                    bad("sweep-start", "sweep does not start on the start frequency", rnd(s), tones, j)
            if sum(delays) > max(total, 0):
                bad("sweep-duration", "sweep delays exceed the given duration", f"<= {total}", delays, j)
        if k == "melody":
            t0, notes = spec[c["name"].lower()]
            t = qfreq(c["tempo"]) if c["tempo"] is not None else t0
            if t <= 0:
                t = t0
            beat = Fr(60000) / t
            exp = []
            for fq, b in notes:
                dur = b * beat
                de = [("D", math.floor(dur))] if dur > 0 else []
                exp += ([("NT", pin)] + de) if fq <= 0 else ([("T", pin, rnd(fq))] + de + [("NT", pin)])
            if evs != exp:
                bad("melody-score", "melody does not play the pinned score scaled by 60000/tempo", exp, evs, j)
        # ---- track the pin
        for e in evs:
            if e[0] == "T":
                sounding, last_t = True, e[2]
            elif e[0] == "NT":
                sounding = False
        # source frequency of the last tone, from the arguments (property-level bookkeeping)
        if k == "play" and audible(qfreq(c["f"])):
            last_src, last_unknown = qfreq(c["f"]), False
        elif k == "beep" and tones:
            if c["f"] is not None:
                last_src, last_unknown = qfreq(c["f"]), False
            elif not last_unknown:
                last_src = last_src if last_src is not None else Fr(default)
        elif k == "sweep" and tones:
            e = max(Fr(0), qfreq(c["e"]))
            if audible(e):
                last_src, last_unknown = e, False
            else:
                # the sweep fades out before reaching a non-positive end: which interpolated tone was the
                # last one is not fixed by the statement (only checked against the trace, to rounding)
                last_unknown = True
        elif k == "melody" and tones:
            pos = [fq for fq, _ in spec[c["name"].lower()][1] if fq > 0]
            if pos:
                last_src, last_unknown = pos[-1], False
        # ---- clause 2: timed calls leave the pin silent, state false (inside the guard)
        timed = (k == "play" and c["d"] is not None) or k in ("beep", "sweep", "melody")
        if timed and (sounding or g[0] != 0 or abs(g[1]) > eps):
            bad("timed-silent", "a call with a duration must leave the pin silent, get_state() false, get_frequency() 0",
                {"sounding": False, "state": 0, "frequency": 0.0}, {"sounding": sounding, "getters": g, "events": evs}, j)
        # ---- clause 6: getters report the tone currently / last sounded
        if g[0] != (1 if sounding else 0):
            bad("getters", "get_state() differs from whether the pin is sounding", int(sounding), g, j)
        if sounding:
            want = float(last_src) if last_src is not None and not last_unknown else None
            if abs(g[1] - last_t) > 0.5 + eps or (want is not None and abs(g[1] - want) > eps):
                bad("getters", "get_frequency() is not the tone currently sounded", want if want is not None else last_t, g, j)
        elif abs(g[1]) > eps:
            bad("getters", "get_frequency() must be 0 while silent", 0.0, g, j)
        if last_t is None:
            if abs(g[2] - default) > eps:
                bad("getters", "get_last_frequency() must stay default_frequency until a tone sounds", default, g, j)
        else:
            want = float(last_src) if last_src is not None and not last_unknown else None
            if abs(g[2] - last_t) > 0.5 + eps or (want is not None and abs(g[2] - want) > eps):
                bad("getters", "get_last_frequency() is not the tone last sounded", want if want is not None else last_t, g, j)
        prev_last_printed = g[2]
    for key, what, expected, observed in fails:
        ctx.fail(what, case, expected, observed, key=key)
    return fails


# ----------------------------------------------------------------------------- generators
def in_guard(case):
    """No call sequence is excluded any more: beep(times < 1) after an untimed play_tone and negative durations
    (the former findings F-C16-beep-zero-keeps-tone, F-C16-negative-runtime-duration) are repaired, so they are
    generated and judged; so are sweeps of steps < 1 (the former finding F-C16-sweep-steps-clamped)."""
    return True


def play(f, d=None): return {"k": "play", "f": A(f), "d": None if d is None else A(d)}
def stop(): return {"k": "stop"}
def beep(f, on, off, times): return {"k": "beep", "f": None if f is None else A(f), "on": None if on is None else A(on),
                                     "off": None if off is None else A(off), "times": None if times is None else A(times)}
def sweep(s, e, d, steps): return {"k": "sweep", "s": A(s), "e": A(e), "d": A(d), "steps": None if steps is None else A(steps)}
def melody(name, tempo=None): return {"k": "melody", "name": name, "tempo": None if tempo is None else A(tempo)}


def route(c, rt):
    """copy of call c with every argument literal (rt False) or run-time (rt True)"""
    out = dict(c)
    for key in ("f", "d", "on", "off", "times", "s", "e", "steps", "tempo"):
        if out.get(key) is not None:
            out[key] = [out[key][0], bool(rt)]
    return out


def grid_ops(thorough):
    ops = [play(f) for f in FREQS] + [play(f, d) for f in FREQS for d in DURS] + [stop()]
    onoff = [(a, b) for a in DURS for b in DURS]
    k = 0
    for f in [None] + FREQS:
        for t in TIMES:
            for r in range(len(onoff) if thorough else 2):
                a, b = onoff[(k + r) % len(onoff)] if not thorough else onoff[r]
                ops.append(beep(f, a, b, t))
            k += 2
    ds = [(d, n) for d in DURS for n in STEPS]
    k = 0
    for s in FREQS:
        for e in FREQS:
            for r in range(len(ds) if thorough else 2):
                d, n = ds[(k + r) % len(ds)] if not thorough else ds[r]
                ops.append(sweep(s, e, d, n))
            k += 2
    ops += [melody(m, t) for m in SEVEN for t in [None] + TEMPOS]
    return ops


PAIR_ALPHABET = [
    play(440), play(-5), play(0), play(440.5), play(65535), play(440, 50), play(0, 1), play(440.4, 2.5), play(1, 0),
    play(0.25), play(0.5, 1), play(440, -1),
    stop(),
    beep(None, 1, 1, 3), beep(440.4, 50, 0, 1), beep(-5, 1, 1, 3), beep(None, None, None, 0), beep(440, 0, 50, -1),
    beep(65535, 2.5, 2.5, None), beep(0.25, 1, 1, 2), beep(None, -1, -2.5, 2),
    sweep(440, 65535, 50, 5), sweep(440.5, 1, 1, 2), sweep(-5, 0, 50, 1), sweep(1, 440, 2.5, 0), sweep(0, 440, 0, -1),
    sweep(440.4, 440.5, 50, None), sweep(440, 880, -1, 2), sweep(1, 0, 50, 5), sweep(440, 880, 16777219, 1),
    melody("notify"), melody("siren", -10), melody("error", 60), melody("scale_c", 0), melody("success", 240),
    melody("alarm", 120), melody("startup"),
]


def random_call(rng):
    k = rng.choice(["play", "play", "stop", "beep", "beep", "sweep", "sweep", "melody"])
    fq = lambda: rng.choice(FREQS + [rng.randrange(-40, 8000) / 8, rng.randrange(-8, 24) / 16, rng.randrange(1, 3000), 261.63, 783.99])
    du = lambda: rng.choice(DURS + [rng.randrange(-60, 400) / 2, 7, 100, -7] + ([16777215, 9999999, 12345678.5, 16777217, 16777219, 16777221, 33554435, 33554434, 50000001, 4294967295]
                                 if rng.random() < 0.15 else []))
    if k == "play":
        c = play(fq(), du() if rng.random() < 0.6 else None)
    elif k == "stop":
        c = stop()
    elif k == "beep":
        c = beep(fq() if rng.random() < 0.7 else None, du() if rng.random() < 0.8 else None,
                 du() if rng.random() < 0.8 else None, rng.choice(TIMES + [2, 2.5, 4, -1.5, 1.5, 3.5, 0.75]) if rng.random() < 0.85 else None)
    elif k == "sweep":
        c = sweep(fq(), fq(), du(), rng.choice(STEPS + [3, 9, 4, 7, 2.5, 1.5, 3.5, -3, 0.5, -0.5]) if rng.random() < 0.85 else None)
    else:
        nm = rng.choice(SEVEN)
        nm = rng.choice([nm, nm, nm.upper(), nm.capitalize()])
        c = melody(nm, rng.choice(TEMPOS + [90, 200, 180, 333, 100.5, 1]) if rng.random() < 0.7 else None)
    out = dict(c)
    for key in ("f", "d", "on", "off", "times", "s", "e", "steps", "tempo"):
        if out.get(key) is not None:
            # (a run-time value travels through analogRead, an int: keep it far from 2^31)
            out[key] = [out[key][0], rng.random() < 0.5 and abs(out[key][0]) < 2 ** 31 - 2 * OFF]
    return out


def build_cases(ctx):
    rng, thorough = ctx.rng, ctx.tier == "thorough"
    cases = []

    def add(kind, calls, default=None, style=0):
        cases.append({"kind": kind, "pin": 2 + len(cases) % 12, "default": default, "calls": calls, "style": style})

    # (1) every grid point once, chained 4 per case behind a priming call, literal / run-time alternating
    g = grid_ops(thorough)
    for i in range(0, len(g), 4):
        rt = ((i // 4) + ctx.seed) % 2 == 1
        add("grid", [route(c, rt) for c in g[i:i + 4]], DEFAULTS[(i // 4) % len(DEFAULTS)], style=i // 4)
    if thorough:
        for i in range(0, len(g), 4):
            rt = ((i // 4) + ctx.seed) % 2 == 0
            add("grid", [route(c, rt) for c in g[i:i + 4]], DEFAULTS[(i // 4 + 1) % len(DEFAULTS)], style=i // 4 + 1)
    # (2) exhaustive ordered pairs over the boundary alphabet
    modes = [(False, False), (True, True), (False, True), (True, False)]
    for i, a in enumerate(PAIR_ALPHABET):
        for j, b in enumerate(PAIR_ALPHABET):
            for m in (modes if thorough else [modes[(i + j + ctx.seed) % 4]]):
                add("pair", [route(a, m[0]), route(b, m[1])], None, style=i + j)
    # (3) seeded random sequences, length <= 8
    for _ in range(6000 if thorough else 300):
        add("random", [random_call(rng) for _ in range(rng.randint(1, 8))], rng.choice(DEFAULTS), style=rng.randrange(6))
    # (4) calls inside `while True:`: the body runs for P passes of loop(); the state must persist between passes
    for n in range(400 if thorough else 40):
        body = [random_call(rng) for _ in range(rng.randint(1, 4))] if n >= len(PAIR_ALPHABET) else \
               [route(PAIR_ALPHABET[n], n % 2 == 1)] + [random_call(rng) for _ in range(rng.randint(0, 2))]
        passes = 2 if n % 3 else 3
        add("loop", body * passes, rng.choice(DEFAULTS), style=rng.randrange(6))
        if n % 4 == 3:
            cases[-1].update({"for_passes": passes, "body": body})     # `for k in range(P):` in setup()
        elif n % 4 == 1:
            # def fn(): ...; fn() x P.  (A function defined BEFORE the Buzzer declaration cannot be used here: the
            # parser rejects getter calls on a name that is not yet a known buzzer - ValueError, a clean reject.)
            cases[-1].update({"func_passes": passes, "func_early": False, "body": body})
        else:
            cases[-1].update({"passes": passes, "body": body})         # `while True:` -> loop(), P passes
    # (7) sweep durations around and above 2^24 ms: the unsigned long -> float conversion (DBuzzer.f32z)
    big = [16777215, 16777216, 16777217, 16777218, 16777219, 16777221, 33554433, 33554435, 33554437, 100000001,
           2147000001, 4294967295]
    for i, total in enumerate(big):
        for n in (1, 2, 3):
            rt = (i + n + ctx.seed) % 2 == 1 and total < 2 ** 31 - 2 * OFF
            add("bigdur", [route(sweep(440, 880, total, n), rt), route(sweep(-5, 440.5, total, None), False)], None, style=i + n)
    # (8) the regions of the repaired findings, densely: an untimed tone, then a beep whose count is < 1 (literal and
    #     run-time); negative durations at every duration site; frequencies around 1/2
    for i, t in enumerate([0, -1, -3, 0.5, -0.5, 0.75]):
        for j, first in enumerate([play(440), play(440.5), play(0.25), play(65535)]):
            for rt in (False, True):
                add("beepzero", [route(first, rt and j % 2 == 0), route(beep(None if i % 2 else 660, 5, 5, t), rt), play(330),
                                 route(beep(None, None, None, t), not rt)], None, style=i + j)
    for i, d in enumerate([-1, -2.5, -50, -0.5, -100000]):
        for rt in (False, True):
            add("negdur", [route(play(440, d), rt), route(beep(660, d, 5, 2), rt), route(beep(660, 5, d, 3), rt),
                           route(sweep(440, 880, d, 3), rt), route(play(-5, d), rt)], None, style=i)
    for i, f in enumerate([0.25, 0.375, 0.4375, 0.5, 0.5625, 0.75, 0.125, 0.0625]):
        for rt in (False, True):
            add("subhalf", [route(play(f), rt), route(play(f, 5), rt), route(beep(f, 1, 1, 2), rt), route(beep(None, 1, 1, 1), rt),
                            route(sweep(f, 0, 10, 4), rt), route(sweep(0, f, 10, 3), rt), route(sweep(f, 2, 10, 5), rt)],
                DEFAULTS[i % len(DEFAULTS)], style=i)
    # (9) the region of the repaired finding F-C16-sweep-steps-clamped: a sweep of no steps (count <= 0, or a fraction
    #     truncating to 0) after an untimed tone / on a silent pin, literal and run-time, then a beep repeating the last
    #     frequency (which such a sweep must not have changed)
    for i, n in enumerate([0, -1, -3, 0.5, -0.5, 0.75, 1, -32768]):
        for j, first in enumerate([play(660), play(440.5), stop(), play(330, 5)]):
            for rt in (False, True):
                add("nosteps", [route(first, rt and j % 2 == 0), route(sweep(440, 880, [50, 0, 7, -1][(i + j) % 4], n), rt),
                                route(beep(None, 1, 1, 1), not rt), route(sweep(880, 440.5, 50, n), not rt)], None, style=i + j)
    # (6) state feedback: frequency-type arguments written as expressions over the buzzer's own getters
    #     (evaluated by the firmware when the call is made); values resolved by resolve_feedback
    seeds = [play(440), play(440.5), play(220.25), play(65535), play(1), play(440, 50), beep(880, 1, 1, 2),
             sweep(100, 800, 10, 2), melody("scale_c"), play(0), beep(None, 1, 0, 1)]
    for n in range(600 if thorough else 60):
        calls = [dict(seeds[n % len(seeds)])]
        for _ in range(rng.randint(1, 3)):
            g = lambda: GA(rng.choice(["last", "last", "cur"]), rng.choice([1, 2, 0.5, -1]),
                           rng.choice([0, 10, -100, 0.5, -1000, 0.25, 100]))
            kind = rng.choice(["play", "play", "beep", "sweep", "sweep", "melody", "plain"])
            if kind == "play":
                c = play(440, rng.choice([None, 0, 5, 2.5]))
                c["f"] = g()
            elif kind == "beep":
                c = beep(440, rng.choice([0, 1, 5]), rng.choice([0, 1, 5]), rng.choice([1, 2, 3]))
                c["f"] = g()
            elif kind == "sweep":
                c = sweep(rng.choice([100, 440.5, 0, 2000]), rng.choice([100, 880, 0, -5]), rng.choice([0, 10, 50]),
                          rng.choice([1, 2, 3, 5]))
                for key in rng.choice([("s",), ("e",), ("s", "e")]):
                    c[key] = g()
            elif kind == "melody":
                c = melody(rng.choice(SEVEN), 100)
                c["tempo"] = g()
            else:
                c = random_call(rng)
            calls.append(c)
        add("feedback", calls, rng.choice([None, 523.25, 440.5, 0]), style=rng.randrange(6))
    # (5) two buzzers on different pins, calls interleaved: one buzzer's calls must not touch the other
    for n in range(300 if thorough else 30):
        a = [random_call(rng) for _ in range(rng.randint(1, 4))]
        b = [random_call(rng) for _ in range(rng.randint(1, 4))]
        order = [0] * len(a) + [1] * len(b)
        rng.shuffle(order)
        add("duo", a, rng.choice(DEFAULTS), style=rng.randrange(6))
        add("duo", b, rng.choice(DEFAULTS), style=rng.randrange(6))
        assert cases[-1]["pin"] != cases[-2]["pin"]
        for role, (me, other) in enumerate(((cases[-2], cases[-1]), (cases[-1], cases[-2]))):
            me.update({"duo_id": n, "duo_role": role, "duo_order": order,
                       "partner": {k: other[k] for k in ("pin", "default", "calls", "style")}})
    return cases


def resolve_feedback(ctx, cases):
    """fill in the values of getter-derived arguments (from the extracted model) so that the generation-time
    filters can see them; a case is kept only if every such value is computed exactly by the firmware as well:
    the getter value it is derived from has at most two decimals (it is printed with two) and the derived
    value is a float32"""
    idx = [i for i, c in enumerate(cases) if c["kind"] == "feedback"]
    if not idx or not ctx.exe:
        return [c for c in cases if c["kind"] != "feedback"], len(idx)
    outs = ctx.model([wire_case(cases[i]) for i in idx])
    drop = set()
    for i, out in zip(idx, outs):
        case = cases[i]
        if out[0] != 0:
            drop.add(i)
            continue
        shown, segs = model_shown(out), model_segments(out)
        for j, c in enumerate(case["calls"]):
            keys = [k for k in FREQ_KEYS[c["k"]] if c.get(k) is not None]
            if len(shown[j]) != len(keys):
                drop.add(i)
                break
            before = segs[j][1]                    # (state, frequency, last) when the call is made
            for k, v in zip(keys, shown[j]):
                if is_derived(c[k]):
                    src = before[2] if c[k][2]["src"] == "last" else before[1]
                    if (Fr(src) * 100).denominator != 1 or Fr(f32(float(v))) != v or abs(v) > 10 ** 6:
                        drop.add(i)
                    c[k][0] = float(v)
    return [c for i, c in enumerate(cases) if i not in drop], len(drop)


def resolve_from_trace(case, segs):
    """the same values, read off the firmware's own trace: the getter value printed just before the call,
    times a, plus b.  Property-level expectation, independent of the model."""
    calls = []
    for j, c in enumerate(case["calls"]):
        c = dict(c)
        for k in FREQ_KEYS[c["k"]]:
            if is_derived(c.get(k)):
                g = c[k][2]
                before = segs[j][1]
                src = Fr(repr(before[2] if g["src"] == "last" else before[1]))
                c[k] = [float(src * Fr(g["a"]) + Fr(g["b"])), "g", g]
        calls.append(c)
    return dict(case, calls=calls)


AUX_KEYS = ("passes", "for_passes", "func_passes", "func_early", "body", "duo", "duo_id", "duo_role", "duo_order", "partner")


def plain(case, **over):
    """the case as a stand-alone setup() case (no loop, no partner)"""
    return dict({k: v for k, v in case.items() if k not in AUX_KEYS}, **over)


def link_duos(cases):
    """(re)compute the partner indices after filtering; a part whose partner was dropped becomes a plain case"""
    by = {}
    for i, c in enumerate(cases):
        c.pop("duo", None)
        if "duo_id" in c:
            by.setdefault(c["duo_id"], []).append(i)
    for ids in by.values():
        if len(ids) == 2:
            a, b = sorted(ids, key=lambda i: cases[i]["duo_role"])
            cases[a]["duo"] = (b, cases[a]["duo_order"])
    return cases


# ----------------------------------------------------------------------------- running
def run_firmware(cases, per_sketch, san=False):
    """-> {case index: segments or ('error', text)}.  Plain cases are batched in setup(); cases with "passes"
    go to sketches of their own kind (calls inside `while True:`); a case with "duo" = (partner index, order)
    is emitted together with its partner, calls interleaved."""
    sketches = []
    partners = {c["duo"][0] for c in cases if c.get("duo")}
    for passes in sorted({c.get("passes", 0) for c in cases}):
        cur, n_ops = Sketch(passes), 0
        for i, case in enumerate(cases):
            if case.get("passes", 0) != passes or i in partners:
                continue
            group = [case] + ([cases[case["duo"][0]]] if case.get("duo") else [])
            size = sum(len(c.get("body", c["calls"])) + 1 for c in group)
            if n_ops and n_ops + size > per_sketch:
                sketches.append(cur)
                cur, n_ops = Sketch(passes), 0
            if case.get("duo"):
                cur.add_duo(i, case, case["duo"][0], cases[case["duo"][0]], case["duo"][1])
            else:
                cur.add_case(i, case)
            n_ops += size
        if cur.ids:
            sketches.append(cur)
    jobs = [s.job() for s in sketches]
    tr = fw.transpile_many([src for src, _ in jobs])
    out, runs = {}, []
    for s, (src, inp), t in zip(sketches, jobs, tr):
        if not t["ok"]:
            for cid in s.ids:
                out[cid] = ("error", f"transpile: {t.get('exc')}: {t.get('msg')}")
        else:
            runs.append((s, {"cpp": t["cpp"], "input": inp, "loops": s.passes, "run_timeout": 120}))
    res = fw.run_sketches([j for _, j in runs], san=san)
    for (s, _), r in zip(runs, res):
        if not r["compiled"] or r["rc"] != 0:
            for cid in s.ids:
                out[cid] = ("error", "compile: " + r["compile_log"][-400:] if not r["compiled"] else f"run rc={r['rc']} {r['stderr'][-300:]}")
            continue
        by = split_multi(r["events"])
        for cid in s.ids:
            segs = fw_segments(by.get(str(cid), ["?missing"]))
            out[cid] = segs if segs is not None else ("error", "malformed trace: " + " | ".join(by.get(str(cid), [])[:30]))
    return out, len(sketches)


def compare(ctx, case, msegs, fsegs):
    eps = tol(case)
    if len(msegs) != len(fsegs):
        ctx.disagree("number of getter blocks", case, len(msegs), len(fsegs))
        return False
    for j, ((me, mg), (fe, fg)) in enumerate(zip(msegs, fsegs)):
        what = "initial getters" if j == 0 else f"call #{j - 1} {case['calls'][j - 1]['k']}"
        if me != fe:
            ctx.disagree(f"{what}: pin events model vs firmware", case, me, fe)
            return False
        if mg[0] != fg[0] or abs(float(mg[1]) - fg[1]) > eps or abs(float(mg[2]) - fg[2]) > eps:
            ctx.disagree(f"{what}: getters (state, frequency, last) model vs firmware", case,
                         (mg[0], float(mg[1]), float(mg[2])), fg)
            return False
    return True


def load_spec(ctx):
    rows = ctx.model([[2]])[0][1]
    return {C.wstr(r[0]): (C.wq(r[1]), [(C.wq(f), C.wq(b)) for f, b in r[2]]) for r in rows}


def check_names(ctx, spec, impl_tables):
    """parser acceptance of melody names: model vs real parser, and the statement's seven names"""
    cands = []
    for n in SEVEN:
        cands += [n, n.upper(), n.capitalize(), n[:-1], n + " ", n + "x"]
    cands += ["", "beep", "scale-c", "Scale_C", "SIREN", "tune"]
    cands = sorted(set(cands))
    srcs = [HEADER + f'bz = Buzzer(8)\nbz.melody("{n}")\nmon.write("done")\n' for n in cands]
    res = fw.transpile_many(srcs)
    models = ctx.model([[1, n] for n in cands]) if ctx.exe else [None] * len(cands)
    n_acc = 0
    for n, r, m in zip(cands, res, models):
        real = n
        accepted = bool(r["ok"])
        n_acc += accepted
        if not accepted and r.get("exc") != "ValueError":
            ctx.fail(f"melody({real!r}) fails with {r.get('exc')} instead of ValueError", ["melody-name", real], "ok or ValueError", r, key="melody-name-exc")
        should = real.lower() in SEVEN
        if accepted != should:
            ctx.fail("melody name acceptance differs from 'one of the seven tunes (case-insensitive)'", ["melody-name", real],
                     "accepted" if should else "ValueError", r.get("exc", "accepted"), key="melody-name")
        if m is not None:
            m_acc = m[:2] == [0, 1]
            if m_acc != accepted or (m_acc and (C.wstr(m[2]) != real.lower() or m[3] != 1)):
                ctx.disagree("melody name: model vs parser", ["melody-name", real], m, r.get("exc", "accepted"))
    # the live tables themselves (property oracle on the real objects)
    if sorted(impl_tables["parser_names"]) != sorted(impl_tables["emitter"].keys()):
        ctx.fail("parser melody-name set differs from the emitter's score-table keys", ["tables"],
                 sorted(impl_tables["parser_names"]), sorted(impl_tables["emitter"].keys()), key="tables-names")
    return len(cands), n_acc


def listed_findings(ctx):
    """the entries of this work package's own file known_findings.d/C16.json, plus the entries of the merged
    known_findings.json for C16 that it does not list (the package's file wins: it is the source of the merge)"""
    import json
    items = {}
    p = C.VERIF / "known_findings.d" / "C16.json"
    if p.exists():
        for f in json.loads(p.read_text()):
            items[f["id"]] = f
    for f in ctx.findings:
        items.setdefault(f["id"], f)
    return list(items.values())


def witness_case(f):
    return {"kind": "finding", "pin": 8, "default": f["witness"].get("default"), "calls": f["witness"]["calls"], "style": 0}


def replay_findings(ctx, spec, fixed):
    """fixed=False: every listed finding (kind "finding") is replayed on the real firmware; still failing ->
    KNOWN-FINDING line.  fixed=True: every repaired finding (kind "fixed") is replayed the same way; a fixed entry
    suppresses nothing - if its witness fails again that is a property failure (VIOLATION, the witness is the
    replay)."""
    witnesses = [(f, witness_case(f)) for f in listed_findings(ctx) if (f.get("kind") == "fixed") == fixed]
    if not witnesses:
        return 0
    fwres, _ = run_firmware([w for _, w in witnesses], 10 ** 6)
    n = 0
    for i, (f, case) in enumerate(witnesses):
        segs = fwres.get(i)
        if isinstance(segs, tuple) or segs is None:
            if fixed:
                ctx.fail(f"{f.get('fixed', 'fixed: ' + f['id'])} - the witness cannot be transpiled/compiled/run any more", case,
                         "a trace", segs, key=f["id"])
            continue
        probe = C.Ctx("C16", ctx.tier, ctx.seed)
        probe.findings = []
        try:
            oracle(probe, case, segs, spec)
        except Exception as exc:
            if fixed:
                ctx.fail(f"{f.get('fixed', 'fixed: ' + f['id'])} - the oracle cannot read the witness trace ({type(exc).__name__})",
                         case, "a well-formed trace", segs, key=f["id"])
            continue
        n += 1
        if probe.failures and fixed:
            g = probe.failures[0]
            ctx.fail(f"{f.get('fixed', 'fixed: ' + f['id'])} - HAS RETURNED: {g['what']}", case, g["expected"], g["observed"], key=f["id"])
        elif probe.failures:
            ctx.known(f"{f['id']}: {f['what']}")
    return n


def shrink_failures(ctx, spec):
    """replace the first recorded failure of each class by the shortest sub-sequence that still fails
    the same clause on the real firmware (the failing call alone, else the prefix ending with it)"""
    import re
    firsts = {}
    for f in ctx.failures:
        if isinstance(f.get("case"), dict) and "calls" in f["case"] and f.get("key") not in firsts and len(firsts) < 5:
            firsts[f["key"]] = f
    cands = []
    for key, f in firsts.items():
        m = re.match(r"call #(-?\d+)", f["what"])
        j = int(m.group(1)) if m else -1
        case = f["case"]
        if j < 0 or len(case["calls"]) == 1 or case.get("kind") == "feedback":
            continue          # (a sub-sequence of a feedback case has other getter values: not minimized)
        for calls in ([case["calls"][j]], case["calls"][:j + 1]):
            cands.append((key, plain(case, calls=calls, kind="minimized")))
    if not cands:
        return
    try:
        fwres, _ = run_firmware([c for _, c in cands], 10 ** 6)
    except Exception:
        return
    done = set()
    for i, (key, case) in enumerate(cands):
        segs = fwres.get(i)
        if key in done or isinstance(segs, tuple) or segs is None or not in_guard(case):
            continue
        probe = C.Ctx("C16", ctx.tier, ctx.seed)
        try:
            oracle(probe, case, segs, spec)
        except Exception:
            continue
        hit = [g for g in probe.failures if g.get("key") == key]
        if hit:
            firsts[key].update({"minimized_from": firsts[key]["case"], "case": case, "what": hit[0]["what"],
                                "expected": hit[0]["expected"], "observed": hit[0]["observed"]})
            done.add(key)


def run(ctx: C.Ctx):
    thorough = ctx.tier == "thorough"
    impl_tables = C.run_impl("c16_impl.py", {})
    if not ctx.exe:
        # without the extracted model there are no pinned scores either: proof stage already failed
        ctx.coverage.update({"evaluations": 0, "rule": "model executable unavailable", "trusted_base": C.COMMON_TRUSTED})
        return
    spec = load_spec(ctx)
    # repaired findings first: a witness that fails again is reported before anything else
    n_fixed = replay_findings(ctx, spec, fixed=True)
    n_names, n_acc = check_names(ctx, spec, impl_tables)

    cases_all, n_feedback_dropped = resolve_feedback(ctx, build_cases(ctx))
    n_out_guard = sum(1 for c in cases_all if not in_guard(c))
    cases = [c for c in cases_all if in_guard(c)]
    # float32 vs exact-rational: keep only cases on which every integer the firmware derives agrees
    kept, n_inexact = [], 0
    for c in cases:
        if numeric_sites(c, spec, Fr) == numeric_sites(c, spec, F32):
            kept.append(c)
        else:
            n_inexact += 1
    cases = link_duos(kept)
    models = ctx.model([wire_case(c) for c in cases])
    units = sum(len(c["calls"]) + 1 for c in cases)
    fwres, n_sketches = run_firmware(cases, 80 if thorough else max(20, -(-units // 38)))
    n_ok = n_calls = 0
    dist = {"kinds": {}, "calls": {}, "runtime_args": 0, "literal_args": 0, "seq_len": {}, "tones": 0, "delays": 0,
            "cases_sounding_at_end": 0, "nonpositive_calls": 0}
    for i, (case, m) in enumerate(zip(cases, models)):
        segs = fwres.get(i)
        dist["kinds"][case["kind"]] = dist["kinds"].get(case["kind"], 0) + 1
        dist["seq_len"][len(case["calls"])] = dist["seq_len"].get(len(case["calls"]), 0) + 1
        for c in case["calls"]:
            dist["calls"][c["k"]] = dist["calls"].get(c["k"], 0) + 1
            dist["nonpositive_calls"] += int((c["k"] in ("play", "beep") and c.get("f") is not None and qfreq(c["f"]) <= 0)
                                             or (c["k"] == "sweep" and qfreq(c["s"]) <= 0 and qfreq(c["e"]) <= 0))
            for key in ("f", "d", "on", "off", "times", "s", "e", "steps", "tempo"):
                if c.get(key) is not None:
                    dist["runtime_args" if c[key][1] else "literal_args"] += 1
        if isinstance(segs, tuple) or segs is None:
            ctx.disagree("firmware could not be produced/run for a generated case", case, "trace", segs)
            continue
        if m[0] != 0:
            ctx.disagree("model rejected a generated case", case, m, None)
            continue
        n_calls += len(case["calls"])
        if len(segs) != len(case["calls"]) + 1:
            ctx.disagree("firmware trace does not have one getter block per call", case, len(case["calls"]) + 1, len(segs))
            continue
        fails = oracle(ctx, case, segs, spec)
        ok = compare(ctx, case, model_segments(m), segs)
        n_ok += ok and not fails
        for evs, g in segs:
            dist["tones"] += sum(1 for e in evs if e[0] == "T")
            dist["delays"] += sum(1 for e in evs if e[0] == "D")
        dist["cases_sounding_at_end"] += segs[-1][1][0]
    # thorough tier: a sample of the same cases again with clang++ -fsanitize=address,undefined; the emitted
    # code must run without a sanitizer report (float -> unsigned conversions, array indexing in melody())
    # and produce the same trace
    n_san = 0
    if thorough:
        import shutil as _sh
        if _sh.which("clang++"):
            pick = [i for i, c in enumerate(cases) if "duo_id" not in c][::7][:600]
            sub = [plain(cases[i], **{k: cases[i][k] for k in ("passes", "for_passes", "func_passes", "func_early", "body") if k in cases[i]})
                   for i in pick]
            sres, _ = run_firmware(sub, 80, san=True)
            for k, i in enumerate(pick):
                a, b = fwres.get(i), sres.get(k)
                if isinstance(a, tuple) or a is None:
                    continue
                n_san += 1
                if isinstance(b, tuple) or b is None:
                    ctx.disagree("sanitizer build (ASan+UBSan) of the emitted code fails or reports an error", cases[i], "clean run", b)
                elif a != b:
                    ctx.disagree("sanitizer build produces a different trace than the g++ build", cases[i], a, b)
    shrink_failures(ctx, spec)
    replay_findings(ctx, spec, fixed=False)

    distinct = len({repr((c["default"], c["calls"])) for c in cases if any(x["k"] != "stop" for x in c["calls"])})
    ctx.coverage.update({
        "evaluations": len(cases) + n_names,
        "distinct_nontrivial": distinct,
        "rule": "call sequences on one buzzer: (1) every point of the boundary grids (play_tone f x d, beep f x (on,off) x times, sweep s x e x (d,steps), melody x tempo; quick tier cycles the inner product, thorough takes it in full) chained four per case, literal and run-time (analog_read-routed) arguments alternating; (2) all ordered pairs over a 29-call boundary alphabet in four literal/run-time routings; (3) seeded random sequences of length <= 8 with per-argument routing, omitted defaults, keyword/positional spellings and case variants of melody names; (4) a body of 1-4 calls executed for 2-3 passes, inside `while True:` (loop(), state carried by the globals) inside `for k in range(P):` in setup(), or inside a user-defined function called P times; (5) two buzzers on different pins with randomly interleaved calls (each compared with its own model run; events on a foreign pin are failures). (6) state feedback: a seed call, then 1-3 calls whose frequency / start / end / tempo argument is `get_last_frequency() * a + b` or `get_frequency() * a + b` of the same buzzer (the model evaluates the expression in its own state; the oracle takes the getter value the firmware printed just before the call). (7) sweep durations around and above 2^24 ms; (8) the regions of the repaired findings: untimed tone then beep with count < 1, negative durations at every duration site, frequencies around 1/2; (9) sweeps of no steps (steps in 0, -1, -3, 0.5, -0.5, 0.75, -32768, and 1 beside them) after an untimed tone, a stop and a timed tone, followed by a beep repeating the last frequency. The witnesses of the repaired findings (known_findings.d/C16.json, kind fixed) are replayed before everything else. Thorough tier: a seventh of the cases re-run under clang++ ASan+UBSan. Getters are printed before the first and after every call. Non-trivial = contains a call other than stop; distinct by (default, calls).",
        "samples": [cases[0], cases[len(cases) // 2], cases[-1]],
        "distribution": {**dist, "cases": len(cases), "calls_compared": n_calls, "sketches": n_sketches,
                         "cases_clean": n_ok, "cases_rerun_under_sanitizers": n_san, "outside_guard_not_generated": n_out_guard, "feedback_cases_not_exact_dropped": n_feedback_dropped, "fixed_witnesses_replayed": n_fixed,
                         "float32_vs_exact_dropped": n_inexact, "melody_name_candidates": n_names, "melody_names_accepted": n_acc},
        "exhaustive": False,
        "guard": "integer outputs on which float32 and exact-rational arithmetic differ are not generated (count in distribution.float32_vs_exact_dropped).  Nothing else is excluded: beep(times < 1) after an untimed tone, negative durations (literal and run-time), frequencies in (0, 0.5), sweep durations >= 2^24 ms and sweeps of steps < 1 - the regions of the five repaired findings - are generated (kinds beepzero, negdur, subhalf, bigdur, nosteps, plus the grids, pairs and random sequences) and judged by every clause (a sweep of no steps: no tone, so no end frequency to end on)",
        "unmodelled": ["C++ float rounding (modelled as exact rationals; measured by the float32 filter and the correspondence)",
                       "unsigned int / int / unsigned long overflow (tone frequency >= 2^16 on AVR, counts >= 2^15)",
                       "static_cast<unsigned long> of a duration above ULONG_MAX (durations are clamped at zero from below only)",
                       "non-ASCII melody names (str.lower of U+212A)", "IEEE specials", "several buzzers sharing one pin",
                       "what the real Arduino core does with tone(pin, 0) (the mock only logs it)",
                       "calls on a receiver that was never declared as Buzzer; buzzer calls under if/try/with (statement layer: C01/C05/C07; `for`, `while True:` and parameterless user functions are exercised)",
                       "a Buzzer declared inside a block (its globals are then never declared: the sketch does not compile - C06)"],
        "trusted_base": C.COMMON_TRUSTED + ["harness/gen/melodies.py (translator plug-in for the melody tables)",
                                             "mock Arduino core mock/* (tone/noTone/delay/Serial.println/analogRead), g++ -O0",
                                             "harness/fw.py, harness/impl/transpile_impl.py, harness/impl/c16_impl.py",
                                             "harness-side float32 emulation used only to drop float-sensitive cases"],
    })
    ctx.assumptions += ["the mock core's event trace is the definition of 'device'",
                        "unsigned int is at least 17 bits wide for the generated frequencies (<= 65535.5)",
                        "analog_read-routed expressions reach the casts as the int/double values the harness computes"]


def replay(data):
    """./check replay <file>: re-run the recorded case on the real firmware and print oracle verdicts"""
    case = data.get("case")
    if not isinstance(case, dict) or "calls" not in case:
        return 0
    ctx = C.Ctx("C16", "quick", 0)
    ctx.prepare()
    spec = load_spec(ctx)
    group = [dict(case)]
    group[0].pop("duo", None)
    if case.get("partner") and "duo_order" in case:
        other = dict(case["partner"], kind="duo", duo_id=0, duo_role=1 - case["duo_role"], duo_order=case["duo_order"])
        group[0]["duo_id"] = 0
        group.append(other)
        link_duos(group)
    fwres, _ = run_firmware(group, 10 ** 6)
    segs = fwres.get(0)
    print("firmware segments:", segs)
    if isinstance(segs, tuple):
        return 1
    fails = oracle(ctx, case, segs, spec)
    for f in fails:
        print("FAIL", f)
    return 1 if fails else 0
