"""C16 stub"""
from harness import common as C
META = {"id": "C16", "technique": "", "level_text": "", "level_note": "", "design_ref": ""}
def run(ctx):
    print(ctx.proof.get("what"), ctx.proof.get("log", "")[-1500:] if not ctx.proof.get("ok") else "proof ok")
    print(ctx.model([[2]])[0][1][0][:2])
    print(ctx.model([[0, 9, __import__("fractions").Fraction(440), [[6],[7],[8],[0, __import__("fractions").Fraction(881,2)],[6],[7],[8],[3,[],__import__("fractions").Fraction(10),__import__("fractions").Fraction(5),__import__("fractions").Fraction(2)],[5,"notify",[]]]], [1, "SIREN"], [1, "x"]]))
