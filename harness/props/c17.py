"""C17 - LCD text: same characters in the same cells on device and host, never off-row."""
from __future__ import annotations

import json
from collections import Counter
from fractions import Fraction

from harness import common as C
from harness import fw

META = {
    "id": "C17",
    "technique": "Coq proof (host LCD model vs firmware LCD model over the mock's DDRAM: refinement by induction on the text, progress-bar arithmetic, backlight/glyph invariants over all histories) + extracted-model correspondence with the real LCD class and with the real transpiled firmware run under the mock core + property oracle firmware-vs-host",
    "level_text": "Theorems C17_* (coq/Props/C17.v) are proved for all ASCII texts, alignments, clear flags, in-range rows/columns, all histories of guarded calls and all geometries that fit one HD44780 about Gallina models of Displays/LCD.py and of the emitted LCD C++ (helper templates + per-node code, texts as UTF-8 bytes) on the mock LiquidCrystal DDRAM: per-call and per-history refinement (cells, backlight level, glyph table; message with any top/bottom on any display, progress with any value/max_value/width), never-off-row for every call kind on both sides, the four progress-bar laws for every max_value and width argument - both for the exact-rational rounding and for the binary64 arithmetic CPython really executes (Host/LCDFloat.v: fl53 = nearest binary64 number with its 2^-53 relative error bound proved, hfilled_fl; C17_progress_float_exact / _within_one / _saturates for every value and max_value and every bar width 1..40, _monotone_partial and _faithful_partial (equal to the exact rounding off the .5 ties) for max_value < 2^45, C17_progress_refines_float for whole calls) -, the backlight pin invariant over every firmware history, glyph rows; two refutations with witnesses (geometries that alias rows, non-ASCII text) replayed on the real code; three repaired defects (one-row message, progress width <= 0 / max_value <= 0: kind=fixed, their former refutations are now the positive theorems C17_message_one_row, C17_progress_same_bar, C17_progress_bar_within_one, their witnesses are replayed on every run and reported as VIOLATION if they fail again); the style/alignment tables of host, parser and emitter are regenerated from the source (Gen/LcdTables.v) and proved to agree. Both models are run against the real LCD object and the real parse+emit output compiled with g++ on generated op sequences (geometry sweep 1..40 x 1..4, both wirings), and the property relation is evaluated directly firmware-vs-host.",
    "level_note": "Trusted: Coq kernel, extraction, OCaml driver, mock Arduino core + mock LiquidCrystal/LiquidCrystal_I2C as the definition of 'device', g++, CPython. The theorems are about the models; the correspondence bounds their distance from LCD.py / emitter.py / parser.py. Text inside the guard is ASCII; the binary64 model has an unbounded exponent and exact int->float conversion, i.e. it is IEEE-754 for |value|, max_value < 2^53 (measured against CPython's float division and against LCD.progress on the grid).",
    "design_ref": "DESIGN.md section 4 C17",
}

ALIGNS = ["left", "center", "right"]
STYLES = ["block", "hash", "pipe", "dot"]
HOST_GLYPH = {"block": "█", "hash": "#", "pipe": "|", "dot": "."}
DEV_GLYPH = {"block": 255, "hash": 35, "pipe": 124, "dot": 46}
TEXT_ALPHA = "abcdefghijklmnopqrstuvwxyzABCDEFGHIJKLMNOPQRSTUVWXYZ0123456789   .:!?*+-=/_"
PAR_PINS = "rs=12, en=11, d4=5, d5=4, d6=3, d7=2"
NPOOL = 6


# --------------------------------------------------------------------------------------
# op helpers.  An op is a list as consumed by harness/impl/c17_impl.py:
#   ["write", col, row, text, clear, align] ["line", row, text, align, clear]
#   ["message", top, bottom, ta, ba, clear] ["clear"] ["progress", row, value, max, width, style, label]
#   ["display", on] ["backlight", on] ["brightness", level] ["glyph", slot, bitmap]
# --------------------------------------------------------------------------------------

def acode(a):
    a = a.lower()
    return ALIGNS.index(a) if a in ALIGNS else 3


def scode(s):
    s = s.lower()
    return STYLES.index(s) if s in STYLES else 4


def opt(x):
    return [] if x is None else [x]


def op_wire(op):
    k = op[0]
    if k == "write":
        return [0, op[1], op[2], op[3], bool(op[4]), acode(op[5])]
    if k == "line":
        return [1, op[1], op[2], acode(op[3]), bool(op[4])]
    if k == "message":
        return [2, opt(op[1]), opt(op[2]), acode(op[3]), acode(op[4]), bool(op[5])]
    if k == "clear":
        return [3]
    if k == "progress":
        return [4, op[1], op[2], op[3], opt(op[4]), scode(op[5]), op[6] or ""]
    if k == "display":
        return [5, bool(op[1])]
    if k == "backlight":
        return [6, bool(op[1])]
    if k == "brightness":
        return [7, op[1]]
    if k == "glyph":
        return [8, op[1], [int(v) for v in op[2]]]
    raise ValueError(op)


def geom_wire(g):
    return [g[0], g[1], bool(g[2]), opt(g[3])]


def op_rows(op, rows):
    """rows an op is allowed to write cells of"""
    k = op[0]
    if k == "write":
        return {op[2]}
    if k in ("line", "progress"):
        return {op[1]}
    if k == "message":
        s = set()
        if op[1] is not None:
            s.add(0)
        if op[2] is not None and rows >= 2:      # one-row display: both sides skip bottom
            s.add(1)
        return s
    if k == "clear":
        return set(range(rows))
    return set()


def fits(g):
    cols, rows = g[0], g[1]
    return 1 <= cols <= 40 and 1 <= rows <= 4 and (rows <= 2 or cols <= 20)


def is_ascii(t):
    return t is None or all(ord(c) < 128 for c in t)


def progress_float_tie_noise(value, maxv, width, cols):
    """True when CPython's binary64 ratio*width misses an exact .5 tie (outside the Q model)."""
    if maxv <= 0:
        return False
    tw = cols if width is None else max(1, min(cols, int(width)))
    v = min(max(value, 0), maxv)
    if (2 * v * tw) % maxv != 0 or ((2 * v * tw) // maxv) % 2 == 0:
        return False            # not an exact tie
    x = max(0.0, min(1.0, float(value) / float(maxv))) * tw
    return x != (2 * v * tw // maxv) / 2.0


def py_guard(g, op):
    """the executable guard (mirrors fitsb/op_guard of coq/Device/LCDRefine.v; cross-checked
    against the extracted one in run()) except the hfilled = dfilled clause of progress"""
    cols, rows, i2c, bl = g
    k = op[0]
    rin = lambda r: 0 <= r < rows
    if k == "write":
        return rin(op[2]) and 0 <= op[1] < cols and is_ascii(op[3]) and acode(op[5]) < 3
    if k == "line":
        return rin(op[1]) and is_ascii(op[2]) and acode(op[3]) < 3
    if k == "message":
        return is_ascii(op[1]) and is_ascii(op[2]) and acode(op[3]) < 3 and acode(op[4]) < 3
    if k == "progress":
        return rin(op[1]) and scode(op[5]) < 4 and is_ascii(op[6])
    if k == "brightness":
        return (not i2c) and bl is not None and 0 <= op[1] <= 255
    if k == "glyph":
        return 0 <= op[1] <= 7 and len(op[2]) == 8
    return True


# --------------------------------------------------------------------------------------
# script generation: many LCD instances per sketch, ops separated by serial markers
# --------------------------------------------------------------------------------------

class ScriptBuilder:
    """Builds one Reduino script.  mode 'setup': every op sequentially in setup();
    mode 'loop': op j of every LCD in loop pass j (so REDU_LCD_DUMP shows the matrix after
    every op).  Numeric/bool arguments marked run-time are fed through analog_read."""

    def __init__(self, mode):
        self.mode = mode
        self.decls = []
        self.body = {}          # pass index (or 0 in setup mode) -> lines
        self.inputs = {}        # pass index -> analog_read values in execution order
        self.cur = 0
        self.cases = []         # (case id, geom, ops)
        self.pool_i = 0

    def add_lcd(self, cid, geom, ops, rts):
        idx = len(self.cases)
        cols, rows, i2c, bl = geom
        name = f"lcd{idx}"
        args = ("i2c_addr=39" if i2c else PAR_PINS) + f", cols={cols}, rows={rows}"
        if bl is not None:
            args += f", backlight_pin={bl}"
        self.decls.append(f"{name} = LCD({args})")
        self.cases.append((cid, geom, ops))
        for j, (op, rt) in enumerate(zip(ops, rts)):
            self.cur = j if self.mode == "loop" else 0
            lines = self.body.setdefault(self.cur, [])
            pre, call = self.render(name, op, rt)
            lines += pre
            lines.append(f'mon.write("##case {idx}.{j}")')
            lines.append(call)

    # -- argument rendering
    def num(self, v, rt, pre):
        if rt and -512 <= v <= 511:
            var = f"x{self.pool_i % NPOOL}"
            self.pool_i += 1
            pre.append(f'{var} = analog_read("A0")')
            self.inputs.setdefault(self.cur, []).append(v + 512)
            return f"({var} - 512)"
        return str(v)

    def boolean(self, v, rt, pre):
        if rt:
            var = f"x{self.pool_i % NPOOL}"
            self.pool_i += 1
            pre.append(f'{var} = analog_read("A0")')
            self.inputs.setdefault(self.cur, []).append(1 if v else 0)
            return f"({var} == 1)"
        return "True" if v else "False"

    @staticmethod
    def text(t):
        assert '"' not in t and "\\" not in t and "#" not in t
        return '"' + t + '"'

    def render(self, name, op, rt):
        pre = []
        k = op[0]
        if k == "write":
            c = self.num(op[1], rt, pre)
            r = self.num(op[2], rt, pre)
            cl = self.boolean(op[4], rt, pre)
            return pre, f"{name}.write({c}, {r}, {self.text(op[3])}, clear_row={cl}, align={self.text(op[5])})"
        if k == "line":
            r = self.num(op[1], rt, pre)
            cl = self.boolean(op[4], rt, pre)
            return pre, f"{name}.line({r}, {self.text(op[2])}, align={self.text(op[3])}, clear_row={cl})"
        if k == "message":
            cl = self.boolean(op[5], rt, pre)
            top = "None" if op[1] is None else self.text(op[1])
            bot = "None" if op[2] is None else self.text(op[2])
            return pre, f"{name}.message({top}, {bot}, top_align={self.text(op[3])}, bottom_align={self.text(op[4])}, clear_rows={cl})"
        if k == "clear":
            return pre, f"{name}.clear()"
        if k == "progress":
            r = self.num(op[1], rt, pre)
            v = self.num(op[2], rt, pre)
            m = self.num(op[3], rt, pre)
            parts = [r, v, m]
            if op[4] is not None:
                parts.append("width=" + self.num(op[4], rt, pre))
            parts.append("style=" + self.text(op[5]))
            if op[6] is not None:
                parts.append("label=" + self.text(op[6]))
            return pre, f"{name}.progress({', '.join(parts)})"
        if k == "display":
            return pre, f"{name}.display({self.boolean(op[1], rt, pre)})"
        if k == "backlight":
            return pre, f"{name}.backlight({self.boolean(op[1], rt, pre)})"
        if k == "brightness":
            return pre, f"{name}.brightness({self.num(op[1], rt, pre)})"
        if k == "glyph":
            return pre, f"{name}.glyph({self.num(op[1], rt, pre)}, [{', '.join(str(int(v)) for v in op[2])}])"
        raise ValueError(op)

    def source(self):
        head = ["from Reduino.Displays import LCD", "from Reduino.Communication import SerialMonitor",
                "from Reduino.Core import analog_read", "mon = SerialMonitor(9600)"] + self.decls
        # the pool variables get their type from a first run-time assignment (never a constant)
        pool = [f'x{i} = analog_read("A0")' for i in range(NPOOL)]
        inputs = [512] * NPOOL + [v for j in sorted(self.inputs) for v in self.inputs[j]]
        if self.mode == "setup":
            lines = head + pool + self.body.get(0, [])
            loops = 0
        else:
            lines = head + pool + ["k = 0", "while True:"]
            npass = (max(self.body) + 1) if self.body else 0
            for j in range(npass):
                lines.append(f"    if k == {j}:")
                for ln in self.body.get(j, []) or ["pass"]:
                    lines.append("        " + ln)
            lines.append("    k = k + 1")
            loops = npass
        return "\n".join(lines) + "\n", "ar 14 " + " ".join(str(v) for v in inputs) + "\n", loops


def unescape(s):
    out, i = [], 0
    while i < len(s):
        if s[i] == "\\" and i + 1 < len(s):
            if s[i + 1] == "\\":
                out.append(92)
                i += 2
                continue
            if s[i + 1] == "x":
                out.append(int(s[i + 2:i + 4], 16))
                i += 4
                continue
        out.append(ord(s[i]))
        i += 1
    return out


def ev_wire(line):
    """mock event line -> (lcd id or None, wire tuple) ; None for lines that are not device effects"""
    p = line.split(" ")
    t = p[0]
    if t == "LB":
        return int(p[1]), [0, int(p[3]), int(p[4])]
    if t == "LCLR":
        return int(p[1]), [1]
    if t == "LSC":
        return int(p[1]), [2, int(p[2]), int(p[3])]
    if t == "LW":
        return int(p[1]), [3, int(p[2]), int(p[3]), int(p[4])]
    if t == "LCG":
        return int(p[1]), [4] + [int(x) for x in p[2:]]
    if t == "LDISP":
        return int(p[1]), [5, int(p[2])]
    if t == "LBL":
        return int(p[1]), [6, int(p[2])]
    if t == "PM":
        return None, [7, int(p[1]), int(p[2])]
    if t == "AW":
        return None, [8, int(p[1]), int(p[2])]
    if t in ("AR", "S", "SB", "SP", "M", "LNEW", "LD"):
        return None, None
    return None, ["?", line]


def parse_run(sb: ScriptBuilder, events):
    """-> per LCD index: {"init": [ev], "ops": {j: [ev]}, "dumps": {phase: [[codes]...]}, "stray": [...]}"""
    n = len(sb.cases)
    out = [{"init": [], "ops": {}, "dumps": {}, "stray": [], "op_phase": {}} for _ in range(n)]
    pins = {g[3]: i for i, (_, g, _) in enumerate(sb.cases) if g[3] is not None}
    cur = None
    phase = -1      # 0 = setup, k+1 = loop pass k
    for e in events:
        if e == "M setup":
            phase = 0
            continue
        if e.startswith("M loop "):
            phase = int(e.split()[2]) + 1
            cur = None
            continue
        if e.startswith("S ##case "):
            a, b = e[len("S ##case "):].split(".")
            cur = (int(a), int(b))
            out[cur[0]]["ops"][cur[1]] = []
            out[cur[0]]["op_phase"][cur[1]] = phase
            continue
        if e.startswith("LD "):
            p = e.split(" ", 3)
            i, r = int(p[1]), int(p[2])
            if i < n:
                out[i]["dumps"].setdefault(phase, {})[r] = unescape(p[3] if len(p) > 3 else "")
            continue
        lid, w = ev_wire(e)
        if w is None:
            continue
        if cur is None:
            # declaration code in setup
            if lid is None and w[0] in (7, 8) and w[1] in pins:
                lid = pins[w[1]]
            if lid is not None and lid < n:
                out[lid]["init"].append(w)
            continue
        i, j = cur
        if lid is not None and lid != i:
            out[i]["stray"].append(e)
        out[i]["ops"][j].append(w)
    return out


class Matrix:
    """cell matrix tracked from the firmware's own cell-write events"""

    def __init__(self, cols, rows):
        self.cols, self.rows = cols, min(rows, 4)
        self.m = [[32] * cols for _ in range(self.rows)]

    def apply(self, evs):
        for w in evs:
            if w[0] == 1 or w[0] == 0:
                self.m = [[32] * self.cols for _ in range(self.rows)]
            elif w[0] == 3 and 0 <= w[1] < self.rows and 0 <= w[2] < self.cols:
                self.m[w[1]][w[2]] = w[3]

    def copy(self):
        return [list(r) for r in self.m]


def canon_host(buf):
    return [[255 if ord(c) == 0x2588 else ord(c) for c in row] for row in buf]


def show(m):
    return ["".join(chr(c) if 32 <= c < 127 else ("█" if c == 255 else "?") for c in r) for r in m]


# --------------------------------------------------------------------------------------
# generators
# --------------------------------------------------------------------------------------

def gen_text(rng, n):
    return "".join(rng.choice(TEXT_ALPHA) for _ in range(n))


def length_classes(rng, space, cols):
    """empty / shorter / equal / longer than the space"""
    ls = [0, space, space + 1, space + rng.randint(2, 6), 2 * cols + 1]
    if space >= 2:
        ls += [1, space - 1]
    if space >= 4:
        ls.append(rng.randint(2, space - 2))
    return sorted(set(ls))


def sweep_ops(rng, g, thorough):
    """single calls of every text method in every length class / alignment / clear flag /
    column position, executed one after another on one display (so every call runs on a
    non-trivial previous content).  All inside the guard."""
    cols, rows, i2c, bl = g
    ops = []
    colset = sorted({0, cols // 2, cols - 1})
    r = 0
    for col in colset:
        for n in length_classes(rng, cols - col, cols):
            combos = [(a, c) for a in ALIGNS for c in (True, False)]
            if not thorough:
                combos = rng.sample(combos, 2)
            for a, c in combos:
                ops.append(["write", col, r % rows, gen_text(rng, n), c, a])
                r += 1
    for n in length_classes(rng, cols, cols):
        combos = [(a, c) for a in ALIGNS for c in (True, False)]
        if not thorough:
            combos = rng.sample(combos, 2)
        for a, c in combos:
            ops.append(["line", r % rows, gen_text(rng, n), a.upper() if rng.random() < 0.1 else a, c])
            r += 1
    # bottom texts also on one-row displays (both sides skip them; formerly F-C17-message-one-row)
    for top_n, bot_n in [(0, None), (None, cols), (cols + 2, cols - 1 if cols > 1 else 1), (1, 0), (None, None)]:
        ops.append(["message", None if top_n is None else gen_text(rng, top_n), None if bot_n is None else gen_text(rng, bot_n),
                    rng.choice(ALIGNS), rng.choice(ALIGNS), rng.random() < 0.6])
    ops.append(["clear"])
    ops.append(["line", rows - 1, gen_text(rng, cols), "left", False])
    rng.shuffle(ops)
    return ops


def bar_width(cols, w):
    """total bar width both sides use: width=None -> cols, otherwise clamped into 1..cols"""
    return cols if w is None else max(1, min(cols, w))


def divides(m, x):
    """Coq's (m | x): 0 divides only 0"""
    return x == 0 if m == 0 else x % m == 0


def exact_progress(rng, cols, rows):
    """a progress call whose value*width is a multiple of max_value (or saturated, or with a
    degenerate max_value <= 0 = empty bar); width also <= 0 (one cell) and > cols"""
    w = rng.choice([None, 1, cols, max(1, cols // 2), rng.randint(1, cols), cols + 3, 0, -1, -cols - 2])
    tw = bar_width(cols, w)
    kind = rng.random()
    if kind < 0.15:
        m = rng.choice([0, -1, -2, -7, -100])
        v = rng.choice([-5, -1, 0, 1, 5, 100, 300])
    elif kind < 0.35:
        m = rng.randint(1, 300)
        v = rng.choice([-5, -1, 0, m, m + 1, m + 100])
    else:
        k = rng.randint(0, tw)
        f = rng.randint(1, 9)
        m, v = tw * f, k * f                   # v*tw/m = k exactly
    label = rng.choice([None, None, "", "L", "ab", gen_text(rng, rng.randint(1, cols + 2))])
    return ["progress", rng.randrange(rows), v, m, w, rng.choice(STYLES + ["BLOCK"]), label]


def random_op(rng, g, guard=True):
    cols, rows, i2c, bl = g
    k = rng.random()
    row = rng.randrange(rows)
    if k < 0.3:
        col = rng.choice([0, cols - 1, cols // 2, rng.randrange(cols)])
        n = rng.choice(length_classes(rng, cols - col, cols))
        return ["write", col, row, gen_text(rng, n), rng.random() < 0.5, rng.choice(ALIGNS)]
    if k < 0.5:
        n = rng.choice(length_classes(rng, cols, cols))
        return ["line", row, gen_text(rng, n), rng.choice(ALIGNS), rng.random() < 0.5]
    if k < 0.62:
        top = rng.choice([None, gen_text(rng, rng.choice([0, 1, cols, cols + 3]))])
        bot = rng.choice([None, gen_text(rng, rng.choice([0, 1, cols, cols + 3]))])
        return ["message", top, bot, rng.choice(ALIGNS), rng.choice(ALIGNS), rng.random() < 0.5]
    if k < 0.67:
        return ["clear"]
    if k < 0.8:
        return exact_progress(rng, cols, rows)
    if k < 0.85:
        return ["display", rng.random() < 0.5]
    if k < 0.9:
        return ["backlight", rng.random() < 0.5]
    if k < 0.95 and (not i2c) and bl is not None:
        return ["brightness", rng.choice([0, 1, 127, 128, 254, 255, rng.randint(0, 255)])]
    return ["glyph", rng.randint(0, 7), [rng.choice([0, 1, 31, 32, 255, -1, 21, 10, rng.randint(-40, 300)]) for _ in range(8)]]


def bl_op(rng, g):
    """display / backlight / brightness histories (with a glyph or a text call now and then)"""
    cols, rows, i2c, bl = g
    k = rng.random()
    if k < 0.25:
        return ["display", rng.random() < 0.5]
    if k < 0.55:
        return ["backlight", rng.random() < 0.5]
    if k < 0.85 and (not i2c) and bl is not None:
        return ["brightness", rng.choice([0, 1, 77, 128, 254, 255, rng.randint(0, 255)])]
    if k < 0.93:
        return ["glyph", rng.randint(0, 7), [rng.choice([0, 1, 31, 32, 63, 255, -1, 21, 10, rng.randint(-40, 300)]) for _ in range(8)]]
    return ["line", rng.randrange(rows), gen_text(rng, rng.randint(0, cols)), rng.choice(ALIGNS), rng.random() < 0.5]


NON_ASCII = "\u00b0\u00e9\u00b5\u00f1\u2192\u2588\u20ac\U0001f600"


def gen_wild_text(rng, n):
    """text with non-ASCII code points (1-4 UTF-8 bytes each) now and then"""
    if rng.random() < 0.7:
        return gen_text(rng, n)
    return "".join(rng.choice(NON_ASCII) if rng.random() < 0.3 else rng.choice(TEXT_ALPHA) for _ in range(n))


def wild_op(rng, g):
    """anything, including calls outside the property's quantifier (correspondence only)"""
    cols, rows, i2c, bl = g
    k = rng.random()
    gen_text = gen_wild_text
    anyrow = lambda: rng.choice([-2, -1, 0, 1, rows - 1, rows, rows + 1, 3, 4, 5, 255, 256])
    if k < 0.3:
        col = rng.choice([-3, -1, 0, 1, cols - 1, cols, cols + 1, 41, 255, 256, rng.randint(-2, cols + 2)])
        return ["write", col, anyrow(), gen_text(rng, rng.choice([0, 1, cols - 1, cols, cols + 1, 2 * cols])), rng.random() < 0.5,
                rng.choice(ALIGNS + ["Center", "RIGHT", "middle", ""])]
    if k < 0.45:
        return ["line", anyrow(), gen_text(rng, rng.choice([0, 1, cols, cols + 1])), rng.choice(ALIGNS + ["justify"]), rng.random() < 0.5]
    if k < 0.6:
        return ["message", rng.choice([None, gen_text(rng, rng.randint(0, cols + 2))]), rng.choice([None, gen_text(rng, rng.randint(0, cols + 2))]),
                rng.choice(ALIGNS + ["x"]), rng.choice(ALIGNS), rng.random() < 0.5]
    if k < 0.8:
        return ["progress", anyrow(), rng.choice([-7, -1, 0, 1, 2, 5, 50, 99, 100, 101, 300]), rng.choice([-4, -1, 0, 1, 2, 3, 7, 100, 255]),
                rng.choice([None, -3, -1, 0, 1, 2, cols - 1, cols, cols + 1, 60]), rng.choice(STYLES + ["Hash", "bar"]),
                rng.choice([None, "", "x", gen_text(rng, cols)])]
    if k < 0.85:
        return ["display", rng.random() < 0.5]
    if k < 0.9:
        return ["backlight", rng.random() < 0.5]
    if k < 0.95:
        return ["brightness", rng.choice([-300, -1, 0, 1, 255, 256, 300, 511])]
    n = rng.choice([8, 8, 8, 0, 7, 9])
    return ["glyph", rng.choice([-1, 0, 3, 7, 8, 9, 255, 256]), [rng.randint(-40, 300) for _ in range(n)]]


# --------------------------------------------------------------------------------------
# running the three sides
# --------------------------------------------------------------------------------------

def run_firmware(builders):
    """-> list of (parsed-per-lcd | None, problem text | None)"""
    srcs = [b.source() for b in builders]
    tr = fw.transpile_many([s[0] for s in srcs])
    jobs, idx = [], []
    for i, (t, s) in enumerate(zip(tr, srcs)):
        if t.get("ok"):
            jobs.append({"cpp": t["cpp"], "input": s[1], "loops": s[2], "env": {"REDU_LCD_DUMP": "1"}})
            idx.append(i)
    res = fw.run_sketches(jobs)
    out = [(None, None)] * len(builders)
    for i, t in enumerate(tr):
        if not t.get("ok"):
            out[i] = (None, f"transpile failed: {t.get('exc')}: {t.get('msg')}")
    for i, r in zip(idx, res):
        if not r["compiled"]:
            out[i] = (None, "g++ failed: " + r["compile_log"][-600:])
        elif r["rc"] != 0:
            out[i] = (None, f"sketch exit {r['rc']}: {r['stderr'][-300:]}")
        else:
            out[i] = (parse_run(builders[i], r["events"]), None)
    return out


def host_model_compare(ctx, cid, g, ops, hm, hi):
    """extracted host model vs real LCD object, after every call"""
    if hm[0] != 0:
        if hi["ctor"] == "ok":
            ctx.disagree("host ctor: model raises, LCD() accepts", {"id": cid, "geom": g}, hm, hi["ctor"])
        return
    if hi["ctor"] != "ok":
        ctx.disagree("host ctor: model accepts, LCD() raises", {"id": cid, "geom": g}, hm, hi["ctor"])
        return
    for j, (op, m, r) in enumerate(zip(ops, hm[1:], hi["steps"])):
        st = {"ok": 0, "ValueError": 1, "RuntimeError": 2}.get(r["st"], -1)
        mbuf = ["".join(chr(c) for c in row) for row in m[1]]
        mg = {str(s): list(v) for s, v in m[5]}
        obs = [st, r["buf"], r["display"], r["backlight"], r["bright"], r["glyphs"]]
        exp = [m[0], mbuf, bool(m[2]), bool(m[3]), m[4], mg]
        if obs != exp or "\n".join(r["buf"]) != r["dump"]:
            ctx.disagree(f"host model vs LCD.{op[0]} (call {j})", {"id": cid, "geom": g, "ops": ops[:j + 1]},
                         {"status": exp[0], "buf": exp[1], "state": exp[2:]}, {"status": r["st"], "buf": obs[1], "state": obs[2:]})
            return


def device_model_compare(ctx, cid, g, ops, dm, fwp):
    """extracted firmware model vs the real firmware: event list of every call + cell matrix"""
    what = None
    if dm[0] != 0:
        ctx.disagree("device model undecodable", {"id": cid}, dm, None)
        return
    init_m, cells0, steps = dm[1], dm[2], dm[3:]
    if fwp["stray"]:
        ctx.disagree("firmware touched another LCD", {"id": cid, "geom": g, "ops": ops}, None, fwp["stray"][:5])
        return
    if init_m != fwp["init"]:
        ctx.disagree("device model vs firmware: declaration events", {"id": cid, "geom": g}, init_m, fwp["init"])
        return
    for j, (op, s) in enumerate(zip(ops, steps)):
        evs = fwp["ops"].get(j)
        if s[0] == 0:
            ctx.disagree("device model rejects a call the transpiler accepted", {"id": cid, "geom": g, "op": op}, s, evs)
            return
        if evs is None:
            ctx.disagree("firmware never reached the call", {"id": cid, "geom": g, "ops": ops[:j + 1]}, s, None)
            return
        if s[1] != evs:
            k = next((i for i, (a, b) in enumerate(zip(s[1], evs)) if a != b), min(len(s[1]), len(evs)))
            ctx.disagree(f"device model vs firmware events of {op[0]} (call {j}, first difference at event {k})",
                         {"id": cid, "geom": g, "ops": ops[:j + 1]}, s[1][max(0, k - 2):k + 4], evs[max(0, k - 2):k + 4])
            return
    # cell matrix: the mock's own dump wherever one is available (after setup / after each pass)
    last_in_phase = {}
    for j in range(len(ops)):
        last_in_phase[fwp["op_phase"][j]] = j
    for ph, dump in fwp["dumps"].items():
        j = max([jj for p, jj in last_in_phase.items() if p <= ph], default=None)
        mcells = cells0 if j is None else steps[j][2]
        dcells = [dump[r] for r in sorted(dump)]
        if mcells != dcells:
            ctx.disagree(f"device model cells vs mock dump after phase {ph}", {"id": cid, "geom": g, "ops": ops[:(j or 0) + 1]},
                         show(mcells), show(dcells))
            return


def firmware_matrices(g, ops, fwp):
    """cell matrix after every call, tracked from LW/LCLR events and validated against every
    dump the mock printed; returns (list of matrices, problem)"""
    mx = Matrix(g[0], g[1])
    mx.apply(fwp["init"])
    out = []
    last_in_phase = {}
    for j in range(len(ops)):
        evs = fwp["ops"].get(j)
        if evs is None:
            return out, f"call {j} never reached"
        mx.apply(evs)
        out.append(mx.copy())
        last_in_phase[fwp["op_phase"][j]] = j
    for ph, dump in fwp["dumps"].items():
        j = max([jj for p, jj in last_in_phase.items() if p <= ph], default=None)
        if j is None:
            continue
        d = [dump[r] for r in sorted(dump)]
        if d != out[j]:
            return out, f"dump after phase {ph} differs from the tracked cell writes: {show(d)} vs {show(out[j])}"
    return out, None


def bar_filled(row_codes, label, width, glyph_code):
    """filled length of a rendered bar (None when the bar is cut by the display edge)"""
    start = (len(label) + 1) if label else 0
    bar = row_codes[start:start + width]
    if len(bar) < width:
        return None
    n = 0
    while n < len(bar) and bar[n] == glyph_code:
        n += 1
    if any(c != 32 for c in bar[n:]):
        return -1
    return n


def oracle(ctx, cid, g, ops, hi, fwp):
    """the property relation, evaluated on the real firmware trace and the real host object"""
    cols, rows, i2c, bl = g
    case = {"id": cid, "geom": g}
    if hi["ctor"] != "ok":
        ctx.fail("LCD() rejects an in-range geometry", case, "ok", hi["ctor"], key="ctor")
        return
    mats, prob = firmware_matrices(g, ops, fwp)
    if prob:
        ctx.fail("firmware trace unusable: " + prob, {**case, "ops": ops}, None, None, key="trace")
        return
    prev_dev = [[32] * cols for _ in range(rows)]
    prev_host = [[32] * cols for _ in range(rows)]
    level = None
    for w in fwp["init"]:
        if w[0] == 8 and w[1] == bl:
            level = w[2]
        if w[0] == 6:
            level = w[1]
    diverged = False        # a progress bar legitimately off by one cell: stop comparing that display's matrix
    for j, op in enumerate(ops):
        c = {**case, "ops": ops[:j + 1]}
        st = hi["steps"][j]
        evs = fwp["ops"][j]
        if st["st"] != "ok":
            ctx.fail(f"host {op[0]} raises on an in-range call", c, "ok", st["st"], key="host-raise-" + op[0])
            return
        allowed = op_rows(op, rows)
        # never off-row, never beyond the width (device: every cell write of the call)
        for w in evs:
            if w[0] == 3 and (w[1] not in allowed or not 0 <= w[2] < cols):
                ctx.fail(f"firmware {op[0]} writes a cell outside its row/width", c, f"rows {sorted(allowed)}, 0 <= col < {cols}",
                         {"row": w[1], "col": w[2], "ch": w[3]}, key="off-row-" + op[0])
                return
        dev = mats[j]
        host = canon_host(st["buf"])
        if len(st["buf"]) != rows or any(len(r) != cols for r in st["buf"]):
            ctx.fail(f"host buffer changed shape in {op[0]}", c, [rows, cols], [len(r) for r in st["buf"]], key="host-shape")
            return
        # other rows untouched, on both sides
        for r in range(rows):
            if r not in allowed:
                if dev[r] != prev_dev[r]:
                    ctx.fail(f"firmware {op[0]} changed another row", c, show([prev_dev[r]]), show([dev[r]]), key="other-row-dev")
                    return
                if host[r] != prev_host[r]:
                    ctx.fail(f"host {op[0]} changed another row", c, show([prev_host[r]]), show([host[r]]), key="other-row-host")
                    return
        if op[0] == "progress":
            tw = bar_width(cols, op[4])
            lab = op[6] or ""
            hf = bar_filled(host[op[1]], lab, tw, 255 if scode(op[5]) == 0 else DEV_GLYPH[STYLES[scode(op[5])]])
            df = bar_filled(dev[op[1]], lab, tw, DEV_GLYPH[STYLES[scode(op[5])]])
            if hf is not None and df is not None:
                v, m = op[2], op[3]
                if hf < 0 or df < 0:
                    ctx.fail("progress bar is not 'filled then blank'", c, None, show([host[op[1]], dev[op[1]]]), key="bar-shape")
                    return
                if (v <= 0 or m <= 0) and (hf, df) != (0, 0) or 0 < m <= v and (hf, df) != (tw, tw):
                    ctx.fail("progress bar does not saturate", c, [0 if (v <= 0 or m <= 0) else tw] * 2, [hf, df], key="saturate")
                    return
                if abs(hf - df) > 1:
                    ctx.fail("progress bars differ by more than one cell", c, hf, df, key="within-one")
                    return
                if divides(m, v * tw) and hf != df:
                    ctx.fail("progress bars differ although value*width is a multiple of max_value", c, hf, df, key="exact")
                    return
                if hf != df:
                    diverged = True
            elif dev != host:
                diverged = True if abs(sum(x == y for x, y in zip(dev[op[1]], host[op[1]])) - cols) <= 1 else diverged
        if not diverged and dev != host:
            ctx.fail(f"firmware display differs from host buffer after {op[0]}", c, show(host), show(dev), key="cells-" + op[0])
            return
        if diverged and op[0] in ("clear",):
            diverged = dev != host
        # backlight
        for w in evs:
            if w[0] == 8 and w[1] == bl:
                level = w[2]
            if w[0] == 6:
                level = w[1]
        if op[0] in ("display", "backlight", "brightness"):
            if i2c:
                want = 1 if st["backlight"] else 0
            elif bl is not None:
                want = st["bright"] if st["backlight"] else 0
            else:
                want = level
            if level != want:
                ctx.fail(f"backlight level after {op[0]}", c, want, level, key="backlight")
                return
        if op[0] == "glyph":
            cg = [w for w in evs if w[0] == 4]
            want = st["glyphs"].get(str(op[1]))
            if len(cg) != 1 or cg[0][1] != op[1] or cg[0][2:] != want or len(want) != 8 or any(not 0 <= x <= 31 for x in want):
                ctx.fail("glyph upload differs from the rows the host stores", c, want, cg, key="glyph")
                return
        prev_dev, prev_host = dev, host


def progress_scan(ctx, cid, g, ops, hi, fwp):
    """monotonicity over a scan of increasing values at fixed max/width (same display row)"""
    mats, prob = firmware_matrices(g, ops, fwp)
    if prob or hi["ctor"] != "ok":
        return
    hs, ds = [], []
    for j, op in enumerate(ops):
        if op[0] != "progress":
            continue
        tw = bar_width(g[0], op[4])
        code = DEV_GLYPH[STYLES[scode(op[5])]]
        hs.append(bar_filled(canon_host(hi["steps"][j]["buf"])[op[1]], op[6] or "", tw, code))
        ds.append(bar_filled(mats[j][op[1]], op[6] or "", tw, code))
    for name, seq in (("host", hs), ("firmware", ds)):
        if None in seq:
            continue
        if any(a > b for a, b in zip(seq, seq[1:])):
            ctx.fail(f"{name} progress bar is not monotone in value", {"id": cid, "geom": g, "ops": ops}, "non-decreasing", seq, key="monotone-" + name)



# --------------------------------------------------------------------------------------
# progress grid: the real host class on every bar width 1..40 x every max_value up to a bound
# x every value -1..max+1 (host calls are cheap), the laws evaluated against the firmware's
# integer arithmetic; every suspicious triple is then run on the REAL firmware (one call on a
# fresh display) and only a firmware-vs-host difference is reported.
# --------------------------------------------------------------------------------------
GRID_SPECIAL_M = [255, 256, 1000, 1023, 1024, 4095, 9999, 32767]
GRID_SCALES = [1, 2, 3, 7, 13, 25, 64, 1000]


def dev_formula(v, m, tw):
    """static_cast<long>(value) * width / max_value after the helper's clamps"""
    if m <= 0:
        return 0
    return min(max(v, 0), m) * tw // m


def grid_entries(rng, thorough):
    """[cols, width|None, max_value, [values], label|None, style] - see harness/impl/c17_impl.py"""
    out = []
    M = 320 if thorough else 128

    def route(w, k):
        # the bar width w arises as the display width (width=None), as width=w on a wider
        # display, as an over-wide width on a w-column display, and next to a label
        k %= 4
        if k == 0:
            return [w, None, None]
        if k == 1:
            return [min(40, w + 1 + (w % 5)), w, None]
        if k == 2:
            return [w, w + 3, None]
        lab = "ab"[: 1 + w % 2]
        return [min(40, w + len(lab) + 1), w, lab] if w + len(lab) + 1 <= 40 else [w, None, None]

    for w in range(1, 41):
        for m in range(1, M + 1):
            ks = range(4) if (thorough and m <= 64) else [w + m]
            for k in ks:
                cols, width, lab = route(w, k)
                out.append([cols, width, m, list(range(-1, m + 2)), lab, STYLES[(w + m + k) % 4]])
        for m in GRID_SPECIAL_M:
            cols, width, lab = route(w, m)
            if m <= 1024:
                vals = list(range(-1, m + 2))
            else:
                vals = sorted(set([-1, 0, 1, m // 2, m - 1, m, m + 1] + [rng.randint(0, m) for _ in range(120)]
                                  + [m * j // w for j in range(w + 1)] + [m * j // w + 1 for j in range(w)]))
            out.append([cols, width, m, vals, lab, STYLES[(w + m) % 4]])
        # every exact multiple: value/max_value = j/w for every j, in several spellings of the fraction
        for f in GRID_SCALES:
            for k in range(4):
                cols, width, lab = route(w, k)
                out.append([cols, width, w * f, [j * f for j in range(w + 1)], lab, STYLES[(w + f + k) % 4]])
        # degenerate max_value: empty bar on both sides
        for m in (0, -1, -7):
            cols, width, lab = route(w, m)
            out.append([cols, width, m, [-3, 0, 1, 5, 100], lab, STYLES[w % 4]])
    return out


def grid_op(entry, v):
    cols, width, m, _, lab, style = entry
    return [cols, 1, False, None], ["progress", 0, v, m, width, style, lab]


def confirm_on_firmware(ctx, cands, dist):
    """cands: [(geom, ops)] -> run each alone on the real firmware + real host and evaluate the property
    relation; a confirmed failure is reported with exactly that case as the replay"""
    if not cands:
        return
    hres = C.run_impl("c17_impl.py", {"cases": [{"geom": g, "ops": ops} for g, ops in cands]})
    bs = []
    for i in range(0, len(cands), 6):
        b = ScriptBuilder("setup")
        for g, ops in cands[i:i + 6]:
            b.add_lcd("grid", g, ops, [False] * len(ops))
        bs.append(b)
    fres = run_firmware(bs)
    for i, (g, ops) in enumerate(cands):
        parsed, prob = fres[i // 6]
        if prob:
            ctx.disagree("grid candidate: firmware could not be produced/run: " + prob, {"geom": g, "ops": ops}, None, None)
            continue
        dist["grid:confirmed-on-firmware"] += 1
        n0 = len(ctx.failures)
        oracle(ctx, "grid", g, ops, hres[i], parsed[i % 6])
        if len(ops) > 1:
            progress_scan(ctx, "grid", g, ops, hres[i], parsed[i % 6])
        if len(ctx.failures) == n0:
            # the host deviates from the firmware's documented arithmetic, the real firmware agrees
            # with the host: the device model is what no longer matches
            ctx.disagree("progress grid: host differs from integer arithmetic, real firmware agrees with the host",
                         {"geom": g, "ops": ops}, None, [st["buf"] for st in hres[i]["steps"]])


def host_grid(ctx, dist, thorough):
    rng = ctx.rng
    entries = grid_entries(rng, thorough)
    res = C.run_impl("c17_impl.py", {"grid": entries}, timeout=1800)
    cands, seen = [], Counter()
    triples = []            # (v, m, tw, host filled) for the model correspondence
    n_calls = n_exact = 0

    def cand(key, entry, vs):
        if seen[key] < 4:
            seen[key] += 1
            g, _ = grid_op(entry, 0)
            cands.append((g, [grid_op(entry, v)[1] for v in vs]))

    for e, r in zip(entries, res):
        cols, width, m, vals, lab, style = e
        tw = bar_width(cols, width)
        prev = None
        for v, hf in zip(vals, r):
            n_calls += 1
            if not isinstance(hf, int):
                cand("shape", e, [v])
                prev = None
                continue
            df = dev_formula(v, m, tw)
            ex = divides(m, v * tw)
            n_exact += ex
            if ((v <= 0 or m <= 0) and hf != 0) or (0 < m <= v and hf != tw):
                cand("saturate", e, [v])
            elif abs(hf - df) > 1:
                cand("within-one", e, [v])
            elif ex and hf != df:
                cand("exact", e, [v])
            if prev is not None and prev[1] > hf:
                cand("monotone", e, [prev[0], v])
            prev = (v, hf)
            if m > 0 and (ex or (v * 7 + m * 3 + tw) % 97 == 0):
                triples.append((v, m, tw, hf))
    dist["grid:host-calls"] = n_calls
    dist["grid:exact-multiple-calls"] = n_exact
    dist["grid:bar-widths"] = len({bar_width(e[0], e[1]) for e in entries})
    dist["grid:candidates"] = len(cands)
    confirm_on_firmware(ctx, cands, dist)
    # ---- the binary64 model (hfilled_fl) against what the real class drew, on every exact multiple of the
    #      grid (deduplicated by the fraction) and a deterministic 1% of the rest
    if ctx.exe:
        uniq = {}
        for v, m, tw, hf in triples:
            uniq.setdefault((v, m, tw), hf)
        keys = sorted(uniq)
        if len(keys) > (60000 if thorough else 9000):
            keys = rng.sample(keys, 60000 if thorough else 9000)
        pr = ctx.model([[2, v, m, tw] for v, m, tw in keys])
        bad = 0
        for (v, m, tw), r in zip(keys, pr):
            if r[3] != uniq[(v, m, tw)] and bad < 5:
                bad += 1
                ctx.disagree("binary64 model hfilled_fl vs the bar LCD.progress drew", {"value": v, "max_value": m, "width": tw}, r[3], uniq[(v, m, tw)])
        dist["grid:model-calls"] = len(keys)
    return n_calls

# --------------------------------------------------------------------------------------

def run(ctx: C.Ctx):
    rng = ctx.rng
    thorough = ctx.tier == "thorough"
    dist = Counter()
    # ---- known findings: replay every listed witness on the real host + real firmware.  First, so
    #      that the witness of a repaired defect that has returned is the first replay reported.
    replay_findings(ctx)
    cases = []       # dict(id, geom, ops, rts, mode, kind)  kind: sweep | seq | scan | wild

    def add(kind, g, ops, mode, rt_p):
        rts = [rng.random() < rt_p for _ in ops]
        cases.append({"id": f"{kind}{len(cases)}", "geom": list(g), "ops": ops, "rts": rts, "mode": mode, "kind": kind})

    # ---- geometry sweep: single calls of every text method, every length class
    all_geoms = [(c, r) for c in range(1, 41) for r in range(1, 5)]
    if thorough:
        sweep_geoms = all_geoms
    else:
        cs = sorted({1, 2, 3, 8, 16, 20, 21, 39, 40} | set(rng.sample(range(4, 39), 3)))
        sweep_geoms = [(c, r) for c in cs for r in range(1, 5)]
    for (c, r) in sweep_geoms:
        for i2c in (False, True):
            g = (c, r, i2c, None if i2c else 30 + r)
            if not fits(g):
                continue        # F-C17-geometry: replayed below, correspondence in the wild stream
            add("sweep", g, sweep_ops(rng, g, thorough), "setup", 0.3)
    # ---- random sequences of <= 8 ops, one op per loop pass (real dump after every op)
    for _ in range(1200 if thorough else 96):
        c, r = rng.choice([gg for gg in all_geoms if fits((gg[0], gg[1], False, None))])
        i2c = rng.random() < 0.4
        g = (c, r, i2c, rng.choice([None, 30 + rng.randrange(8)]) if not i2c else None)
        n = rng.randint(1, 8)
        add("seq", g, [random_op(rng, g) for _ in range(n)], "loop", 0.35)
    # ---- progress scans (monotone / saturate / exact / within one), values -2 .. max+2
    for _ in range(160 if thorough else 24):
        c = rng.choice([1, 2, 5, 8, 16, 20, 40, rng.randint(1, 40)])
        r = rng.randint(1, 2) if c > 20 else rng.randint(1, 4)
        i2c = rng.random() < 0.5
        g = (c, r, i2c, None)
        m = rng.choice([1, 2, 3, 7, 10, 100, rng.randint(1, 60), 0, -1, -10])
        w = rng.choice([None, rng.randint(1, c), c, 0, -3, c + 2])
        style = rng.choice(STYLES)
        tw = bar_width(c, w)
        label = rng.choice([None, "", "ab"[:max(0, min(2, c - tw - 1))] or None])
        vals = sorted(set(list(range(-2, min(max(m, 3), 24) + 3)) + [m - 1, m, m + 1, m + 2, m // 2]))
        row = rng.randrange(r)
        add("scan", g, [["progress", row, v, m, w, style, label] for v in vals], "setup", 0.3)
    # ---- exact-multiple grid on the REAL firmware: every bar width 1..40, every filled length 0..w
    #      (value/max_value = j/w in a random spelling j*f / w*f), the four ways a bar width arises
    for w in range(1, 41):
        f = rng.choice(GRID_SCALES[:6] + [rng.randint(1, 9)])
        k = rng.randrange(4) if not thorough else w % 4
        lab = None
        if k == 0:
            c, width = w, None
        elif k == 1:
            c, width = min(40, w + 1 + (w % 5)), w
        elif k == 2:
            c, width = w, w + 3
        else:
            lab = "ab"[: 1 + w % 2]
            c, width = (min(40, w + len(lab) + 1), w) if w + len(lab) + 1 <= 40 else (w, None)
            lab = lab if c > w else None
        r = rng.randint(1, 2) if c > 20 else rng.randint(1, 4)
        g = (c, r, rng.random() < 0.5, None)
        row = rng.randrange(r)
        style = rng.choice(STYLES)
        add("grid", g, [["progress", row, j * f, w * f, width, style, lab] for j in range(w + 1)], "setup", 0.2)
    # ---- backlight histories on the three wirings (parallel + pin, I2C backpack, parallel without pin)
    for i in range(24 if thorough else 6):
        wiring = i % 3
        c, r = rng.choice([(16, 2), (20, 4), (8, 1), (40, 2)])
        g = (c, r, wiring == 1, 30 if wiring == 0 else None)
        add("bl", g, [bl_op(rng, g) for _ in range(60 if thorough else 36)], "setup", 0.4)
    # ---- wild stream (correspondence only): out-of-range arguments, geometries beyond one HD44780
    for _ in range(400 if thorough else 40):
        c, r = rng.choice(all_geoms + [(21, 3), (40, 4), (33, 3), (24, 4)])
        i2c = rng.random() < 0.4
        g = (c, r, i2c, rng.choice([None, 40 + rng.randrange(4)]))
        n = rng.randint(1, 8)
        add("wild", g, [wild_op(rng, g) if rng.random() < 0.7 else random_op(rng, g) for _ in range(n)], "setup", 0.3)

    # ---- guard cross-check + filtering through the extracted guard
    if ctx.exe:
        gq = [[3, geom_wire(c["geom"]), op_wire(op)] for c in cases for op in c["ops"]]
        gr = ctx.model(gq)
        it = iter(gr)
        for c in cases:
            c["guard"] = []
            for op in c["ops"]:
                r = next(it)
                mg = bool(r[1]) and bool(r[2])
                c["guard"].append(mg)
                pg = fits(c["geom"]) and py_guard(c["geom"], op)
                if op[0] != "progress" and mg != pg:
                    ctx.disagree("guard: extracted op_guard vs harness py_guard", {"geom": c["geom"], "op": op}, r, pg)
                if op[0] == "progress" and mg and not pg:
                    ctx.disagree("guard: extracted op_guard accepts a progress call py_guard rejects", {"geom": c["geom"], "op": op}, r, pg)
            # a progress call whose two bars legitimately differ by a cell would make later
            # matrix comparisons meaningless in a sequence: sequences keep only guarded calls
            if c["kind"] == "seq":
                keep = [i for i, ok in enumerate(c["guard"]) if ok]
                c["ops"] = [c["ops"][i] for i in keep]
                c["rts"] = [c["rts"][i] for i in keep]
                c["guard"] = [True] * len(keep)
    else:
        for c in cases:
            c["guard"] = [fits(c["geom"]) and py_guard(c["geom"], op) for op in c["ops"]]
            if c["kind"] == "seq":
                keep = [i for i, op in enumerate(c["ops"]) if c["guard"][i]]
                c["ops"] = [c["ops"][i] for i in keep]
                c["rts"] = [c["rts"][i] for i in keep]
    cases = [c for c in cases if c["ops"]]

    # ---- the device only ever sees calls the transpiler accepts: split off rejected ones
    reject_cases = []
    for c in cases:
        if c["kind"] != "wild":
            continue
        bad = [op for op in c["ops"] if (op[0] in ("write", "line") and acode(op[5] if op[0] == "write" else op[3]) == 3)
               or (op[0] == "message" and 3 in (acode(op[3]), acode(op[4])))
               or (op[0] == "progress" and scode(op[5]) == 4) or (op[0] == "glyph" and len(op[2]) != 8)]
        c["dev_ops"] = [op for op in c["ops"] if op not in bad]
        reject_cases += [(c["geom"], op) for op in bad]

    # ---- batch the cases into sketches (a backlight pin number identifies one LCD inside a sketch)
    builders, where = [], {}
    per = {"sweep": 4, "seq": 8, "scan": 6, "wild": 8, "bl": 3, "grid": 6}
    open_b = {}
    for ci, c in enumerate(cases):
        ops = c.get("dev_ops", c["ops"])
        key = (c["kind"], c["mode"])
        bi = open_b.get(key)
        if bi is None or len(builders[bi].cases) >= per[c["kind"]]:
            builders.append(ScriptBuilder(c["mode"]))
            bi = open_b[key] = len(builders) - 1
        b = builders[bi]
        where[ci] = (bi, len(b.cases))
        if c["geom"][3] is not None:
            c["geom"][3] = 30 + len(b.cases)
        b.add_lcd(c["id"], c["geom"], ops, (c["rts"] + [False] * len(ops))[:len(ops)])
    # ---- host side (real LCD objects)
    hres = C.run_impl("c17_impl.py", {"cases": [{"geom": c["geom"], "ops": c["ops"]} for c in cases]})
    # ---- extracted models
    if ctx.exe:
        hmod = ctx.model([[0, geom_wire(c["geom"]), [op_wire(o) for o in c["ops"]]] for c in cases])
        dmod = ctx.model([[1, geom_wire(c["geom"]), [op_wire(o) for o in c.get("dev_ops", c["ops"])]] for c in cases])
    # ---- firmware
    fres = run_firmware(builders)

    n_oracle = n_corr_h = n_corr_d = 0
    regress = []            # (failure record, geom, single op): try to report the failing call alone
    nontrivial = set()
    untranspiled = []
    unrun = []
    for ci, c in enumerate(cases):
        bi, li = where[ci]
        parsed, prob = fres[bi]
        g, ops = c["geom"], c["ops"]
        for op in ops:
            dist["op:" + op[0]] += 1
            if any(isinstance(a, str) and not is_ascii(a) for a in op[1:]):
                dist["text:non-ascii"] += 1
        dist["kind:" + c["kind"]] += 1
        dist["wiring:" + ("i2c" if g[2] else "parallel")] += 1
        for st in hres[ci]["steps"]:
            dist["host:" + st["st"]] += 1
        if ctx.exe:
            host_model_compare(ctx, c["id"], g, ops, hmod[ci], hres[ci])
            n_corr_h += len(ops)
        if prob:
            ctx.disagree("firmware could not be produced/run for generated LCD calls: " + prob,
                         {"id": c["id"], "geom": g, "ops": ops}, None, builders[bi].source()[0][-1500:])
            if prob.startswith("transpile failed") and c["kind"] != "wild" and all(c["guard"]):
                untranspiled.append(c)
            elif c["kind"] != "wild" and all(c["guard"]):
                unrun.append(c)
            continue
        fwp = parsed[li]
        dev_ops = c.get("dev_ops", ops)
        if ctx.exe:
            device_model_compare(ctx, c["id"], g, dev_ops, dmod[ci], fwp)
            n_corr_d += len(dev_ops)
        if c["kind"] in ("sweep", "seq", "scan", "bl", "grid") and all(c["guard"]) or c["kind"] in ("scan", "grid"):
            if c["kind"] in ("scan", "grid"):
                progress_scan(ctx, c["id"], g, ops, hres[ci], fwp)
            n0 = len(ctx.failures)
            oracle(ctx, c["id"], g, ops, hres[ci], fwp)
            if c["kind"] in ("scan", "grid"):
                # a bar depends on nothing but its own call: report the failing call alone when it fails alone
                for f in ctx.failures[n0:]:
                    fops = f["case"].get("ops") or []
                    if len(fops) > 1 and f["key"] in ("exact", "within-one", "saturate", "bar-shape"):
                        regress.append((f, list(g), [fops[-1]]))
            n_oracle += len(ops)
            for op in ops:
                nontrivial.add(json.dumps([g, op]))
                # the regions the three repaired findings used to exclude
                if op[0] == "message" and op[2] is not None and g[1] == 1:
                    dist["oracle:message-bottom-on-one-row"] += 1
                if op[0] == "progress" and op[4] is not None and op[4] <= 0:
                    dist["oracle:progress-width<=0"] += 1
                if op[0] == "progress" and op[3] <= 0:
                    dist["oracle:progress-max<=0"] += 1

    for f, g1, ops1 in regress[:8]:
        probe = C.Ctx("C17", ctx.tier, ctx.seed)
        probe.findings = []
        confirm_on_firmware(probe, [(g1, ops1)], Counter())
        hit = [p for p in probe.failures if p["key"] == f["key"]]
        if hit:
            f.update({"what": hit[0]["what"], "case": hit[0]["case"], "expected": hit[0]["expected"], "observed": hit[0]["observed"]})

    # ---- progress grid on the real host class (exhaustive over bar widths x max_value x value)
    n_grid = host_grid(ctx, dist, thorough)

    # ---- a batch of guarded calls that did not transpile: find the call (each one alone in a script);
    #      an in-range call the host accepts and the transpiler rejects leaves nothing on the display
    if untranspiled:
        probe = [(c["geom"], op) for c in untranspiled[:40] for op in c["ops"]][:400]
        bs = []
        for g, op in probe:
            b = ScriptBuilder("setup")
            b.add_lcd("probe", g, [op], [False])
            bs.append(b)
        seen = set()
        for (g, op), t in zip(probe, fw.transpile_many([b.source()[0] for b in bs])):
            key = "transpile-reject-" + op[0]
            if not t.get("ok") and key not in seen:
                seen.add(key)
                ctx.fail("the transpiler rejects an in-range LCD call the host accepts", {"geom": g, "ops": [op]},
                         "firmware for the call", f"{t.get('exc')}: {t.get('msg')}", key=key)

    # ---- a batch of guarded calls whose sketch did not compile or died (e.g. a division by zero in a
    #      helper): find the call, each one alone on a fresh display
    if unrun:
        probe, seen_op = [], set()
        for c in unrun[:60]:
            for op in c["ops"]:
                k = json.dumps([c["geom"][:3], op])
                if k not in seen_op and len(probe) < 300:
                    seen_op.add(k)
                    probe.append((c["geom"], op))
        bs = []
        for g, op in probe:
            b = ScriptBuilder("setup")
            b.add_lcd("probe", g, [op], [False])
            bs.append(b)
        seen = set()
        for (g, op), (_, prob) in zip(probe, run_firmware(bs)):
            key = "firmware-dies-" + op[0]
            if prob and not prob.startswith("transpile failed") and key not in seen:
                seen.add(key)
                ctx.fail("the firmware for an in-range LCD call does not compile or dies at run time", {"geom": g, "ops": [op]},
                         "a firmware trace for the call", prob[:400], key=key)

    # ---- calls the transpiler must reject (bad align/style, glyph with != 8 rows)
    if reject_cases:
        sample = reject_cases[: (60 if thorough else 12)]
        bs = []
        for g, op in sample:
            b = ScriptBuilder("setup")
            b.add_lcd("rej", g, [op], [False])
            bs.append(b)
        tr = fw.transpile_many([b.source()[0] for b in bs])
        for (g, op), t in zip(sample, tr):
            dist["transpile-reject"] += 1
            if t.get("ok") or t.get("exc") != "ValueError":
                ctx.disagree("device model: call is rejected at transpile time (ValueError)", {"geom": g, "op": op}, "ValueError",
                             "accepted" if t.get("ok") else t.get("exc"))

    # ---- progress arithmetic: extracted hfilled/dfilled vs the real host / firmware are covered above;
    #      here the pure functions against Python's own round() and C's integer division
    if ctx.exe:
        pc = []
        for _ in range(4000 if thorough else 600):
            m = rng.choice([1, 2, 3, 4, 6, 7, 10, 16, 40, 100, 255, rng.randint(1, 400), 0, -1, -rng.randint(2, 400)])
            w = rng.randint(1, 40)
            v = rng.choice([-1, 0, 1, m // 2, m - 1, m, m + 1, rng.randint(0, max(m, 5))])
            pc.append((v, m, w))
        # large operands (still exact as binary64): the float model is claimed for |value|, max_value < 2^53
        for _ in range(600 if thorough else 120):
            m = rng.choice([10 ** 6, 2 ** 31 - 1, 2 ** 40 + 1, 2 ** 53 - 1, rng.randint(1, 2 ** 53 - 1)])
            w = rng.randint(1, 40)
            j = rng.randint(0, w)
            v = rng.choice([m * j // w, m * j // w + 1, rng.randint(0, m), (2 * j + 1) * m // (2 * w)])
            pc.append((v, m, w))
        pr = ctx.model([[2, v, m, w] for v, m, w in pc])
        n_tie = n_tie_noise = 0
        for (v, m, w), r in zip(pc, pr):
            hf = int(round((0 if m <= 0 else max(0.0, min(1.0, float(v) / float(m)))) * w))
            df = 0 if m <= 0 else min(max(v, 0), m) * w // m
            cv = min(max(v, 0), m)
            tie = m > 0 and (2 * cv * w) % (2 * m) == m
            n_tie += tie
            n_tie_noise += progress_float_tie_noise(v, m, w, 40)
            hq = 0 if m <= 0 else int(round(Fraction(cv * w, m)))
            if r[3] != hf or r[2] != df or r[1] != hq or bool(r[4]) != tie:
                ctx.disagree("hfilled_fl/dfilled/hfilled/ptie vs binary64 round()/integer division/exact round()/tie", [v, m, w], r, [hq, df, hf, tie])
            if not tie and m * w < 2 ** 51 and hf != hq:
                ctx.disagree("binary64 round() differs from the exact rounding off a .5 tie (contradicts C17_progress_float_faithful)", [v, m, w], hq, hf)
        dist["pure:ties"] = n_tie
        dist["pure:ties-where-binary64-differs"] = n_tie_noise
        # fl53 itself against CPython's correctly rounded float division
        fq = []
        for _ in range(3000 if thorough else 500):
            a = rng.choice([rng.randint(1, 400), rng.randint(1, 2 ** 53 - 1), rng.randint(1, 10 ** 6)]) * rng.choice([1, 1, -1])
            b = rng.choice([rng.randint(1, 400), rng.randint(1, 2 ** 53 - 1), 3, 7, 10, 22, 23, 26, 39])
            fq.append((a, b))
        fr = ctx.model([[4, a, b] for a, b in fq])
        for (a, b), r in zip(fq, fr):
            want = Fraction(float(a) / float(b))
            if Fraction(r[1], r[2]) != want:
                ctx.disagree("fl53 vs CPython float division", [a, b], [r[1], r[2]], [want.numerator, want.denominator])
        dist["pure:fl53-calls"] = len(fq)

    n_ops = sum(len(c["ops"]) for c in cases) + n_grid
    ctx.coverage.update({
        "evaluations": n_ops,
        "distinct_nontrivial": len(nontrivial),
        "rule": "sweep: for every geometry that fits one HD44780 (cols 1..40 x rows 1..4 with rows<=2 or cols<=20; all of them in the thorough tier, a boundary sample in quick) and both wirings, single write/line/message/clear calls at columns 0, cols//2, cols-1 with text length classes empty/shorter/equal/longer, all alignments and clear flags, executed back to back on one display; seq: seeded random sequences of <= 8 guarded ops (message bottoms also on one-row displays, progress also with width <= 0 / > cols and max_value <= 0), one op per loop() pass so the mock dumps the matrix after every op; scan: progress with value = -2..max+2 at fixed max/width (max also 0, -1, -10; width also 0, -3, cols+2); bl: histories of 36 (quick) / 60 (thorough) display/backlight/brightness calls (plus glyph and line calls) on the three wirings (parallel with backlight pin, I2C backpack, parallel without pin); grid (firmware): for every bar width w = 1..40 one display (the width arising as cols, as width=w on a wider display, as an over-wide width=, or next to a label) with progress(j*f, w*f) for every filled length j = 0..w, run on the real firmware and the real host; grid (host): the real LCD class on every bar width 1..40 x every max_value 1..128 (quick) / 1..320 (thorough) plus 255, 256, 1000, 1023, 1024, 4095, 9999, 32767 and 0, -1, -7 x every value -1..max+1, and every fraction j/w in eight spellings - saturation and monotonicity evaluated directly, exactness and the one-cell tolerance against value*width/max_value in integers; every suspicious call is then run alone on the real firmware and reported only if firmware and host really differ (the replay is that single call); the binary64 model hfilled_fl is compared with what the class drew on every exact multiple of the grid and 1% of the rest; wild: out-of-range arguments and oversized geometries (correspondence only). ~30% of the calls pass row/col/value/max/width/level/slot/flags as run-time values (analog_read). distinct non-trivial = distinct (geometry, wiring, call) pairs evaluated by the firmware-vs-host oracle.",
        "samples": [{"geom": c["geom"], "ops": c["ops"][:2]} for c in (cases[0], cases[len(cases) // 2], cases[-1])],
        "distribution": dict(dist, sketches=len(builders), cases=len(cases), host_model_calls=n_corr_h, device_model_calls=n_corr_d,
                             oracle_calls=n_oracle, run_time_arg_calls=sum(sum(c["rts"]) for c in cases)),
        "exhaustive": False,
        "guard": "geometry fits one HD44780 (rows <= 2 or cols <= 20); row/col in range; ASCII text (F-C17-non-ascii); message with any top/bottom on any display and progress with any max_value (also <= 0) and any width (also <= 0, > cols) are inside the guard since the repair of F-C17-message-one-row / F-C17-progress-width / F-C17-progress-max; brightness 0..255 on a parallel LCD with backlight pin; glyph slot 0..7 with 8 rows (outside: F-C17-* findings / calls the property does not quantify over)",
        "unmodelled": ["which glyph the HD44780 character ROM shows for a byte >= 128 (cells are compared as byte values; U+2588 / 0xFF identified)",
                       "progress with |value| or max_value >= 2^53 (float() of the int rounds / overflows) and binary64 overflow or subnormals: fl53 has an unbounded exponent",
                       "float/str()-converted arguments (text given as numbers, float rows/values)", "C int overflow (16-bit AVR)",
                       "LCD.animate/tick (property C18)", "display on/off has no effect on the cell matrix in the mock"],
        "trusted_base": C.COMMON_TRUSTED + ["mock/LiquidCrystal.h, mock/LiquidCrystal_I2C.h, mock/mock_core.cpp (DDRAM, row offsets, row clamp of both libraries) as the definition of 'device'",
                                            "harness/impl/c17_impl.py (drives the real LCD class)", "harness/fw.py + g++ 12 (real parse+emit output compiled and run)",
                                            "harness/props/c17.py event parser and cell tracker (validated against every LD dump of the mock)"],
    })
    ctx.assumptions += ["text literals are printable ASCII without quote/backslash/hash (C06/C07 cover escaping and comments)",
                        "the mock LiquidCrystal classes reproduce the row offsets and setCursor clamping of LiquidCrystal 1.0.7 / LiquidCrystal_I2C 1.1.2"]


def replay_findings(ctx):
    """kind=finding: still failing -> KNOWN-FINDING line, silent otherwise.  kind=fixed (repaired in
    Reduino): suppresses nothing - the witness lies inside the guard, is replayed all the same and a
    failure is a VIOLATION whose replay is the witness."""
    for f in ctx.findings:
        w = f["witness"]
        g = list(w["geom"])
        ops = w["ops"]
        hi = C.run_impl("c17_impl.py", {"cases": [{"geom": g, "ops": ops}]})[0]
        b = ScriptBuilder("setup")
        b.add_lcd("known", g, ops, [False] * len(ops))
        parsed, prob = run_firmware([b])[0]
        fixed = f.get("kind") == "fixed"
        if prob:
            if fixed:
                ctx.fail(f"{f['id']} (recorded as fixed): no firmware for the witness - {prob}", {"geom": g, "ops": ops},
                         w.get("expected"), None, key="fixed:" + f["id"])
            continue
        probe = C.Ctx("C17", ctx.tier, ctx.seed)
        probe.findings = []
        oracle(probe, "known", g, ops, hi, parsed[0])
        if not probe.failures:
            continue
        if fixed:
            p0 = probe.failures[0]
            ctx.fail(f"{f['id']} (recorded as fixed in {f.get('commit')}) fails again: {p0['what']}", {"geom": g, "ops": ops},
                     p0["expected"], p0["observed"], key="fixed:" + f["id"])
        else:
            ctx.known(f"{f['id']}: {f['what']}")


def replay(data):
    """./check replay <file>: re-run a recorded case (geom + ops) on the real host class and
    the real firmware and evaluate the property relation on it"""
    case = data.get("case") or {}
    g, ops = case.get("geom"), case.get("ops")
    if not g or not ops:
        print("replay: the record carries no geom/ops to re-run")
        return 0
    g = list(g)
    hi = C.run_impl("c17_impl.py", {"cases": [{"geom": g, "ops": ops}]})[0]
    b = ScriptBuilder("setup")
    b.add_lcd("replay", g, ops, [False] * len(ops))
    parsed, prob = run_firmware([b])[0]
    if prob:
        print("replay: property FAILS on this case: no firmware - " + prob)
        return 1
    probe = C.Ctx("C17", "quick", 0)
    probe.findings = []
    oracle(probe, "replay", g, ops, hi, parsed[0])
    if all(op[0] == "progress" for op in ops):
        progress_scan(probe, "replay", g, ops, hi, parsed[0])
    mats, _ = firmware_matrices(g, ops, parsed[0])
    if hi["ctor"] == "ok" and hi["steps"]:
        print("host buffer :", hi["steps"][-1]["buf"])
    if mats:
        print("device cells:", show(mats[-1]))
    for f in probe.failures:
        print("replay:", f["what"], "| expected:", f["expected"], "| observed:", f["observed"])
    print("replay: property " + ("FAILS" if probe.failures else "holds") + " on this case")
    return 1 if probe.failures else 0
