"""C18 - LCD animations never block, stay inside their row, finish unless looping, are rate-limited.

Host half : the real Reduino.Displays.LCD object (animate + tick(now)) against coq/Host/LCDAnim.v, and whole call histories
(animate / tick / line / clear / begin in any order: animations registered, finished, re-registered with the same style and
row) against the registry state machine coq/Host/LCDReg.v, with an oracle that follows every started animation by identity.
Device half: generated scripts with lcd.animate(...) before `while True:`, inside it and inside functions, transpiled by the real
parse+emit, compiled against the mock core and run with a scripted millis() per pass, against
coq/Device/DLCDAnim.v.  Independently of the models a property oracle is evaluated on every real
trace (no delay, geometry, termination bound, looping never ends, rate limit, one step per due tick), for every
animation that has its row to itself, on schedules that contain late passes followed by quick ones.  The oracle's notion
of a due tick is cross-checked against the extracted specification schedule due_flags (C18_step_schedule_*).

Clock width: the device model the firmware is compared with is Device/DLCDAnimW.v - the limiter in W-bit unsigned arithmetic
(W = 64 under the mock's compiler) over true tick times.  Schedules reach every region in which fixed-width arithmetic on
millis() can go wrong: runs that cross 2^31, 2^32, 2^63 ms, runs that END at the largest unsigned long (steps within speed_ms
of it followed by early ticks, the clock never wrapping - input line `clockbase` of the mock), periods beyond 2^31 / 2^32 ms,
passes late by more than 2^31 / 2^32 / 2^33 ms, and (correspondence only) runs across the roll-over itself."""
from __future__ import annotations

import re

from harness import common as C
from harness import fw

META = {
    "id": "C18",
    "technique": "Coq proof (induction over tick histories; per-style variants and invariants; finite obligations over tables regenerated from the source) + extracted-model correspondence with the real LCD object and with the emitted C++ animation helpers run under the mock core + trace oracle",
    "level_text": "Theorems C18_* (coq/Props/C18.v) are proved for all texts, widths >= 1, speeds, loop flags and all tick-time sequences about Gallina transcriptions of LCD.animate/LCD.tick (and, C18_host_registry_* / C18_host_registered_entry_run, by induction over whole call histories animate/tick/line/clear/begin of the host class with its count-keyed registry dict: no animate call ever replaces a registered animation, every registered animation is advanced by every tick under its own key until begin()) and of the four __redu_lcd_start_*/__redu_lcd_tick_* template pairs plus the tick-injection rule - the device rate limiter also in the W-bit unsigned arithmetic of the emitted C++ for every width W (C18_width_model_agrees_device, C18_rate_limit_device_width: every clock value below 2^W; C18_rollover_trace_device_partial: across the roll-over) -, and (C18_tables_complete) about the style/helper tables and helper texts re-read from emitter.py, parser.py and LCD.py on every run; the models are run side by side with the real host object (buffer assignments and every _AnimationState field after each tick) and with the compiled firmware (cell writes and DDRAM dump per loop() pass).",
    "level_note": "Trusted: Coq kernel, extraction, OCaml driver, the mock LiquidCrystal/LiquidCrystal_I2C (cursor-addressed DDRAM) and its virtual millis(), g++. The theorems are about the models; the correspondence bounds their distance from LCD.py / emitter.py. Tick injection is proved without a guard on the place of the call site (C18_tick_injected, C18_loop_site_ticked, C18_function_site_ticked): before the main loop, inside `while True:` and inside function bodies, at any depth inside if/elif/else, while, for and try/except bodies (Device/DLCDInject.v: the parser's name collection and the emitter's registration pass as two recursive walks over statement trees, C18_nested_*); the two former refutations (animate inside `while True:` never ticked; animate inside a def undeclared) were repaired in Reduino and are kept as kind=fixed entries whose witnesses are replayed first on every run (a witness that fails again is a VIOLATION).",
    "design_ref": "DESIGN.md section 4 C18 (and C05 for tick injection)",
}

STYLES = ["scroll", "blink", "typewriter", "bounce"]
CODE = {s: i for i, s in enumerate(STYLES)}
COLS = [1, 2, 3, 8, 16, 20, 40]
SPEEDS = [0, 1, 100]
KINDS = ["ontime", "early", "late", "equal", "burst"]
BIG_CLOCK = 2147483000        # a run started here crosses 2^31 ms (signed 32-bit arithmetic on millis() goes wrong)
ALPHA = "ABCDEFGHIJKLMNOPQRSTUVWXYZabcdefghijklmnopqrstuvwxyz0123456789"
WBITS = 64                    # unsigned long of the hosted mock core (g++ x86-64): 64 bits (AVR: 32); the theorems quantify over W
ULONG_MAX = (1 << WBITS) - 1
HIGH = 1 << 40                # a first tick at or above this is scripted through the mock's `clockbase` (added to millis() only)
# clock values at which fixed-width arithmetic on millis() goes wrong when it is narrower / signed / a sum instead of a
# difference: a run started a little below 2^31, 2^32, 2^63 crosses that value; a run aligned to END at the largest
# unsigned long (or 1, 3 ms below it) has steps within speed_ms of it followed by early ticks, the clock never wrapping
CROSS_AT = [1 << 31, 1 << 32, 1 << 63]
TOP_ENDS = [ULONG_MAX, ULONG_MAX - 1, ULONG_MAX - 3]
BIG_SPEEDS = [(1 << 31) + 5, (1 << 32) + 7]          # periods that do not fit a 32-bit signed / unsigned field


def tally(stats, key, val):
    d = stats.setdefault(key, {})
    d[str(val)] = d.get(str(val), 0) + 1


def len_class(n, cols):
    return "empty" if n == 0 else "shorter" if n < cols else "equal" if n == cols else "longer"


def speed_class(sp):
    return "negative" if sp < 0 else "zero" if sp == 0 else "one" if sp == 1 else "larger"


def bound(n, cols):
    return n + 2 * cols + 2


def mk_text(n, salt=0, spaced=False):
    t = "".join(ALPHA[(i * 7 + salt) % len(ALPHA)] for i in range(n))
    if spaced and n >= 3:
        t = t[:1] + " " + t[2:]
    return t


def len_classes(cols):
    return sorted({0, 1, max(0, cols - 1), cols, cols + 1, 2 * cols})


def ideal_due(times, speed):
    """the property's own schedule: a tick steps iff it is not early (clock running: last > 0)"""
    out, last = [], 0
    for t in times:
        d = speed <= 0 or last <= 0 or t - last >= speed
        out.append(d)
        if d:
            last = t
    return out


def burst_pattern(unit):
    """increments of a schedule in which LATE passes (gap 2*unit .. 5*unit+7) are followed by several QUICK passes
    (gaps 0, 1, unit/4 ... summing to less than unit) and then by a pass that is exactly on time again: a rate
    limiter that measures from anything but the latest step itself (catching up after a late pass, measuring from
    the latest tick instead of the latest step) steps too often / too rarely somewhere on it"""
    q = unit // 4
    return [unit,
            3 * unit + unit // 2, 1, 0, q, q, max(0, unit - 2 - 2 * q), 1,        # late, 6 early passes, exactly on time
            5 * unit + 7, 0, max(0, unit - 1), 1,                                  # late, same ms, last early ms, on time
            2 * unit, unit // 2, unit - unit // 2,                                 # exactly two periods late, half, on time
            unit + 1, max(0, unit - 2), 1, 1]                                      # a bit late, early, early/on time


def tick_times(kind, speed, n_due, rng, start=None, cap=1200, high=False):
    unit = speed if speed > 0 else 1
    pats = {
        "ontime": [unit],
        "early": [unit - 1, 1, unit // 2, unit - unit // 2, unit],
        "late": [unit + 1, 2 * unit, unit + unit // 2 + 1, 3 * unit + 7],
        "equal": [unit, 0, 0, unit, 0],
        "burst": burst_pattern(unit),
        # passes that are late by more than 2^31 / 2^32 / 2^33 ms, each followed by an early and an on-time one
        "verylate": [unit, (1 << 31) + 3, max(0, unit - 1), 1, (1 << 32) + 5, unit // 2, unit - unit // 2, (1 << 33) + unit, 0, unit],
        "mixed": None,
    }
    t = start if start is not None else rng.choice([1, 7, 1000, 1000, BIG_CLOCK])
    if high and start is None and rng.random() < 0.25:
        # (host: Python ints) far beyond any machine word / the 53 bits of a float: a limiter that goes through float or a
        # fixed width loses milliseconds there
        t = rng.choice([(1 << 32) - 3 * unit - 2, (1 << 53) - unit - 1, (1 << 63) - 2 * unit, (1 << 64) - 5 * unit - 3, 10 ** 30])
    times = [t]
    i = 0
    while sum(ideal_due(times, speed)) < n_due and len(times) < cap:
        pat = pats[kind]
        inc = pat[i % len(pat)] if pat else rng.choice([0, 0, 1, 1, max(0, unit - 1), unit, unit + 1, 2 * unit, unit // 2,
                                                        3 * unit + 1, 7 * unit + 3])
        i += 1
        t += inc
        times.append(t)
    return times


def align_end(times, end):
    """the same schedule (same gaps) shifted so that its last tick is at `end`; the first tick stays positive"""
    shift = end - times[-1]
    if times[0] + shift < 1:
        shift = 1 - times[0]
    return [t + shift for t in times]


def top_schedule(kind, speed, n_ticks, rng, end):
    """a short schedule that ENDS at `end` (the largest unsigned long or just below): the gaps of `kind`, closed by an
    on-time pass, a pass in the same millisecond and one in the last early millisecond, so that whatever the phase of
    the pattern a step within speed_ms of `end` is followed by early ticks while the clock is still below `end`"""
    unit = speed if speed > 0 else 1
    times = tick_times(kind, speed, 10 ** 9, rng, start=1, cap=n_ticks)
    for inc in [unit, 0, max(0, unit - 1) // 2, max(0, unit - 1) - max(0, unit - 1) // 2]:
        times.append(times[-1] + inc)
    return align_end(times, end)


def clock_input(nows):
    """the mock's input lines for a pass schedule with absolute millis() values `nows` (true times: beyond 2^WBITS the
    register has rolled over).  A first tick at or above HIGH is reached through `clockbase` (an offset of millis()
    only: setup() then runs at millis() = nows[0] - 1 instead of 0; the start helpers never read the clock)"""
    base = nows[0] - 1 if nows and nows[0] >= HIGH else 0
    incs = [nows[0] - base] + [b - a for a, b in zip(nows, nows[1:])] if nows else []
    return (f"clockbase {base % (1 << WBITS)}\n" if base else "") + "clock0 0\npass " + " ".join(str(x) for x in incs) + "\n"


# --------------------------------------------------------------------------------------------
# frame relations used by the oracle ("advanced exactly once per due tick")
# --------------------------------------------------------------------------------------------

def step_relation_ok(style, text, cols, prev_row, cur_row, k):
    """prev_row/cur_row: the animation's row before and after the k-th observed step (k >= 1).
    Only relations that follow from 'one step' for any sensible frame function; None = not judged."""
    if len(cur_row) != cols:
        return False
    if style == "scroll":
        if k == 1:                       # the start frame and the first step's frame coincide
            return None
        # one step shifts the marquee by exactly one cell
        return cur_row[:-1] == prev_row[1:] if cols >= 2 else None
    if style == "blink":
        if not text[:cols].strip():      # the visible part is blank: shown and hidden frames coincide
            return None
        blank = " " * cols
        return (cur_row == blank) != (prev_row == blank)
    return None


# --------------------------------------------------------------------------------------------
# host half
# --------------------------------------------------------------------------------------------

def host_model_case(c):
    anims = []
    for a in c["anims"]:
        code = CODE.get(str(a[0]).lower(), 9)
        anims.append([code, int(a[1]), a[2], int(a[3]), bool(a[4])])
    return [0, c["cols"], c["rows"], anims, [int(t) for t in c["nows"]]]


def dec_hstate(s):
    return [s[0], s[1], C.wstr(s[2]), s[3], bool(s[4]), s[5], s[6], bool(s[7]), s[8], s[9], bool(s[10]), s[11]]


def norm_istate(s):
    return [CODE.get(s[0], 9), s[1], s[2], s[3], bool(s[4]), s[5], s[6], bool(s[7]), s[8], s[9], bool(s[10]), s[11]]


def dec_hevents(evs):
    return [[e[1], C.wstr(e[2])] if e[0] == 0 else ["delay", e[1]] for e in evs]


def dec_hsnap(s):
    return {"buffer": [C.wstr(r) for r in s[0]], "states": [dec_hstate(x) for x in s[1]]}


def host_compare(ctx, c, m, r):
    """correspondence: model output m vs implementation result r"""
    if m == [2]:
        ctx.disagree("host: model could not decode the case (harness bug)", c, m, None)
        return
    if m[0] == 1:
        if r["new"] == "ok":
            ctx.disagree("host LCD(): model raises, implementation constructs", c, m, r["new"])
        return
    if r["new"] != "ok":
        ctx.disagree("host LCD(): implementation raises, model constructs", c, m[0], r["new"])
        return
    for i, (ma, ra) in enumerate(zip(m[1], r["animate"])):
        if (ma[0] == 1) != (ra["status"] != "ok"):
            ctx.disagree(f"host animate #{i}: verdict", c, ma, ra)
            return
        if ma[0] == 0 and dec_hevents(ma[1]) != ra["events"]:
            ctx.disagree(f"host animate #{i}: buffer assignments", c, dec_hevents(ma[1]), ra["events"])
            return
    ms = dec_hsnap(m[2])
    if ms["buffer"] != r["snap"]["buffer"] or ms["states"] != [norm_istate(s) for s in r["snap"]["states"]]:
        ctx.disagree("host: state after animate calls", c, ms, r["snap"])
        return
    if len(m[3]) != len(r["ticks"]):
        ctx.disagree("host: number of ticks executed", c, len(m[3]), len(r["ticks"]))
        return
    for k, (mt, rt) in enumerate(zip(m[3], r["ticks"])):
        if (mt[0] == 1) != (rt["status"] != "ok"):
            ctx.disagree(f"host tick #{k}: raised?", c, mt[:1], rt["status"])
            return
        if mt[0] == 1:
            return
        if dec_hevents(mt[1]) != rt["events"]:
            ctx.disagree(f"host tick #{k} (now={c['nows'][k]}): buffer assignments", c, dec_hevents(mt[1]), rt["events"])
            return
        ms = dec_hsnap(mt[2])
        if ms["buffer"] != rt["snap"]["buffer"]:
            ctx.disagree(f"host tick #{k} (now={c['nows'][k]}): buffer", c, ms["buffer"], rt["snap"]["buffer"])
            return
        ist = [norm_istate(s) for s in rt["snap"]["states"]]
        if ms["states"] != ist:
            ctx.disagree(f"host tick #{k} (now={c['nows'][k]}): _AnimationState fields", c, ms["states"], ist)
            return


def hcut(c, k):
    """the host case with its tick history cut after tick k (prefix-determined)"""
    c2 = dict(c)
    c2["nows"] = list(c["nows"][:k + 1])
    c2["cut_from"] = len(c["nows"])
    return c2


def host_oracle(ctx, c, r, stats):
    """the property's relations evaluated on the real object (cases inside the guard only)"""
    cols, rows = c["cols"], c["rows"]
    if r["new"] != "ok":
        ctx.fail("LCD() raised for a positive geometry", c, "object", r["new"], key="host-new")
        return
    for x in r.get("cross", []):
        # several displays: each object's animations live on that object only (a frame of display A's animation on
        # display B occupies a row that is not 'the animation's row'; B's own steps must not depend on A's ticks)
        ctx.fail(f"an operation on one display ({x['by']}) changed the {x['changed']} display's buffer / animation states", c,
                 x["before"], x["after"], key="host-cross-display")
        return
    valid = []
    foreign = False
    for a, ra in zip(c["anims"], r["animate"]):
        ok_expected = str(a[0]).lower() in CODE and 0 <= int(a[1]) < rows
        if ok_expected and ra["status"] != "ok":
            ctx.fail("animate raised for a valid style and row", c, "ok", ra["status"], key="host-animate-raised")
            return
        if not ok_expected:
            # the statement does not say what animate does with an unknown style / a row outside the display
            # (the real code raises ValueError; the correspondence compares that).  If such a call is accepted
            # the per-animation relations below have no referent: only the global ones are evaluated.
            if ra["status"] == "ok":
                foreign = True
            continue
        if ra["sleeps"]:
            ctx.fail("animate called a sleep function (must not block)", c, 0, ra["sleeps"], key="host-animate-sleeps")
        for ev in ra["events"]:
            if ev[0] != int(a[1]) or len(ev[1]) != cols:
                ctx.fail("animate wrote outside its row / not exactly the display width", c, [int(a[1]), cols], ev, key="host-animate-geometry")
        valid.append(a)
    if foreign or len(r["snap"]["states"]) != len(valid):
        # something is registered that no successful, valid animate call accounts for: global relations only
        for k, rt in enumerate(r["ticks"]):
            if rt["status"] != "ok":
                ctx.fail("LCD.tick raised", c, "no exception", rt["status"], key="host-tick-raised")
                return
            if rt["sleeps"]:
                ctx.fail("LCD.tick called a sleep function (must not block)", c, 0, rt["sleeps"], key="host-tick-sleeps")
                return
            buf = rt["snap"]["buffer"]
            if len(buf) != rows or any(len(x) != cols for x in buf):
                ctx.fail("buffer shape changed", c, [rows, cols], buf, key="host-buffer-shape")
                return
        return
    n = len(valid)
    anim_rows = {int(a[1]) for a in valid}
    prev = r["snap"]
    steps = [[] for _ in range(n)]          # times of observed effective steps per animation
    nsteps_seen = [0] * n
    for k, rt in enumerate(r["ticks"]):
        now = c["nows"][k]
        if rt["status"] != "ok":
            ctx.fail("LCD.tick raised", c, "no exception", rt["status"], key="host-tick-raised")
            return
        if rt["sleeps"]:
            ctx.fail("LCD.tick called a sleep function (must not block)", c, 0, rt["sleeps"], key="host-tick-sleeps")
            return
        cur = rt["snap"]
        interleaved = bool(rt.get("pre"))
        if interleaved:
            prev = rt["pre"]            # the script's own line/write/clear calls came before this tick
        for ev in rt["events"]:
            if ev[0] not in anim_rows or len(ev[1]) != cols:
                ctx.fail("tick wrote outside the animations' rows / not exactly the display width", c, [sorted(anim_rows), cols], ev, key="host-geometry")
                return
        if len(cur["buffer"]) != rows or any(len(x) != cols for x in cur["buffer"]):
            ctx.fail("buffer shape changed", c, [rows, cols], cur["buffer"], key="host-buffer-shape")
            return
        if len(cur["states"]) != n or len(prev["states"]) != n:
            if c.get("between"):
                # the script's own calls changed the set of animations: what they may do to it is not C18's subject
                stats["host_interleaved_cases_with_changed_registry"] = stats.get("host_interleaved_cases_with_changed_registry", 0) + 1
                return
            ctx.fail("a tick changed the number of animations of the display (a vanished animation never steps again, an extra one draws frames nobody started)",
                     hcut(c, k), n, [len(prev["states"]), len(cur["states"])], key="host-registry")
            return
        for r_i in range(rows):
            if r_i not in anim_rows and cur["buffer"][r_i] != prev["buffer"][r_i]:
                ctx.fail("a row without animation changed", c, prev["buffer"][r_i], cur["buffer"][r_i], key="host-other-row")
                return
        for i in range(n):
            sp, sc = prev["states"][i], cur["states"][i]
            style, row, text, speed, loop = sp[0], sp[1], sp[2], sp[3], sp[4]
            row_events = [ev for ev in rt["events"] if ev[0] == row]
            # a step shows as a state change or as an assignment to the animation's row (a row shared with another
            # animation: the assignment may be the other one's - then the due-skipped relation is not judged)
            stepped = sp != sc or (n == 1 and bool(rt["events"]))
            maybe_stepped = stepped or bool(row_events)
            was_active = sp[7]
            if stepped and not was_active:
                ctx.fail("an inactive animation changed", c, sp, sc, key="host-inactive-step")
                return
            if loop and not sc[7]:
                ctx.fail("a looping animation became inactive", c, "active", sc, key="host-loop-ended")
                return
            if stepped:
                for t1 in steps[i]:
                    if 0 < t1 and now - t1 < speed:
                        ctx.fail("two steps closer than speed_ms" + (f" (animation #{i} of {n})" if n > 1 else ""), hcut(c, k), f"consecutive steps >= {speed} ms apart",
                                 {"steps_at": [t1, now], "apart_ms": now - t1, "all_steps": steps[i] + [now]}, key="host-rate-limit")
                        return
                steps[i].append(now)
                nsteps_seen[i] += 1
                if not loop and nsteps_seen[i] > bound(len(text), cols):
                    ctx.fail("non-looping animation still stepping after len+2*cols+2 steps", c, bound(len(text), cols), nsteps_seen[i], key="host-termination")
                    return
                if n == 1 and not interleaved and not c.get("between"):
                    ok = step_relation_ok(style, text, cols, prev["buffer"][row], cur["buffer"][row], nsteps_seen[i])
                    if ok is False:
                        ctx.fail("a step did not advance the animation by exactly one frame", c, prev["buffer"][row], cur["buffer"][row], key="host-one-step")
                        return
            else:
                last = steps[i][-1] if steps[i] else 0
                due = was_active and (speed <= 0 or last <= 0 or now - last >= speed)
                if due and (n == 1 or not maybe_stepped):
                    ctx.fail("a due tick (not early) did not advance an active animation" + (f" (animation #{i} of {n})" if n > 1 else ""),
                             hcut(c, k), "step", [sp, now], key="host-due-skipped")
                    return
        prev = cur
    for i in range(n):
        sp = prev["states"][i]
        due_total = sum(ideal_due(c["nows"], sp[3]))
        if not sp[4] and due_total > bound(len(sp[2]), cols) and sp[7]:
            ctx.fail("non-looping animation still active after more than len+2*cols+2 due ticks", c, "inactive", sp, key="host-termination")
        stats["host_steps"] = stats.get("host_steps", 0) + nsteps_seen[i]


def gen_host_cases(ctx):
    rng = ctx.rng
    thorough = ctx.tier == "thorough"
    cases = []
    grid = []
    for style in STYLES:
        for cols in COLS:
            for n in len_classes(cols):
                for loop in (False, True):
                    for speed in SPEEDS:
                        for kind in KINDS:
                            grid.append((style, cols, n, loop, speed, kind))
    def two_picks(full):
        # every (style, cols, len, loop) twice, speed x kind rotating so that all 15 pairs occur for every style
        # (7 is coprime to the 15 pairs of a cell)
        keep = []
        by = {}
        for g in full:
            by.setdefault(g[:4], []).append(g)
        for j, (k4, lst) in enumerate(sorted(by.items())):
            keep.append(lst[(j * 7) % len(lst)])
            keep.append(lst[(j * 7 + 4) % len(lst)])
        return keep
    if not thorough:
        grid = two_picks(grid)
    else:
        # thorough: the boundary widths with every speed x schedule, and every other width 1..40 with two picks
        rest = []
        for style in STYLES:
            for cols in range(1, 41):
                if cols in COLS:
                    continue
                for n in len_classes(cols):
                    for loop in (False, True):
                        for speed in SPEEDS:
                            for kind in KINDS:
                                rest.append((style, cols, n, loop, speed, kind))
        grid = grid + two_picks(rest)
    for j, (style, cols, n, loop, speed, kind) in enumerate(grid):
        rows = [1, 2, 4][j % 3] if cols <= 20 else [1, 2][j % 2]
        row = (j // 3) % rows
        text = mk_text(n, salt=j)
        n_due = bound(n, cols) + 2
        if loop and not thorough:
            n_due = min(n_due, 3 * cols + n + 4, 60)
        nows = tick_times(kind, speed, n_due, rng, cap=900, high=True)
        cases.append({"cols": cols, "rows": rows, "i2c": j % 2 == 1, "anims": [[style, row, text, speed, loop]],
                      "nows": nows, "tick_kw": j % 5 == 0, "tag": f"grid:{kind}"})
        if j % 9 == 4:
            # a second display with the same geometry running an animation of the SAME style on the SAME row (same
            # registry key), with another text/speed/loop flag, ticked between two of every three of the main ticks
            cases[-1]["peer"] = {"cols": cols, "rows": rows, "anims": [[style, row, mk_text(max(1, n // 2 + 1), salt=j + 5), [0, 1, 100][(j // 9) % 3], not loop]],
                                 "tick_before": [k for k in range(len(nows)) if k % 3 != 1]}
            cases[-1]["tag"] += ":two-displays"
    # speeds outside the boundary set, negative speeds (host clamps to 0), spaced / non-ASCII texts, mixed schedules
    extra_texts = ["", "a", "   ", "Hi there", "héllo wörld ✓", "漢字かな", "  lead", "x" * 45]
    for j in range(120 if thorough else 40):
        style = STYLES[j % 4]
        cols = rng.choice(COLS + [5, 7, 39])
        rows = rng.choice([1, 2, 4])
        speed = rng.choice([-5, 0, 1, 2, 3, 50, 100, 250, 1000, 70000])
        loop = rng.random() < 0.5
        text = rng.choice(extra_texts) if rng.random() < 0.5 else mk_text(rng.randint(0, 2 * cols + 1), salt=j, spaced=True)
        nows = tick_times(["mixed", "burst"][j // 4 % 2], max(speed, 0), min(bound(len(text), cols) + 2, 70), rng, cap=400, high=True)
        cases.append({"cols": cols, "rows": rows, "i2c": False, "anims": [[style, rng.randrange(rows), text, speed, loop]],
                      "nows": nows, "tag": "random"})
    # several animations on one display (distinct rows, shared rows), invalid styles / rows mixed in
    for j in range(80 if thorough else 30):
        cols = rng.choice([2, 3, 8, 16])
        rows = rng.choice([1, 2, 4])
        unit = rng.choice([1, 3, 100])
        anims = []
        for _ in range(rng.randint(2, 4)):
            st = rng.choice(STYLES + (["SCROLL", "Blink", "wave"] if rng.random() < 0.2 else []))
            row = rng.randrange(rows) if rng.random() < 0.85 else rng.choice([-1, rows, rows + 3])
            anims.append([st, row, mk_text(rng.choice(len_classes(cols)), salt=j + len(anims)), rng.choice([0, unit, unit, 1, 3, 100, -2]), rng.random() < 0.5])
        nows = tick_times(["mixed", "burst"][j % 2], unit, 40, rng, cap=200, high=True)
        cases.append({"cols": cols, "rows": rows, "i2c": False, "anims": anims, "nows": nows, "tag": "multi"})
        if j % 2 == 0:
            # a second display alive in the same process: created first, its animations started before and after the
            # main display's, ticked in between the main display's ticks (two of every three) - "one or more displays"
            pcols, prows = rng.choice([2, 8, 16, cols]), rng.choice([1, 2, 4])
            panims = [[rng.choice(STYLES), rng.randrange(prows), mk_text(rng.choice(len_classes(pcols)), salt=j + 40 + q),
                       rng.choice([0, unit, 1, 100]), rng.random() < 0.5] for q in range(rng.randint(1, 3))]
            cases[-1]["peer"] = {"cols": pcols, "rows": prows, "anims": panims, "tick_before": [k for k in range(len(nows)) if k % 3 != 2]}
            cases[-1]["tag"] = "multi:two-displays"
    # the script's own LCD calls between ticks (line on the animation's row / on another row, write, clear): tick still
    # never raises, keeps to its rows and its schedule (oracle only: the animation models hold no line/write/clear)
    for j in range(48 if thorough else 24):
        style = STYLES[j % 4]
        cols = [3, 8, 16][(j // 4) % 3]
        rows = 2
        row = (j // 2) % 2
        loop = j % 2 == 0
        speed = [0, 1, 100][(j // 8) % 3]
        text = mk_text([1, cols - 1, cols + 2][(j // 3) % 3], salt=j)
        nows = tick_times(["mixed", "burst", "ontime"][j % 3], speed, min(bound(len(text), cols) + 2, 40), rng, cap=200)
        between = {}
        for k in range(len(nows)):
            if rng.random() < 0.3:
                between[str(k)] = [rng.choice([["line", row, "xy"], ["line", 1 - row, "other row"], ["write", 1, row, "Q"], ["clear"],
                                               ["line", row, "W" * (cols + 3)]]) for _ in range(rng.randint(1, 2))]
        cases.append({"cols": cols, "rows": rows, "i2c": j % 2 == 1, "anims": [[style, row, text, speed, loop]], "nows": nows,
                      "between": between, "tag": "interleaved-calls"})
    # geometry rejected by the constructor; tick with now = 0 (tick() without argument)
    cases.append({"cols": 0, "rows": 2, "i2c": False, "anims": [], "nows": [], "tag": "bad-geometry"})
    cases.append({"cols": 16, "rows": 0, "i2c": False, "anims": [], "nows": [], "tag": "bad-geometry"})
    cases.append({"cols": 8, "rows": 2, "i2c": False, "anims": [["scroll", 0, "abc", 100, True]], "nows": [0, 0, 0, 5, 5, 104, 105], "tag": "zero-clock"})
    cases.append({"cols": 8, "rows": 2, "i2c": True, "anims": [["typewriter", 1, "abcd", 50, False], ["bounce", 0, "xy", 50, True]],
                  "nows": [0, 0, 10, 20, 60, 61, 111], "tick_none": True, "tag": "zero-clock"})
    return cases


def host_in_guard(c):
    """oracle guard: positive geometry and positive non-decreasing tick times (the property's quantifier)"""
    ts = c["nows"]
    return c["cols"] >= 1 and c["rows"] >= 1 and all(t > 0 for t in ts) and all(a <= b for a, b in zip(ts, ts[1:]))


def run_host(ctx, stats):
    cases = gen_host_cases(ctx)
    impl = C.run_impl("c18_impl.py", {"cases": cases}, timeout=1200)
    model = ctx.model([host_model_case(c) for c in cases]) if ctx.exe else [None] * len(cases)
    nontrivial = set()
    for c, r, m in zip(cases, impl, model):
        if m is not None and not c.get("between"):
            host_compare(ctx, c, m, r)
        if host_in_guard(c):
            host_oracle(ctx, c, r, stats)
        stats["host_ticks"] = stats.get("host_ticks", 0) + len(r["ticks"])
        tally(stats, "host_animations_per_case", len(c["anims"]))
        for a, ra in zip(c["anims"], r.get("animate", [])):
            tally(stats, "host_style", str(a[0]).lower())
            tally(stats, "host_loop", bool(a[4]))
            tally(stats, "host_speed", speed_class(int(a[3])))
            tally(stats, "host_text_vs_cols", len_class(len(a[2]), c["cols"]))
            tally(stats, "host_animate_result", ra["status"])
        tally(stats, "host_cols", c["cols"])
        stats.setdefault("host_tags", {})
        stats["host_tags"][c["tag"]] = stats["host_tags"].get(c["tag"], 0) + 1
        if r["new"] == "ok" and r["ticks"] and any(t["events"] for t in r["ticks"]):
            nontrivial.add(repr((c["cols"], c["rows"], c["anims"], c["nows"][:6])))
    return cases, len(nontrivial)


# --------------------------------------------------------------------------------------------
# host registry over whole call histories (Host/LCDReg.v)
# --------------------------------------------------------------------------------------------

def hist_model_case(c):
    ops = []
    for op in ([] if c.get("oracle_only") else c["hist"]):
        if op[0] == "animate":
            ops.append([0, CODE.get(str(op[1]).lower(), 9), int(op[2]), op[3], int(op[4]), bool(op[5])])
        elif op[0] == "tick":
            ops.append([1, int(op[1])])
        elif op[0] == "line":
            ops.append([2, int(op[1]), op[2]])
        elif op[0] == "clear":
            ops.append([3])
        else:
            ops.append([4])
    return [7, c["cols"], c["rows"], ops]


def hist_cut(c, k):
    """the history cut after call number k (prefix-determined)"""
    c2 = dict(c)
    c2["hist"] = [list(o) for o in c["hist"][:k + 1]]
    c2["cut_from"] = len(c["hist"])
    return c2


def hist_compare(ctx, c, m, r):
    """correspondence of the registry model with the real object, call by call: verdict, buffer assignments, buffer, the
    registry's key strings in dict order and every field of every registered state"""
    if m == [2]:
        ctx.disagree("host history: model could not decode the case (harness bug)", c, m, None)
        return
    if m[0] == 1:
        if r["new"] == "ok":
            ctx.disagree("host history LCD(): model raises, implementation constructs", c, m, r["new"])
        return
    if r["new"] != "ok":
        ctx.disagree("host history LCD(): implementation raises, model constructs", c, m[0], r["new"])
        return
    for k, (mo, ro) in enumerate(zip(m[1], r["hist"])):
        op = c["hist"][k]
        what = f"host history, call #{k} {op[0]}"
        if (mo[0] == 1) != (ro["status"] != "ok"):
            ctx.disagree(f"{what}: raised?", hist_cut(c, k), mo[:1], ro["status"])
            return
        if op[0] in ("animate", "tick", "line") and dec_hevents(mo[1]) != ro["events"]:
            ctx.disagree(f"{what}: buffer assignments", hist_cut(c, k), dec_hevents(mo[1]), ro["events"])
            return
        mbuf = [C.wstr(x) for x in mo[2]]
        if mbuf != ro["snap"]["buffer"]:
            ctx.disagree(f"{what}: buffer", hist_cut(c, k), mbuf, ro["snap"]["buffer"])
            return
        mkeys = [f"{STYLES[e[0][0]]}:{e[0][1]}:{e[0][2]}" for e in mo[3]]
        if mkeys != ro["snap"]["keys"]:
            ctx.disagree(f"{what}: registry keys (dict order)", hist_cut(c, k), mkeys, ro["snap"]["keys"])
            return
        mstates = [dec_hstate(e[1]) for e in mo[3]]
        istates = [norm_istate(x) for x in ro["snap"]["states"]]
        if mstates != istates:
            ctx.disagree(f"{what}: registered _AnimationState fields", hist_cut(c, k), mstates, istates)
            return


def hist_in_guard(c):
    ts = [op[1] for op in c["hist"] if op[0] == "tick"]
    return c["cols"] >= 1 and c["rows"] >= 1 and all(t > 0 for t in ts) and all(a <= b for a, b in zip(ts, ts[1:]))


def hist_oracle(ctx, c, r, stats):
    """the property's relations over a whole call history of the real object.  Every animation a successful, valid animate
    call started is followed by identity of its state object: as long as it is live (active, not reset by begin()) it must
    stay registered across every call (registering another animation never replaces it), every due tick must advance it,
    a looping one never becomes inactive, steps are speed_ms apart, a non-looping one stops within len+2*cols+2 steps,
    tick never raises / sleeps / leaves the rows of the animations, the buffer keeps its shape."""
    cols, rows = c["cols"], c["rows"]
    if r["new"] != "ok":
        ctx.fail("LCD() raised for a positive geometry", c, "object", r["new"], key="host-new")
        return
    info = []          # per tracked animation: the arguments it was started with, its observed step times, alive?
    prev_tracked = []
    ever_rows = set()
    for k, (op, ro) in enumerate(zip(c["hist"], r["hist"])):
        cur = ro["tracked"]
        buf = ro["snap"]["buffer"]
        if len(buf) != rows or any(len(x) != cols for x in buf):
            ctx.fail(f"buffer shape changed by call #{k} {op[0]}", hist_cut(c, k), [rows, cols], buf, key="host-buffer-shape")
            return
        if op[0] == "animate":
            valid = str(op[1]).lower() in CODE and 0 <= int(op[2]) < rows
            if not valid:
                if ro["status"] == "ok":
                    # what animate does with an unknown style / a row outside the display is not the statement's subject
                    # (the correspondence compares the ValueError); an accepted one leaves the relations without referent
                    stats["hist_foreign_accepted"] = stats.get("hist_foreign_accepted", 0) + 1
                    return
            else:
                if ro["status"] != "ok":
                    ctx.fail("animate raised for a valid style and row", hist_cut(c, k), "ok", ro["status"], key="host-animate-raised")
                    return
                if ro["sleeps"]:
                    ctx.fail("animate called a sleep function (must not block)", hist_cut(c, k), 0, ro["sleeps"], key="host-animate-sleeps")
                    return
                for ev in ro["events"]:
                    if ev[0] != int(op[2]) or len(ev[1]) != cols:
                        ctx.fail("animate wrote outside its row / not exactly the display width", hist_cut(c, k), [int(op[2]), cols], ev, key="host-animate-geometry")
                        return
                if not isinstance(ro["started"], int):
                    ctx.fail("animate returned normally but the display's registry holds no new animation for it (LCD.tick will never advance it)",
                             hist_cut(c, k), "one new registered animation", {"started": ro["started"], "keys": ro["snap"]["keys"]}, key="host-registry-not-registered")
                    return
                info.append({"style": str(op[1]).lower(), "row": int(op[2]), "text": op[3], "speed": max(0, int(op[4])), "loop": bool(op[5]),
                             "steps": [], "alive": True, "call": k})
                ever_rows.add(int(op[2]))
        elif op[0] == "tick":
            if ro["status"] != "ok":
                ctx.fail("LCD.tick raised", hist_cut(c, k), "no exception", ro["status"], key="host-tick-raised")
                return
            if ro["sleeps"]:
                ctx.fail("LCD.tick called a sleep function (must not block)", hist_cut(c, k), 0, ro["sleeps"], key="host-tick-sleeps")
                return
            for ev in ro["events"]:
                if ev[0] not in ever_rows or len(ev[1]) != cols:
                    ctx.fail("tick wrote outside the animations' rows / not exactly the display width", hist_cut(c, k), [sorted(ever_rows), cols], ev, key="host-geometry")
                    return
        if op[0] == "begin":
            for a in info:
                a["alive"] = False          # begin() resets the display: what becomes of running animations is not C18's subject
            ever_rows.clear()
        # (1) across any call but begin(): a live animation stays registered
        for j, a in enumerate(info):
            if not a["alive"] or j >= len(prev_tracked):
                continue
            was_active = prev_tracked[j][1][7]
            if not cur[j][0]:
                if was_active:
                    desc = f"{a['style']} on row {a['row']} (loop={a['loop']}, started by call #{a['call']})"
                    ctx.fail(f"call #{k} {op[0]}{tuple(op[1:]) if op[0] == 'animate' else ''} removed / replaced the live animation {desc} in the display's registry: "
                             "it is still marked active but LCD.tick no longer advances it",
                             hist_cut(c, k), "every live animation still registered", {"registered_keys": ro["snap"]["keys"], "lost": cur[j][1], "who": ro["snap"]["who"]},
                             key="host-registry-replaced")
                    return
                a["alive"] = False           # a finished animation may be forgotten
            if a["alive"] and a["loop"] and not cur[j][1][7]:
                ctx.fail(f"a looping animation became inactive (across call #{k} {op[0]})", hist_cut(c, k), "active", cur[j][1], key="host-loop-ended")
                return
        # (2) per-animation relations at a tick
        if op[0] == "tick":
            now = op[1]
            for j, a in enumerate(info):
                if not a["alive"] or j >= len(prev_tracked):
                    continue
                sp, sc = prev_tracked[j][1], cur[j][1]
                stepped = sp != sc
                own_row_events = [ev for ev in ro["events"] if ev[0] == a["row"]]
                was_active = sp[7]
                if stepped and not was_active:
                    ctx.fail("an inactive animation changed", hist_cut(c, k), sp, sc, key="host-inactive-step")
                    return
                if a["loop"] and not sc[7]:
                    ctx.fail("a looping animation became inactive", hist_cut(c, k), "active", sc, key="host-loop-ended")
                    return
                if stepped:
                    for t1 in a["steps"]:
                        if 0 < t1 and now - t1 < a["speed"]:
                            ctx.fail(f"two steps closer than speed_ms (animation #{j} of the history)", hist_cut(c, k), f"consecutive steps >= {a['speed']} ms apart",
                                     {"steps_at": [t1, now], "all_steps": a["steps"] + [now]}, key="host-rate-limit")
                            return
                    a["steps"].append(now)
                    if not a["loop"] and len(a["steps"]) > bound(len(a["text"]), cols):
                        ctx.fail("non-looping animation still stepping after len+2*cols+2 steps", hist_cut(c, k), bound(len(a["text"]), cols), len(a["steps"]), key="host-termination")
                        return
                else:
                    last = a["steps"][-1] if a["steps"] else 0
                    due = was_active and (a["speed"] <= 0 or last <= 0 or now - last >= a["speed"])
                    if due and not own_row_events:
                        ctx.fail(f"a due tick (not early) did not advance a live animation (animation #{j} of the history: {a['style']} on row {a['row']}, loop={a['loop']})",
                                 hist_cut(c, k), "step", {"state": sp, "now": now, "registered_keys": ro["snap"]["keys"]}, key="host-due-skipped")
                        return
            stats["hist_ticks"] = stats.get("hist_ticks", 0) + 1
        else:
            # no other call advances or alters a running animation
            for j, a in enumerate(info):
                if a["alive"] and j < len(prev_tracked) and prev_tracked[j][1] != cur[j][1] and op[0] not in ("animate", "begin"):
                    ctx.fail(f"call #{k} {op[0]} changed the state of a running animation", hist_cut(c, k), prev_tracked[j][1], cur[j][1], key="host-foreign-step")
                    return
        prev_tracked = cur
    stats["hist_steps"] = stats.get("hist_steps", 0) + sum(len(a["steps"]) for a in info)
    for j, a in enumerate(info):
        still = j < len(prev_tracked) and prev_tracked[j][1][7]
        tally(stats, "hist_animation_fate", ("looping" if a["loop"] else "one-shot") + (", running at the end" if still else ", over at the end") + ("" if a["alive"] else " (reset by begin / forgotten)"))


def hist_shape(c, r):
    """classification of a history for the measured distribution"""
    ops = c["hist"]
    n_anim = sum(1 for o in ops if o[0] == "animate")
    # finished-then-reregistered: an animate call made while an earlier tracked animation is already inactive
    fin_then_reg = False
    same_key_pair = False
    live_pairs = set()
    for k, (op, ro) in enumerate(zip(ops, r.get("hist", []))):
        if op[0] == "animate" and k > 0 and isinstance(ro.get("started"), int):
            prev = r["hist"][k - 1]["tracked"]
            if any(reg and not f[7] for reg, f in prev):
                fin_then_reg = True
            for reg, f in prev:
                if reg and f[7] and f[0] == str(op[1]).lower() and f[1] == int(op[2]):
                    same_key_pair = True
    return n_anim, fin_then_reg, same_key_pair


def gen_hist_cases(ctx):
    rng = ctx.rng
    thorough = ctx.tier == "thorough"
    cases = []

    def ticks(t0, n, gap):
        return [["tick", t0 + gap * (i + 1)] for i in range(n)], t0 + gap * n

    # (B) exhaustive short prefixes over a boundary alphabet on a 2x2 display, each followed by a tail of ticks:
    #   a = one-shot blink row 0 (over after 1 step)   b = looping scroll row 0   c = one-shot scroll row 0 (3 steps)
    #   d = looping blink row 1    t = tick
    alpha = {"a": ["animate", "blink", 0, "B", 0, False], "b": ["animate", "scroll", 0, "ab", 0, True],
             "c": ["animate", "scroll", 0, "!", 0, False], "d": ["animate", "blink", 1, "Z", 0, True], "t": None}
    def all_words(letters, maxlen):
        out, frontier = [], [""]
        for _ in range(maxlen):
            frontier = [w + x for w in frontier for x in letters]
            out += frontier
        return out
    words = all_words("abct", 5) if not thorough else sorted(set(all_words("abct", 6) + all_words("abcdt", 5)))
    if not thorough:
        # quick: every word up to 4 calls, and the 5-call words in which the quick one-shot `a` is over (a tick after it) before
        # a later animate call - the finished-then-registered shapes
        words = [w for w in words if len(w) <= 4 or re.search(r"a.*t.*[abc]", w)]
    for w in words:
        if w.count("t") == len(w) or len(w) < 3 or w.endswith("t"):
            continue                       # at least one animate, ends with an animate (the tail follows)
        hist, t = [], 0
        for ch in w:
            if ch == "t":
                t += 1
                hist.append(["tick", t])
            else:
                hist.append(list(alpha[ch]))
        for _ in range(7):
            t += 1
            hist.append(["tick", t])
        cases.append({"cols": 2, "rows": 2, "i2c": False, "hist": hist, "tag": "hist:exhaustive"})
    # (A) finished-then-reregistered, structured: a one-shot animation (style s1 on the looping one's row or on the other
    # row), a looping one (s2), ticks until the one-shot is over, then a third animate call whose (style, row) is that of the
    # looping one / of the finished one / of neither, looping or not, then ticks until a one-shot third has finished and
    # the looping one must still be running for a full period; speeds 0 and 3 (ticks 3 apart, some early ones in between)
    j = 0
    for cols in ([3, 8] if thorough else [3]):
        for s1 in STYLES:
            for r1 in (0, 1):
                for s2 in STYLES:
                    for third in ("same-as-looping", "same-as-finished", "other-style", "other-row"):
                        for loop3 in (False, True):
                            j += 1
                            if not thorough and third != "same-as-looping" and rng.random() < 0.5:
                                continue
                            speed = [0, 3][rng.randrange(2)]
                            gap = 3
                            t1, t2 = mk_text(1 + j % 2, salt=j), mk_text([2, cols + 1, 1][j % 3], salt=j + 3)
                            hist = [["animate", s1, r1, t1, speed, False], ["animate", s2, 0, t2, speed, True]]
                            tk, t = ticks(0, bound(len(t1), cols) + 1, gap)
                            hist += tk
                            if third == "same-as-looping":
                                s3, r3 = s2, 0
                            elif third == "same-as-finished":
                                s3, r3 = s1, r1
                            elif third == "other-style":
                                s3, r3 = STYLES[(CODE[s2] + 1) % 4], 0
                            else:
                                s3, r3 = s2, 1
                            t3 = mk_text(1, salt=j + 9)
                            hist.append(["animate", s3, r3, t3, speed, loop3])
                            tk, t = ticks(t, bound(len(t3), cols) + len(t2) + cols + 4, gap)
                            if j % 3 == 0:
                                tk.insert(2, ["tick", tk[1][1] + 1])        # an early tick (1 ms after a step)
                            hist += tk
                            cases.append({"cols": cols, "rows": 2, "i2c": j % 2 == 0, "hist": hist, "tag": f"hist:finished-then-{third}"})
    # (C) seeded random histories: 4..45 calls, few distinct (style, row) pairs so that they recur, texts short enough for
    # one-shots to finish inside the history, line / clear in between, begin() and invalid animate calls now and then
    for j in range(400 if thorough else 120):
        cols = rng.choice([1, 2, 3, 5, 8, 16])
        rows = rng.choice([1, 2, 2, 4])
        unit = rng.choice([1, 3, 100])
        pairs = [(rng.choice(STYLES), rng.randrange(rows)) for _ in range(rng.randint(1, 3))]
        t = rng.choice([0, 0, 6, 999, (1 << 32) - 5])
        hist = []
        for _ in range(rng.randint(4, 45)):
            x = rng.random()
            if x < 0.22:
                st, rw = rng.choice(pairs) if rng.random() < 0.8 else (rng.choice(STYLES), rng.randrange(rows))
                if rng.random() < 0.06:
                    st = rng.choice(["SCROLL", "Blink", "wave", ""])
                if rng.random() < 0.06:
                    rw = rng.choice([-1, rows, rows + 2])
                hist.append(["animate", st, rw, mk_text(rng.choice([0, 1, 1, 2, cols, cols + 1]), salt=j + len(hist)),
                             rng.choice([0, 0, unit, unit, -2, 1]), rng.random() < 0.4])
            elif x < 0.90:
                t += rng.choice([0, 1, 1, unit, unit, unit + 1, 2 * unit, max(0, unit - 1), 5 * unit + 3])
                hist.append(["tick", max(t, 1)])
                t = max(t, 1)
            elif x < 0.94:
                hist.append(["line", rng.randrange(rows) if rng.random() < 0.9 else rows, rng.choice(["xy", "", "W" * (cols + 2)])])
            elif x < 0.97:
                hist.append(["clear"])
            elif x < 0.985:
                hist.append(["begin"])
            else:
                hist.append(["animate", "wave", 0, "x", 0, True])
        cases.append({"cols": cols, "rows": rows, "i2c": j % 3 == 0, "hist": hist, "tag": "hist:random"})
        if j % 3 == 1:
            # the same history with the class's other public calls in between (outside the registry model's vocabulary: oracle
            # only) - none of them may unregister, stop or advance a running animation
            others = [["write", 1, rng.randrange(rows), "Q"], ["message", "top", "bottom"], ["progress", rng.randrange(rows), 3, 10],
                      ["display", False], ["display", True], ["backlight", False], ["brightness", 7], ["glyph", 1, [0, 1, 2, 3, 4, 5, 6, 7]],
                      ["clear"], ["line", 0, "hello"]]
            h2 = []
            for op in hist:
                h2.append(op)
                if rng.random() < 0.25:
                    h2.append(list(rng.choice(others)))
            cases.append({"cols": cols, "rows": rows, "i2c": j % 2 == 0, "hist": h2, "tag": "hist:random+other-calls", "oracle_only": True})
    return cases


def hist_shrink(case, key, rounds=60):
    """greedy one-call-at-a-time minimisation of a failing history: drop a call as long as the oracle still reports the same
    class of failure on the real object (runs only after a failure was found; the reported case is the smallest reached)"""
    best = None
    cur = {k: v for k, v in case.items() if k != "cut_from"}
    for _ in range(rounds):
        n = len(cur["hist"])
        cands = []
        for i in range(n):
            c2 = dict(cur)
            c2["hist"] = cur["hist"][:i] + cur["hist"][i + 1:]
            cands.append(c2)
        cands = [c2 for c2 in cands if c2["hist"] and hist_in_guard(c2)]
        if not cands:
            break
        rs = C.run_impl("c18_impl.py", {"cases": cands}, timeout=600)
        hit = None
        for c2, r2 in zip(cands, rs):
            col = _Collector()
            hist_oracle(col, c2, r2, {})
            if col.fails and col.fails[0]["key"] == key:
                hit = col.fails[0]
                break
        if hit is None:
            break
        best = hit
        cur = {k: v for k, v in hit["case"].items() if k != "cut_from"}
    return best


def run_hist(ctx, stats):
    cases = gen_hist_cases(ctx)
    impl = C.run_impl("c18_impl.py", {"cases": cases}, timeout=1200)
    model = ctx.model([hist_model_case(c) for c in cases]) if ctx.exe else [None] * len(cases)
    nontrivial = set()
    shrunk_keys = set()
    for c, r, m in zip(cases, impl, model):
        if m is not None and not c.get("oracle_only"):
            hist_compare(ctx, c, m, r)
        if hist_in_guard(c):
            col = _Collector()
            hist_oracle(col, c, r, stats)
            for f in col.fails:
                if f["key"] not in shrunk_keys:
                    shrunk_keys.add(f["key"])
                    small = hist_shrink(f["case"], f["key"])
                    if small is not None:
                        small["case"]["shrunk_from_calls"] = len(f["case"]["hist"])
                        f = small
                ctx.fail(f["what"], f["case"], f["expected"], f["observed"], key=f["key"])
        else:
            stats["hist_outside_guard"] = stats.get("hist_outside_guard", 0) + 1
        n_anim, fin, same = hist_shape(c, r)
        stats.setdefault("hist_tags", {})
        stats["hist_tags"][c["tag"]] = stats["hist_tags"].get(c["tag"], 0) + 1
        tally(stats, "hist_calls_per_history", min(len(c["hist"]) // 10 * 10, 60))
        tally(stats, "hist_animate_calls_per_history", min(n_anim, 8))
        tally(stats, "hist_finished_then_registered", fin)
        tally(stats, "hist_registered_next_to_live_same_style_and_row", same)
        for op, ro in zip(c["hist"], r.get("hist", [])):
            tally(stats, "hist_op", op[0])
            if op[0] == "animate":
                tally(stats, "hist_animate_result", ro["status"])
        if fin and any(ro["events"] for op, ro in zip(c["hist"], r.get("hist", [])) if op[0] == "tick"):
            nontrivial.add(repr(c["hist"][:8]) + repr((c["cols"], c["rows"], len(c["hist"]))))
    return cases, len(nontrivial)


# --------------------------------------------------------------------------------------------
# device half
# --------------------------------------------------------------------------------------------

def py_str(t):
    return '"' + t + '"'


def animate_call(name, a, variant):
    style, row, text, speed, loop = a
    if variant == 1:
        return f'{name}.animate("{style}", {row}, {py_str(text)}, {speed}, loop={loop})'
    if variant == 2:
        return f'{name}.animate(style="{style}", row={row}, text={py_str(text)}, speed_ms={speed}, loop={loop})'
    if variant == 3:
        return f'{name}.animate(animation="{style.upper()}", row={row}, text={py_str(text)}, loop={loop}, speed_ms={speed})'
    return f'{name}.animate("{style}", {row}, {py_str(text)}, speed_ms={speed}, loop={loop})'


BUSY_PRE = ["k = 0"]
BUSY_LOOP = ["k = k + 1", "if k > 3:", "    k = 0", "for q in range(2):", "    k = k + 0"]


WRAPS = [None, "if", "else", "elif", "for", "while", "try", "nested", "def", "mainloop", "mainloop-nested", "def-in-loop"]
# placements whose call sites run in the FIRST loop() pass (after that pass's tick calls) instead of in setup()
LOOP_WRAPS = ("mainloop", "mainloop-nested", "def-in-loop")


def wrap_lines(calls, mode, uid):
    """the animate calls of one display placed inside a block whose body runs exactly once at run time (the
    conditions read run-time variables: nothing is folded), so the model of the display is the same as for calls at
    top level: `one` is 1, `w<uid>` a fresh counter"""
    ind = lambda ls, n=1: ["    " * n + x for x in ls]
    if not mode or not calls:
        return list(calls)
    if mode == "if":
        return ["if one == 1:"] + ind(calls)
    if mode == "else":
        return ["if one == 0:", "    one = 0", "else:"] + ind(calls)
    if mode == "elif":
        return ["if one == 0:", "    one = 0", "elif one == 1:"] + ind(calls) + ["else:", "    one = 1"]
    if mode == "for":
        return ["for q%d in range(one):" % uid] + ind(calls)
    if mode == "while":
        return ["w%d = 0" % uid, "while w%d < 1:" % uid] + ind(calls) + ["    w%d = w%d + 1" % (uid, uid)]
    if mode == "try":
        return ["try:"] + ind(calls) + ["except:", "    one = 1"]
    if mode == "nested":
        return ["if one == 1:", "    for q%d in range(one):" % uid, "        try:"] + ind(calls, 3) + ["        except:", "            one = 1"]
    if mode == "def":
        # the call sites inside a function that setup() calls once
        return ["def go%d():" % uid] + ind(calls) + ["go%d()" % uid]
    if mode == "def-in-loop":
        # the function is defined here; the main loop calls it in its first pass (see loop_wrap_lines)
        return ["def go%d():" % uid] + ind(calls)
    if mode in LOOP_WRAPS:
        return []
    raise ValueError(mode)


def loop_wrap_lines(calls, mode, uid):
    """-> (lines before the main loop, lines inside it) for the placements of LOOP_WRAPS: the call sites sit inside
    `while True:` (or in a function called from there) under a guard that lets them run in the first pass only"""
    ind = lambda ls, n=1: ["    " * n + x for x in ls]
    pre = ["st%d = 0" % uid]
    if mode == "mainloop":
        body = calls
    elif mode == "mainloop-nested":
        body = ["for q%d in range(one):" % uid, "    try:"] + ind(calls, 2) + ["    except:", "        one = 1"]
    elif mode == "def-in-loop":
        body = ["go%d()" % uid]
    else:
        raise ValueError(mode)
    return pre, ["if st%d == 0:" % uid] + ind(body) + ["    st%d = 1" % uid]


def handler_lines(name, hanims, uid):
    """animate calls that sit ONLY in except handlers (never executed on the device - the firmware raises nothing -
    but each is a call site: state variable, start call, and one tick call per pass at the head of loop())"""
    L, ind = [], ""
    for i, a in enumerate(hanims):
        # bare `except:` only (a named class becomes catch (<Class> &), which no Arduino core declares: C06's subject);
        # the second call site sits in a handler nested in the first handler
        L += [ind + "try:", ind + "    one = 1", ind + "except:", ind + "    " + animate_call(name, a, i % 4)]
        ind += "    "
    return L


def device_script(lcds, loop_lines=None, runtime_speed=False, pre_lines=None):
    """lcds: [{"name","cols","rows","i2c","anims":[[style,row,text,speed,loop]...], optional "wrap": one of WRAPS,
    optional "handler_anims": [[style,row,text,speed,loop]...]}]"""
    L = ["from Reduino import target", "from Reduino.Displays import LCD", "from Reduino.Core import analog_read",
         'target("/dev/ttyUSB0")']
    for d in lcds:
        if d["i2c"]:
            L.append(f'{d["name"]} = LCD(i2c_addr=39, cols={d["cols"]}, rows={d["rows"]})')
        else:
            L.append(f'{d["name"]} = LCD(rs=12, en=11, d4=5, d5=4, d6=3, d7=2, cols={d["cols"]}, rows={d["rows"]})')
    if runtime_speed:
        L.append('spd = analog_read("A0")')
        L.append('rw = analog_read("A1")')
    if any(d.get("wrap") or d.get("handler_anims") or d.get("via_vars") for d in lcds):
        L.append('one = analog_read("A2")')
    if any(d.get("via_vars") for d in lcds):
        L += ["yes = one == 1", "no = one == 0"]
    j = 0
    in_loop = []
    for uid, d in enumerate(lcds):
        calls = []
        for a in d["anims"]:
            if runtime_speed:
                calls.append(f'{d["name"]}.animate("{a[0]}", rw + {a[1]}, {py_str(a[2])}, speed_ms=spd + {a[3] - runtime_speed}, loop={a[4]})')
            elif d.get("via_vars"):
                # the text held in a str variable, the loop flag computed at run time from a pin reading
                L.append(f'tx{uid}_{len(calls)} = {py_str(a[2])}')
                calls.append(f'{d["name"]}.animate("{a[0]}", {a[1]}, tx{uid}_{len(calls)}, speed_ms={a[3]}, loop={"yes" if a[4] else "no"})')
            else:
                calls.append(animate_call(d["name"], a, j % 4))
            j += 1
        L += wrap_lines(calls, d.get("wrap"), uid)
        if d.get("wrap") in LOOP_WRAPS and calls:
            pre, inside = loop_wrap_lines(calls, d["wrap"], uid)
            L += pre
            in_loop += inside
        if d.get("handler_anims"):
            L += handler_lines(d["name"], d["handler_anims"], uid)
    L += list(pre_lines or [])
    L.append("while True:")
    L += ["    " + x for x in (in_loop + list(loop_lines or [])) or ["pass"]]
    return "\n".join(L) + "\n"


def effective_phases(d, nows, setup, passes):
    """A display whose call sites sit in the main loop (LOOP_WRAPS) starts its animations in the first pass, after that
    pass's (idle) tick calls: for it the first pass plays the part of setup() and the tick history begins with the
    second pass.  -> (nows, setup phase, passes) as the display model and the oracle see them"""
    if d.get("wrap") in LOOP_WRAPS and d["anims"]:
        return list(nows[1:]), passes[0], passes[1:]
    return list(nows), setup, passes


LCD_GLOBAL_RE = re.compile(r"^\s*LiquidCrystal(?:_I2C)?\s+__redu_lcd_(\w+)\s*\(", re.M)
TICK_RE = re.compile(r"__redu_lcd_tick_(\w+)\(\s*__redu_lcd_anim_(\w+?)_(\d+)\s*,")
VAR_RE = re.compile(r"^\s*__redu_lcd_animation_state\s+__redu_lcd_anim_(\w+?)_(\d+)\s*;", re.M)
START_RE = re.compile(r"__redu_lcd_start_(\w+)\(\s*__redu_lcd_anim_(\w+?)_(\d+)\s*,")
# a tick call at the top level of loop() (two spaces of indentation): executed once per pass, unconditionally
TICK_TOP_RE = re.compile(r"^  __redu_lcd_tick_(\w+)\(\s*__redu_lcd_anim_(\w+?)_(\d+)\s*,", re.M)


def injection_problems(cpp):
    """the clause 'the transpiler guarantees it is advanced once per loop() pass without any delay call', evaluated on
    the emitted text: every state variable that a start call names - wherever the call sits: setup(), loop(), the body
    of a user function; top level, a branch, a loop body, a try body, an except handler - is a declared global and has
    exactly one tick call of its own style at the top level of loop(); every declared state variable has such a tick;
    loop() contains no delay call.  -> [(what, expected, observed)]"""
    out = []
    i_setup, i_loop = cpp.find("void setup()"), cpp.find("void loop()")
    if i_setup < 0 or i_loop < 0:
        return [("emitted sketch has no setup()/loop()", "both", [i_setup, i_loop])]
    loop_txt = cpp[i_loop:]
    end = loop_txt.find("\n}\n")
    if end >= 0:
        loop_txt = loop_txt[:end + 3]
    declared = set(VAR_RE.findall(cpp))
    top = {}
    for (st, n, k) in TICK_TOP_RE.findall(loop_txt):
        top.setdefault((n, k), []).append(st)
    # the start calls with the function they sit in (helper templates take `state`, never a __redu_lcd_anim_ variable)
    where, seen = "", {}
    for ln in cpp.splitlines():
        m = re.match(r"^(?:\w[\w:<>\*&]*\s+)+(\w+)\s*\([^;]*\)\s*\{\s*$", ln)
        if m and not ln.startswith(" "):
            where = m.group(1) + "()"
        for (st, n, k) in START_RE.findall(ln):
            seen.setdefault((n, k), (st, where, ln.strip()))
    for (n, k), (st, fn, line) in seen.items():
        var = f"__redu_lcd_anim_{n}_{k}"
        if (n, k) not in declared:
            out.append((f"animation state {var} is started in {fn} but never declared", "a global declaration", "none"))
        got = top.get((n, k), [])
        if got != [st]:
            out.append((f"loop() does not advance the animation {var} (started in {fn} by {line[:70]}...) exactly once per pass",
                        [f"__redu_lcd_tick_{st}({var}, ...) once at the top level of loop()"],
                        [f"__redu_lcd_tick_{g}({var}, ...)" for g in got] or "no tick call for it in loop()"))
    for (n, k) in sorted(declared):
        if (n, k) not in seen and len(top.get((n, k), [])) != 1:
            out.append((f"declared animation state __redu_lcd_anim_{n}_{k} is not ticked exactly once at the top level of loop()", "one tick call",
                        top.get((n, k), [])))
    if re.search(r"\bdelay(?:Microseconds)?\s*\(", loop_txt):
        out.append(("loop() of a script that never sleeps contains a delay call", "no delay", "delay(...) in loop()"))
    return out


def unescape(s):
    out, i = [], 0
    while i < len(s):
        if s[i] == "\\" and i + 1 < len(s):
            if s[i + 1] == "\\":
                out.append("\\")
                i += 2
                continue
            if s[i + 1] == "x":
                out.append(chr(int(s[i + 2:i + 4], 16)))
                i += 4
                continue
        out.append(s[i])
        i += 1
    return "".join(out)


def parse_phase(events):
    """-> {"lw": {id: [(row,col,ch)]}, "ld": {id: {row: text}}, "delays": [...]}"""
    lw, ld, delays, other = {}, {}, [], []
    for e in events:
        if e.startswith("LW "):
            p = e.split()
            lw.setdefault(int(p[1]), []).append((int(p[2]), int(p[3]), int(p[4])))
        elif e.startswith("LD "):
            p = e.split(" ", 3)
            ld.setdefault(int(p[1]), {})[int(p[2])] = unescape(p[3]) if len(p) > 3 else ""
        elif e.startswith("D ") or e.startswith("DU "):
            delays.append(e)
    return {"lw": lw, "ld": ld, "delays": delays}


def device_model_case(d, nows):
    # the device String holds the UTF-8 bytes of the literal: the model text is the byte list
    # case 6: the limiter in WBITS-bit unsigned arithmetic over TRUE tick times (millis() = t mod 2^WBITS)
    return [6, WBITS, d["cols"], d["rows"], [[CODE[a[0]], a[1], list(a[2].encode("utf-8")), a[3], bool(a[4])] for a in d["anims"]], list(nows)]


def dec_dev(evs):
    return [(e[1], e[2], e[3]) if e[0] == 0 else ("delay", e[1]) for e in evs]


def device_compare(ctx, case, m, setup, passes, lid):
    if m[0] != 0:
        ctx.disagree("device: model could not decode the case (harness bug)", case, m, None)
        return
    if dec_dev(m[1]) != setup["lw"].get(lid, []):
        ctx.disagree("device setup(): cell writes of the start helpers", case, dec_dev(m[1])[:60], setup["lw"].get(lid, [])[:60])
        return
    mm = [C.wstr(r) for r in m[2]]
    im = [setup["ld"].get(lid, {}).get(r) for r in range(len(mm))]
    if mm != im:
        ctx.disagree("device setup(): cell matrix", case, mm, im)
        return
    for k, (mt, ph) in enumerate(zip(m[3], passes)):
        mw = dec_dev(mt[0])
        iw = ph["lw"].get(lid, [])
        if mw != iw:
            ctx.disagree(f"device pass {k} (millis={case['nows'][k]}): cell writes", case, mw[:90], iw[:90])
            return
        mm = [C.wstr(r) for r in mt[1]]
        im = [ph["ld"].get(lid, {}).get(r) for r in range(len(mm))]
        if mm != im:
            ctx.disagree(f"device pass {k} (millis={case['nows'][k]}): cell matrix", case, mm, im)
            return


def cut(case, k):
    """the case with its schedule cut after pass k: runs are prefix-determined, so the shorter case fails the same way"""
    c = dict(case)
    c["nows"] = list(case["nows"][:k + 1])
    c["cut_from"] = len(case["nows"])
    return c


def device_oracle(ctx, case, setup, passes, lid, stats):
    d = case["lcd"]
    cols, rows, anims, nows = d["cols"], d["rows"], d["anims"], case["nows"]
    anim_rows = {a[1] for a in anims}
    for ph, label in [(setup, "setup")] + [(p, f"pass {k}") for k, p in enumerate(passes)]:
        for (r, c_, ch) in ph["lw"].get(lid, []):
            if r not in anim_rows or not 0 <= c_ < cols:
                ctx.fail(f"device {label}: a cell was written outside the animation's row / the display width", case, [sorted(anim_rows), f"0..{cols - 1}"], [r, c_, ch], key="dev-geometry")
                return
        for r in range(rows):
            row_txt = ph["ld"].get(lid, {}).get(r)
            if row_txt is None or len(row_txt) != cols:
                ctx.fail(f"device {label}: dumped row is not exactly the display width", case, cols, row_txt, key="dev-row-width")
                return
            if r not in anim_rows and row_txt.strip():
                ctx.fail(f"device {label}: a row without animation is not blank", case, "blank", row_txt, key="dev-other-row")
                return
    # per-animation relations: every animation that has its row to itself (its steps are then exactly the passes
    # that write cells of that row).  Animations sharing a row are covered by the global relations above only.
    if nows and nows[-1] > ULONG_MAX:
        # the clock rolls over during this run: the values millis() returns are not non-decreasing - outside the
        # property's quantifier.  Only the time-independent relations above are judged (the run is in the correspondence)
        stats["dev_rollover_runs_not_judged_by_the_time_relations"] = stats.get("dev_rollover_runs_not_judged_by_the_time_relations", 0) + 1
        return
    row_use = {}
    for a in anims:
        row_use[a[1]] = row_use.get(a[1], 0) + 1
    for ai, a in enumerate(anims):
        if row_use[a[1]] == 1:
            if not device_oracle_one(ctx, case, a, ai, setup, passes, lid, stats):
                return
        else:
            stats["dev_shared_row_animations"] = stats.get("dev_shared_row_animations", 0) + 1


def device_oracle_one(ctx, case, anim, ai, setup, passes, lid, stats):
    """the property's per-animation relations on the firmware trace; False = a failure was reported"""
    d = case["lcd"]
    cols, nows = d["cols"], case["nows"]
    single = len(d["anims"]) == 1
    style, row, text, speed, loop = anim
    who = "" if single else f" (animation #{ai}: {style} on row {row}, speed_ms={speed}, loop={loop})"
    text = text.encode("utf-8").decode("latin-1")      # one character per byte = per cell written
    B = bound(len(text), cols)
    steps = []
    nsteps = 0
    prev_row = setup["ld"][lid][row]
    due_count = 0
    last_ideal = 0
    ended_at = None         # non-looping: the first pass that was due (w.r.t. the observed steps) and drew nothing
    for k, ph in enumerate(passes):
        now = nows[k]
        w = [x for x in ph["lw"].get(lid, []) if x[0] == row]
        cur_row = ph["ld"][lid][row]
        ideal = speed <= 0 or last_ideal <= 0 or now - last_ideal >= speed
        if ideal:
            last_ideal = now
            due_count += 1
        if w:
            colset = {c_ for (_, c_, _) in w}
            if colset != set(range(cols)):
                ctx.fail("device: a frame did not rewrite exactly the display width" + who, cut(case, k), f"columns 0..{cols - 1}", sorted(colset), key="dev-frame-width")
                return False
            for t1 in steps:
                if 0 < t1 and now - t1 < speed:
                    ctx.fail("device: two steps closer than speed_ms" + who, cut(case, k), f"consecutive steps >= {speed} ms apart",
                             {"steps_at": [t1, now], "apart_ms": now - t1, "all_steps": steps + [now]}, key="dev-rate-limit")
                    return False
            if not loop and ended_at is not None:
                ctx.fail("device: a non-looping animation let a due pass go by without a frame (so it had ended, or the pass was wrongly skipped) and drew a frame again later" + who,
                         cut(case, k), "no frame after the skipped due pass", {"skipped_due_pass_at": nows[ended_at], "frame_again_at": now, "steps_before": steps}, key="dev-due-skipped")
                return False
            steps.append(now)
            nsteps += 1
            if not loop and nsteps > B:
                ctx.fail("device: non-looping animation still stepping after len+2*cols+2 steps" + who, cut(case, k), B, nsteps, key="dev-termination")
                return False
            ok = step_relation_ok(style, text, cols, prev_row, cur_row, nsteps)
            if ok is False:
                ctx.fail("device: a pass did not advance the animation by exactly one frame (one tick per pass)" + who, cut(case, k), prev_row, cur_row, key="dev-one-step")
                return False
            per_col = {}
            for (_, c_, _) in w:
                per_col[c_] = per_col.get(c_, 0) + 1
            if max(per_col.values()) > 2:
                ctx.fail("device: a cell was written more than twice in one pass (more than one tick per pass)" + who, cut(case, k), "<= 2 writes per cell", per_col, key="dev-one-step")
                return False
        else:
            if speed < 0:
                pass    # cast to unsigned long: a huge period; after the first step with the clock running none is due
            elif loop:
                last = steps[-1] if steps else 0
                if speed <= 0 or last <= 0 or now - last >= speed:
                    ctx.fail("device: a due tick (not early) did not advance a looping animation" + who, cut(case, k), "a frame", f"pass {k} millis={now} last step {last}", key="dev-due-skipped")
                    return False
            elif not loop and ended_at is None and (speed <= 0 or not steps or steps[-1] <= 0 or now - steps[-1] >= speed):
                ended_at = k
            if speed >= 0 and not loop and due_count <= 1 and nsteps == 0 and not (style == "typewriter" and len(text) == 1):
                ctx.fail("device: the first due tick did not advance the animation" + who, cut(case, k), "a frame", f"pass {k} millis={now}", key="dev-due-skipped")
                return False
            if cur_row != prev_row:
                ctx.fail("device: row changed in a pass without cell writes" + who, cut(case, k), prev_row, cur_row, key="dev-geometry")
                return False
        if not loop and due_count > B + 1 and w:
            ctx.fail("device: non-looping animation still active after more than len+2*cols+2 due ticks" + who, cut(case, k), "no more frames", f"pass {k}", key="dev-termination")
            return False
        prev_row = cur_row
    stats["dev_steps"] = stats.get("dev_steps", 0) + nsteps
    stats["dev_animations_judged"] = stats.get("dev_animations_judged", 0) + 1
    late_then_early = 0
    for k in range(1, len(nows) - 1):
        if speed > 0 and nows[k] - nows[k - 1] > 2 * speed and nows[k + 1] - nows[k] < speed:
            late_then_early += 1
    if late_then_early:
        stats["dev_animations_with_late_then_early_pass"] = stats.get("dev_animations_with_late_then_early_pass", 0) + 1
    return True


def gen_device_groups(ctx):
    """-> list of sketches: {"lcds": [...], "nows": [...], "runtime_speed": int|False, "tag"}"""
    rng = ctx.rng
    thorough = ctx.tier == "thorough"
    singles = []
    j = 0
    for style in STYLES:
        for cols in COLS:
            for n in len_classes(cols):
                for loop in (False, True):
                    combos = [(s, k) for s in SPEEDS for k in KINDS]
                    picks = combos if thorough else [combos[(j * 7) % len(combos)]]
                    for (speed, kind) in picks:
                        rows = [1, 2, 4][j % 3] if cols <= 20 else [1, 2][j % 2]
                        singles.append({"style": style, "cols": cols, "n": n, "loop": loop, "speed": speed, "kind": kind,
                                        "rows": rows, "row": (j // 3) % rows, "i2c": j % 2 == 1, "salt": j})
                    j += 1
    # thorough: widths between the boundary ones, one rotating speed/schedule pick per cell
    if thorough:
        for style in STYLES:
            for cols in [4, 5, 6, 7, 10, 12, 15, 24, 32, 39]:
                for n in len_classes(cols):
                    for loop in (False, True):
                        combos = [(s, k) for s in SPEEDS for k in KINDS]
                        speed, kind = combos[(j * 7) % len(combos)]
                        rows = [1, 2, 4][j % 3] if cols <= 20 else [1, 2][j % 2]
                        singles.append({"style": style, "cols": cols, "n": n, "loop": loop, "speed": speed, "kind": kind,
                                        "rows": rows, "row": (j // 3) % rows, "i2c": j % 2 == 1, "salt": j})
                        j += 1
    # negative speed_ms (the emitted call casts it to unsigned long): every style x loop on three geometries
    for style in STYLES:
        for (cols, n) in ((2, 3), (8, 3), (16, 20)):
            for loop in (False, True):
                singles.append({"style": style, "cols": cols, "n": n, "loop": loop, "speed": -7,
                                "kind": "late", "rows": 2, "row": j % 2, "i2c": j % 2 == 1, "salt": j})
                j += 1
    # non-ASCII literals (UTF-8 bytes in the device String; a frame may cut a multi-byte character)
    for q, txt in enumerate(["h\u00e9llo w\u00f6rld", "\u6f22\u5b57\u304b\u306a", "\u00b0C \u2713", "na\u00efve caf\u00e9 \u2615 time"]):
        for style in STYLES:
            cols = [3, 8, 16, 5][(q + j) % 4]
            singles.append({"style": style, "cols": cols, "n": len(txt.encode("utf-8")), "loop": (q + j) % 2 == 0, "speed": [0, 1, 100][j % 3],
                            "kind": KINDS[j % len(KINDS)], "rows": 2, "row": j % 2, "i2c": j % 2 == 1, "salt": j, "text": txt})
            j += 1
    # speeds outside {0, 1, 100}: small odd ones, a second-scale one, and periods above 2^15 / 2^16 ms (a 16-bit
    # speed field would wrap): every style x loop on small displays, on burst (quick) and also mixed (thorough) schedules
    for q, speed in enumerate([7, 1000, 70000] if not thorough else [2, 7, 1000, 40000, 70000]):
        for kind in (["burst"] if not thorough else ["burst", "mixed"]):
            for style in STYLES:
                for loop in (False, True):
                    cols, n = [(3, 2), (8, 11), (5, 5)][(q + j) % 3]
                    singles.append({"style": style, "cols": cols, "n": n, "loop": loop, "speed": speed, "kind": kind,
                                    "rows": 2, "row": j % 2, "i2c": j % 2 == 1, "salt": j})
                    j += 1
    groups = {}
    for s in singles:
        cls = "S" if s["cols"] <= 8 else "L"
        groups.setdefault((s["speed"], s["kind"], cls), []).append(s)
    sketches = []
    per = 14
    for (speed, kind, cls), lst in sorted(groups.items()):
        for i in range(0, len(lst), per):
            part = lst[i:i + per]
            lcds = []
            need = 0
            for q, s in enumerate(part):
                text = s.get("text") or mk_text(s["n"], salt=s["salt"])
                lcds.append({"name": f"d{q:02d}", "cols": s["cols"], "rows": s["rows"], "i2c": s["i2c"],
                             "anims": [[s["style"], s["row"], text, speed, s["loop"]]]})
                if q % 3 == 2 and (len(sketches) + q) % 2 == 0:
                    lcds[-1]["via_vars"] = True
                if q % 3 == 1:
                    # the call site inside a block that runs once (if / else / elif / for / while / try / nested)
                    lcds[-1]["wrap"] = WRAPS[1 + (len(sketches) + q // 3) % (len(WRAPS) - 1)]
                nd = bound(s["n"], s["cols"]) + 2
                if s["loop"]:
                    nd = min(nd, s["n"] + 3 * s["cols"] + 4, 70 if not thorough else 170)
                need = max(need, nd)
            # the clock at the first pass rotates over small values, one just below 2^31 ms (the run crosses it), just
            # below 2^32 and 2^63 (crossed), and schedules aligned to END at the largest unsigned long / 1 / 3 ms below
            # it (the clock never wraps; looping animations are still stepping there)
            q8 = len(sketches) % 8
            start = [1, 7, 1000, BIG_CLOCK, 1, CROSS_AT[1] - 40 - 3 * max(speed, 1), 7, CROSS_AT[2] - 25 - 2 * max(speed, 1)][q8]
            nows = tick_times(kind, speed, need, rng, start=start, cap=700)
            clock = ["low", "low", "low", "crosses 2^31", "ends at ULONG_MAX", "crosses 2^32", "ends just below ULONG_MAX", "crosses 2^63"][q8]
            if q8 in (4, 6):
                nows = align_end(nows, TOP_ENDS[(len(sketches) // 8 + (q8 == 6)) % len(TOP_ENDS)] if q8 == 6 else ULONG_MAX)
            sketches.append({"lcds": lcds, "nows": nows, "runtime_speed": False, "tag": f"grid:{speed}:{kind}:{cls}", "clock": clock})
    # (a) TOP: every style x loop flag on short schedules that END at the largest unsigned long (or 1 / 3 ms below):
    #     all animations - non-looping ones too - take their steps within a few periods of ULONG_MAX, each step is
    #     followed by early ticks, the clock never wraps.  A limiter that adds (last_step + speed_ms) instead of
    #     subtracting, or compares in a signed type, steps on the early ticks here and nowhere else.
    # (b) CROSS: the same displays on schedules that cross 2^31, 2^32, 2^63 within their first periods.
    # (c) BIG PERIOD: speed_ms beyond 2^31 / 2^32 (does not fit a 32-bit field), passes that are early by a lot.
    # (d) VERY LATE: gaps of more than 2^31 / 2^32 / 2^33 ms between passes (a truncated `elapsed` looks early).
    def family(tag, speed, nows, salt, clock, texts=None):
        lcds = []
        for q, (style, loop) in enumerate([(st, lp) for st in STYLES for lp in (True, False)]):
            cols, n = [(8, 3), (3, 5), (16, 16), (5, 2)][(q + salt) % 4]
            rows = [2, 1, 4][(q + salt) % 3]
            lcds.append({"name": f"t{q:02d}", "cols": cols, "rows": rows, "i2c": (q + salt) % 2 == 1,
                         "anims": [[style, (q + salt) % rows, mk_text(n, salt=salt + q), speed, loop]]})
            if q % 4 == 3:
                lcds[-1]["wrap"] = ["def", "mainloop", "if", "try"][(salt + q // 4) % 4]
        sketches.append({"lcds": lcds, "nows": nows, "runtime_speed": False, "tag": tag, "clock": clock})
    top_speeds = [1, 7, 100, 1000, 70000] if thorough else [1, 100, 1000]
    top_kinds = ["early", "burst", "equal", "mixed", "ontime", "late"] if thorough else ["early", "burst", "mixed"]
    jj = 0
    for speed in top_speeds:
        for kind in (top_kinds if thorough else [top_kinds[jj % 3], top_kinds[(jj + 1) % 3]]):
            end = TOP_ENDS[jj % len(TOP_ENDS)] if jj % 2 else ULONG_MAX
            family(f"top:{speed}:{kind}", speed, top_schedule(kind, speed, 14 if not thorough else 22, rng, end), jj, "ends at/just below ULONG_MAX (short)")
            jj += 1
    for ci, at in enumerate(CROSS_AT):
        for speed in ([100] if not thorough else [1, 100, 1000]):
            kind = ["burst", "early", "mixed"][(ci + jj) % 3]
            before = [speed // 2 + 1, 3 * speed + 1, 1][(ci + jj) % 3]
            family(f"cross:{speed}:{kind}", speed, tick_times(kind, speed, 10 ** 9, rng, start=at - before, cap=20 if not thorough else 40), jj,
                   f"crosses 2^{at.bit_length() - 1} (short)")
            jj += 1
    for speed in BIG_SPEEDS:
        family(f"bigspeed:{speed}", speed, tick_times("burst", speed, 10 ** 9, rng, start=[1000, 7][jj % 2], cap=19), jj, "low, period > 2^31")
        jj += 1
        if thorough:
            family(f"bigspeed-top:{speed}", speed, align_end(tick_times("early", speed, 10 ** 9, rng, start=1, cap=12), ULONG_MAX), jj, "ends at ULONG_MAX, period > 2^31")
            jj += 1
    for speed in ([100] if not thorough else [1, 100, 70000]):
        family(f"verylate:{speed}", speed, tick_times("verylate", speed, 10 ** 9, rng, start=1000, cap=21), jj, "low, gaps > 2^31 / 2^32 / 2^33 ms")
        jj += 1
    # (e) ROLL-OVER (correspondence with the W-bit model only - the register values are not non-decreasing, so the
    #     property's time relations are not evaluated): the run starts a little below 2^WBITS and goes on beyond it,
    #     once with a tick in the very millisecond in which millis() reads 0
    for ri, (speed, before) in enumerate([(100, 130), (100, 250)] if not thorough else [(100, 130), (100, 250), (1, 5), (1000, 2400), (7, 20)]):
        M = 1 << WBITS
        if ri % 2 == 0:
            times = tick_times(["burst", "early"][(ri // 2) % 2], speed, 10 ** 9, rng, start=M - before, cap=24)
        else:
            # on-time passes that land exactly on 2^WBITS (millis() == 0): the step taken there stores last_step = 0,
            # the code's marker for "clock not running" (C18_rollover_zero_reading_refuted) - then early / on-time passes
            times = [M - before] + [M - 2 * speed, M - speed, M, M + 1, M + speed // 2, M + speed, M + speed + 1, M + 2 * speed, M + 3 * speed - 1, M + 3 * speed + 1]
        family(f"rollover:{speed}", speed, times, jj, "rolls over 2^64 (correspondence only)")
        jj += 1
    # several animations on one display and on two displays, mixed speeds, shared rows; some with run-time speed/row
    for j in range(12 if thorough else 4):
        lcds = []
        rt = (j % 2 == 1)
        unit = rng.choice([1, 3, 100])
        kind = ["mixed", "burst"][(j // 2) % 2]
        base_speed = (unit if unit != 3 else 100) if rt else None
        for q in range(6):
            cols = rng.choice([2, 3, 8, 16, 20])
            rows = rng.choice([1, 2, 4])
            anims = []
            free_rows = list(range(rows))
            rng.shuffle(free_rows)
            for _ in range(rng.randint(1, 3)):
                # mostly a row of its own (the per-animation relations are then judged), sometimes a shared one
                row = free_rows.pop() if free_rows and rng.random() < 0.8 else rng.randrange(rows)
                anims.append([rng.choice(STYLES), row, mk_text(rng.choice(len_classes(cols)), salt=j + q + len(anims), spaced=rng.random() < 0.3),
                              base_speed if rt else rng.choice([0, unit, unit, 1, 3, 100, -3]), rng.random() < 0.5])
            lcds.append({"name": f"m{q:02d}", "cols": cols, "rows": rows, "i2c": rng.random() < 0.5, "anims": anims})
            if not rt:
                lcds[-1]["wrap"] = WRAPS[(j + q + (8 if (j // 2 + q) % 2 else 0)) % len(WRAPS)]
            if q == 5 and not rt:
                # a display whose ONLY animations sit in except handlers (they never start on the device: its rows stay
                # blank; the tick calls must be there all the same), and one (q == 4) that has both kinds of call site
                lcds[-1]["handler_anims"] = [a for a in anims]
                lcds[-1]["anims"] = []
                lcds[-1]["wrap"] = None
            if q == 4 and not rt:
                lcds[-1]["handler_anims"] = [[rng.choice(STYLES), anims[0][1], "ERR", unit, True], [rng.choice(STYLES), anims[0][1], "E2", 0, False]]
        nows = tick_times(kind, base_speed if rt else unit, 60, rng, cap=250)
        # half of them with a main loop that does other (non-sleeping) work: the ticks must still come once per pass
        sketches.append({"lcds": lcds, "nows": nows, "runtime_speed": base_speed if rt else False, "busy": j % 4 in (0, 3),
                         "tag": ("multi-rt:" if rt else "multi:") + kind + (":busy-loop" if j % 4 in (0, 3) else "")})
    return sketches


def run_device(ctx, stats):
    sketches = gen_device_groups(ctx)
    srcs = [device_script(s["lcds"], runtime_speed=s["runtime_speed"], pre_lines=BUSY_PRE if s.get("busy") else None,
                          loop_lines=BUSY_LOOP if s.get("busy") else None) for s in sketches]
    tr = fw.transpile_many(srcs)
    jobs, live = [], []
    for s, src, t in zip(sketches, srcs, tr):
        if not t["ok"]:
            ctx.fail("transpiler rejected a script with lcd.animate call sites", {"script": src}, "C++", t, key="dev-transpile")
            continue
        inp = clock_input(s["nows"])
        if s["runtime_speed"]:
            inp += f"ar 14 {s['runtime_speed']}\nar 15 0\n"
        inp += "ar 16 1\n"
        for what, exp, obs in injection_problems(t["cpp"]):
            ctx.fail(what, {"script": src, "nows": s["nows"][:8]}, exp, obs, key="dev-tick-injected")
        jobs.append({"cpp": t["cpp"], "input": inp, "loops": len(s["nows"]), "env": {"REDU_LCD_DUMP": "1", "REDU_NO_READ_EVENTS": "1"}, "run_timeout": 120})
        live.append((s, src, t["cpp"]))
    outs = fw.run_sketches(jobs)
    model_cases, index = [], []
    parsed = []
    for (s, src, cpp), o in zip(live, outs):
        if not o["compiled"] or o["rc"] != 0:
            ctx.fail("emitted sketch with LCD animations does not compile / crashed", {"script": src}, "runs", {"log": o["compile_log"][-800:], "rc": o["rc"], "stderr": o["stderr"][-400:]}, key="dev-compile")
            parsed.append(None)
            continue
        order = LCD_GLOBAL_RE.findall(cpp)
        ids = {name: i for i, name in enumerate(order)}
        pre, setup_ev, loops = fw.split_phases(o["events"])
        setup = parse_phase(setup_ev)
        passes = [parse_phase(p) for p in loops]
        parsed.append((ids, setup, passes, s["nows"]))
        stats["dev_events"] = stats.get("dev_events", 0) + len(o["events"])
        # no delay anywhere: the scripts contain no sleep, so any D/DU event comes from the animation runtime
        for ph, label in [(setup, "setup()")] + [(p, f"loop() pass {k}") for k, p in enumerate(passes)]:
            if ph["delays"]:
                ctx.fail(f"{label} called delay()/delayMicroseconds() although the script never sleeps (animations must not block)",
                         {"script": src, "nows": s["nows"]}, "no D/DU event", ph["delays"][:3], key="dev-delay")
                break
        if len(passes) != len(s["nows"]):
            ctx.disagree("device: number of loop passes executed", {"script": src}, len(s["nows"]), len(passes))
            continue
        for d in s["lcds"]:
            if d["name"] not in ids:
                ctx.disagree("device: LCD object not found among the emitted globals", {"script": src}, d["name"], order)
                continue
            enows, _, _ = effective_phases(d, s["nows"], setup, passes)
            case = {"lcd": d, "nows": enows, "tag": s["tag"], "script_head": src.splitlines()[4:6],
                    "runtime_speed": s["runtime_speed"], "busy": bool(s.get("busy")), "clock": s.get("clock") or "low"}
            if len(enows) != len(s["nows"]):
                case["first_pass_at"] = s["nows"][0]       # the pass in which the main-loop call sites run
            model_cases.append(device_model_case(d, enows))
            index.append((case, len(parsed) - 1))
    model = ctx.model(model_cases) if (ctx.exe and model_cases) else [None] * len(model_cases)
    nontrivial = set()
    for (case, pi), m in zip(index, model):
        ids, setup, passes, full_nows = parsed[pi]
        _, setup, passes = effective_phases(case["lcd"], full_nows, setup, passes)
        lid = ids[case["lcd"]["name"]]
        if m is not None:
            device_compare(ctx, case, m, setup, passes, lid)
        device_oracle(ctx, case, setup, passes, lid, stats)
        stats["dev_cases"] = stats.get("dev_cases", 0) + 1
        tally(stats, "dev_animations_per_display", len(case["lcd"]["anims"]))
        tally(stats, "dev_cols", case["lcd"]["cols"])
        tally(stats, "dev_wiring", "i2c" if case["lcd"]["i2c"] else "parallel")
        tally(stats, "dev_clock_of_the_run", case.get("clock") or "low")
        tally(stats, "dev_sketch_family", case["tag"].split(":")[0])
        if any(0 < a[3] and any(ULONG_MAX - a[3] < t <= ULONG_MAX for t in case["nows"][:-1]) for a in case["lcd"]["anims"]):
            stats["dev_displays_ticked_within_speed_ms_of_ULONG_MAX_and_again_before_it"] = stats.get("dev_displays_ticked_within_speed_ms_of_ULONG_MAX_and_again_before_it", 0) + 1
        tally(stats, "dev_call_site_placement", case["lcd"].get("wrap") or "top-level")
        tally(stats, "dev_call_arguments", "text variable + run-time loop flag" if case["lcd"].get("via_vars") else "run-time speed and row" if case["runtime_speed"] else "literals")
        if case["lcd"].get("handler_anims"):
            tally(stats, "dev_displays_with_handler_call_sites", "only in handlers" if not case["lcd"]["anims"] else "handlers and elsewhere")
        for a in case["lcd"]["anims"]:
            tally(stats, "dev_style", a[0])
            tally(stats, "dev_loop", bool(a[4]))
            tally(stats, "dev_speed", speed_class(int(a[3])))
            tally(stats, "dev_text_vs_cols", len_class(len(a[2].encode("utf-8")), case["lcd"]["cols"]))
            tally(stats, "dev_text_kind", "ascii" if a[2].isascii() else "non-ascii (utf-8 bytes)")
        stats["dev_passes"] = stats.get("dev_passes", 0) + len(passes)
        if any(p["lw"].get(lid) for p in passes):
            nontrivial.add(repr((case["lcd"], case["nows"][:6])))
    stats["dev_sketches"] = len(jobs)
    return index, len(nontrivial)


# --------------------------------------------------------------------------------------------
# tick injection: emitted loop() head vs the emission model; known finding replay
# --------------------------------------------------------------------------------------------

def injection_script(setup_sites, loop_sites, names, mode="plain", fun_sites=()):
    """mode: plain | noloop (script without `while True:`) | if (setup sites alternate between the two
    branches of an if/else) | for (setup sites inside a counted loop); loop_sites sit inside `while True:` under a
    guard that runs once; fun_sites: one function per entry, [(name, style), ...] its call sites - the functions are
    defined before the main loop and called from setup (even index) or from the main loop (odd index)"""
    L = ["from Reduino import target", "from Reduino.Displays import LCD", 'target("/dev/ttyUSB0")']
    for n in names:
        L.append(f"{n} = LCD(rs=12, en=11, d4=5, d5=4, d6=3, d7=2, cols=8, rows=2)")
    L.append("started = 0")
    calls = [f'{n}.animate("{st}", 0, "HELLO", speed_ms=0, loop=True)' for (n, st) in setup_sites]
    if mode == "if" and calls:
        half = (len(calls) + 1) // 2
        L.append("if started == 0:")
        L += ["    " + c for c in calls[:half]]
        if calls[half:]:
            L.append("else:")
            L += ["    " + c for c in calls[half:]]
    elif mode == "for" and calls:
        L.append("for k in range(2):")
        L += ["    " + c for c in calls]
    else:
        L += calls
    for i, sites in enumerate(fun_sites):
        L.append(f"def fn{i}():")
        L += [f'    {n}.animate("{st}", 1, "FN{i}", speed_ms=0, loop=True)' for (n, st) in sites] or ["    pass"]
        if i % 2 == 0:
            L.append(f"fn{i}()")
    if mode == "noloop":
        return "\n".join(L) + "\n"
    L.append("while True:")
    in_loop_calls = [f"fn{i}()" for i in range(len(fun_sites)) if i % 2 == 1]
    if loop_sites or in_loop_calls:
        L.append("    if started == 0:")
        for (n, st) in loop_sites:
            L.append(f'        {n}.animate("{st}", 1, "WORLD", speed_ms=0, loop=True)')
        L += ["        " + c for c in in_loop_calls]
        L.append("        started = 1")
    else:
        L.append("    pass")
    return "\n".join(L) + "\n"


def run_injection(ctx, stats):
    rng = ctx.rng
    names = ["pa", "pb", "pc"]
    # (sites before the main loop, sites inside it, mode, sites per function)
    shapes = [([("pa", "scroll")], [], "plain", []), ([("pb", "blink"), ("pa", "bounce"), ("pb", "scroll")], [], "plain", []),
              ([("pc", "typewriter"), ("pa", "scroll"), ("pa", "blink"), ("pb", "bounce")], [], "plain", []),
              ([], [("pa", "scroll")], "plain", []), ([("pa", "blink")], [("pa", "scroll")], "plain", []),
              ([("pb", "scroll")], [("pa", "bounce"), ("pb", "blink")], "plain", []),
              ([("pa", "scroll"), ("pb", "typewriter")], [], "noloop", []),
              ([("pa", "scroll"), ("pa", "blink"), ("pb", "bounce")], [], "if", []),
              ([("pc", "bounce"), ("pa", "typewriter")], [], "for", []),
              ([], [], "plain", [[("pa", "scroll")]]), ([], [], "plain", [[], [("pa", "blink")]]),
              ([("pa", "blink")], [("pa", "scroll")], "plain", [[("pa", "bounce")], [("pb", "typewriter"), ("pa", "scroll")]]),
              ([("pb", "scroll")], [], "noloop", [[("pb", "blink"), ("pc", "bounce")]]),
              ([], [("pc", "blink")], "plain", [[("pc", "scroll")], [("pc", "scroll")], [("pa", "blink")]])]
    for _ in range(16 if ctx.tier == "thorough" else 8):
        ss = [(rng.choice(names), rng.choice(STYLES)) for _ in range(rng.randint(0, 4))]
        ls = [(rng.choice(names), rng.choice(STYLES)) for _ in range(rng.randint(0, 2))] if rng.random() < 0.5 else []
        fs = [[(rng.choice(names), rng.choice(STYLES)) for _ in range(rng.randint(0, 2))] for _ in range(rng.randint(1, 3))] if rng.random() < 0.5 else []
        mode = "plain" if ls else rng.choice(["plain", "noloop", "if", "for"])
        if ss or ls or any(fs):
            shapes.append((ss, ls, mode, fs))
    srcs = [injection_script(a, b, names, mode, fun_sites=f) for a, b, mode, f in shapes]
    tr = fw.transpile_many(srcs)
    nid = {n: i for i, n in enumerate(names)}
    # the emitter registers the sites before the main loop, then the ones inside it, then the function bodies in definition order
    mcases = [[2, [[nid[n], CODE[s]] for n, s in a], [[nid[n], CODE[s]] for n, s in b + [x for fn in f for x in fn]]] for a, b, _, f in shapes]
    model = ctx.model(mcases) if ctx.exe else [None] * len(shapes)
    for (a, b, mode, f), src, t, m in zip(shapes, srcs, tr, model):
        place = ("setup " if a else "") + ("main-loop " if b else "") + ("function" if any(f) else "")
        tally(stats, "injection_call_site_places", place.strip() or "none")
        if not t["ok"]:
            ctx.fail("transpiler rejected a script with lcd.animate call sites", {"script": src}, "C++", t, key="dev-transpile")
            continue
        cpp = t["cpp"]
        loop_txt = cpp[cpp.find("void loop()"):]
        ticks = [[nid[n], int(k), CODE[st]] for (st, n, k) in TICK_RE.findall(loop_txt)]
        decl = sorted([nid[n], int(k)] for (n, k) in VAR_RE.findall(cpp))
        # the property itself - every animation, wherever its call site is, is ticked exactly once per pass
        probs = injection_problems(cpp)
        for what, exp, obs in probs[:1]:
            ctx.fail(what, {"script": src}, exp, obs, key="dev-tick-injected")
        want = sorted([nid[n], CODE[s]] for n, s in a + b + [x for fn in f for x in fn])
        got = sorted([t_[0], t_[2]] for t_ in ticks)
        if want != got and not probs:
            ctx.fail("loop() does not tick every animation of the script exactly once", {"script": src}, want, got, key="dev-tick-injected")
        if m is not None:
            if m[0] != 0 or [list(x) for x in m[1]] != ticks:
                ctx.disagree("tick injection: emitted tick calls vs emission model", {"script": src}, m, ticks)
            elif sorted([x[0], x[1]] for x in m[2]) != decl:
                ctx.disagree("tick injection: declared animation state variables vs emission model", {"script": src}, m[2], decl)
        stats["injection_shapes"] = stats.get("injection_shapes", 0) + 1
        stats.setdefault("injection_modes", {})
        stats["injection_modes"][mode] = stats["injection_modes"].get(mode, 0) + 1


# --------------------------------------------------------------------------------------------
# tick injection over the block structure: statement trees (Device/DLCDInject.v)
#   tree node: ["anim", name, style] | ["other"] | ["block", kind, [body, ...], meta]
#   kind 0 if (meta = has_else: the last body is the else body), 1 while, 2 for, 3 try (bodies[0] = try body, the rest
#   = except handlers; meta = rotation of the handler headers)
# --------------------------------------------------------------------------------------------

POSITIONS = ["if", "elif", "else", "while", "for", "try", "exc0", "exc1"]
EXC_HEADERS = ["except:", "except ValueError:", "except Exception as e%d:", "except Exception:"]


def t_anim(name, style):
    return ["anim", name, style]


def t_place(pos, leaf, filler):
    """a block with the statements `leaf` as the body named by `pos`; `filler()` yields the other bodies"""
    if pos in ("if", "elif", "else"):
        bodies = [filler(), filler(), filler()]
        bodies[["if", "elif", "else"].index(pos)] = leaf
        return ["block", 0, bodies, True]
    if pos == "while":
        return ["block", 1, [leaf], None]
    if pos == "for":
        return ["block", 2, [leaf], None]
    if pos == "try":
        return ["block", 3, [leaf, filler()], 0]
    if pos == "exc0":
        return ["block", 3, [filler(), leaf, filler()], 1]
    if pos == "exc1":
        return ["block", 3, [filler(), filler(), leaf], 2]
    raise ValueError(pos)


def t_nest(path, leaf, filler):
    """leaf statements placed at the end of `path` (outermost position first)"""
    body = leaf
    for pos in reversed(path):
        body = [t_place(pos, body, filler)]
    return body


def t_random(rng, names, depth, allow_anim=True):
    body = []
    for _ in range(rng.randint(1, 3)):
        r = rng.random()
        if depth > 0 and r < 0.5:
            kind = rng.randrange(4)
            if kind == 0:
                nb = rng.randint(1, 3)
                has_else = nb >= 2 and rng.random() < 0.6
            elif kind == 3:
                nb, has_else = rng.randint(2, 4), rng.randrange(4)
            else:
                nb, has_else = 1, None
            body.append(["block", kind, [t_random(rng, names, depth - 1, allow_anim) for _ in range(nb)], has_else])
        elif allow_anim and r < 0.85:
            body.append(t_anim(rng.choice(names), rng.choice(STYLES)))
        else:
            body.append(["other"])
    return body


def t_sites(body):
    """the (name, style) call sites in source order - the harness's own flattening, used by the oracle"""
    out = []
    for st in body:
        if st[0] == "anim":
            out.append((st[1], st[2]))
        elif st[0] == "block":
            for b in st[2]:
                out += t_sites(b)
    return out


def t_positions(body, path=()):
    """-> [(name, path of body kinds)] for the distribution"""
    out = []
    for st in body:
        if st[0] == "anim":
            out.append((st[1], path))
        elif st[0] == "block":
            for i, b in enumerate(st[2]):
                if st[1] == 0:
                    lab = "if" if i == 0 else "else" if st[3] and i == len(st[2]) - 1 else "elif"
                elif st[1] == 3:
                    lab = "try" if i == 0 else "except"
                else:
                    lab = ["", "while", "for"][st[1]]
                out += t_positions(b, path + (lab,))
    return out


def t_wire(body, nid):
    out = []
    for st in body:
        if st[0] == "anim":
            out.append([0, nid[st[1]], CODE[st[2]]])
        elif st[0] == "other":
            out.append([1])
        else:
            out.append([2, st[1], [t_wire(b, nid) for b in st[2]]])
    return out


def t_render(body, ind, out, ctr):
    for st in body:
        if st[0] == "anim":
            ctr[0] += 1
            out.append(f'{ind}{st[1]}.animate("{st[2]}", {ctr[0] % 2}, "T{ctr[0]}", speed_ms=0, loop=True)')
        elif st[0] == "other":
            out.append(f"{ind}k = k + 1")
        else:
            kind, bodies, meta = st[1], st[2], st[3]
            ctr[1] += 1
            uid = ctr[1]
            for i, b in enumerate(bodies):
                if kind == 0:
                    head = "if k == 0:" if i == 0 else "else:" if meta and i == len(bodies) - 1 else f"elif k == {i}:"
                elif kind == 1:
                    head = "while k < 3:"
                elif kind == 2:
                    head = f"for q{uid} in range(2):"
                else:
                    head = "try:" if i == 0 else EXC_HEADERS[(meta + i - 1) % len(EXC_HEADERS)].replace("%d", str(uid * 10 + i))
                out.append(ind + head)
                t_render(b if b else [["other"]], ind + "    ", out, ctr)
                if kind == 1:
                    out.append(ind + "    k = k + 1")


def tree_script(setup, loop, names, noloop=False, funs=()):
    """funs: statement trees of function bodies; fn<i> is defined before the main loop (after the setup statements) and
    called from setup (i % 3 == 0), from the main loop (i % 3 == 1) or never (i % 3 == 2: the definition is emitted
    all the same and its call sites are registered)"""
    L = ["from Reduino import target", "from Reduino.Displays import LCD", 'target("/dev/ttyUSB0")']
    for n in names:
        L.append(f"{n} = LCD(rs=12, en=11, d4=5, d5=4, d6=3, d7=2, cols=8, rows=2)")
    L.append("k = 0")
    ctr = [0, 0]
    t_render(setup, "", L, ctr)
    for i, body in enumerate(funs):
        L.append(f"def fn{i}():")
        L.append("    k = 0")
        t_render(body, "    ", L, ctr)
        if i % 3 == 0:
            L.append(f"fn{i}()")
    if noloop:
        return "\n".join(L) + "\n"
    L.append("while True:")
    t_render(loop if loop else [["other"]], "    ", L, ctr)
    for i in range(len(funs)):
        if i % 3 == 1:
            L.append(f"    fn{i}()")
    return "\n".join(L) + "\n"


def gen_tree_cases(ctx):
    """-> [(setup_tree, loop_tree, function_trees, tag)].  Systematic part: a display `st` whose ONLY call site sits at
    the end of every path of body kinds of length 1 and 2 over {if, elif, else, while, for, try body, first handler,
    second handler}, with the rest of the script rotating over: nothing else animates / the main display `ma` animates
    at top level / `ma` animates in the sibling bodies of every block on the path; the path itself is placed before the
    main loop, inside the main loop, or inside a function body (rotating).  Then paths of length 3 (seeded sample), two
    call sites of one display in different handlers, seeded random trees (before the loop only / before and inside /
    with one to three functions / without a main loop)."""
    rng = ctx.rng
    thorough = ctx.tier == "thorough"
    cases = []
    paths = [(a,) for a in POSITIONS] + [(a, b) for a in POSITIONS for b in POSITIONS]
    triple = [(a, b, c) for a in POSITIONS for b in POSITIONS for c in POSITIONS]
    rng.shuffle(triple)
    paths += triple if thorough else triple[:24]
    for j, path in enumerate(paths):
        style = STYLES[j % 4]
        variant = j % 3
        sib = [0]
        def filler():
            sib[0] += 1
            if variant == 2:
                return [t_anim("ma", STYLES[(j + sib[0]) % 4])]
            return [["other"]]
        tree = t_nest(list(path), [t_anim("st", style)] + ([["other"]] if j % 2 else []), filler)
        top = [t_anim("ma", STYLES[(j + 1) % 4])] if variant == 1 else []
        place = (j // 3) % 3
        if place == 0:
            cases.append((top + tree, [], [], "path:" + ">".join(path)))
        elif place == 1:
            cases.append((top, tree, [], "path-in-main-loop:" + ">".join(path)))
        else:
            cases.append((top, [], [tree] if j % 2 else [[["other"]], tree], "path-in-function:" + ">".join(path)))
    # one display, call sites in two different handlers / handler and try body / handler and top level
    for j, (pa, pb) in enumerate([("exc0", "exc1"), ("try", "exc0"), ("exc1", None), ("exc0", "else"), ("for", "exc1")]):
        f = lambda: [["other"]]
        setup = t_nest([pa], [t_anim("st", STYLES[j % 4])], f)
        setup += [t_anim("st", STYLES[(j + 1) % 4])] if pb is None else t_nest([pb], [t_anim("st", STYLES[(j + 2) % 4])], f)
        cases.append((setup, [], [], "two-sites"))
        cases.append(([], setup, [], "two-sites:main-loop"))
    names = ["ma", "st", "zz"]
    for j in range(60 if thorough else 20):
        cases.append((t_random(rng, names, 3), [], [], "random"))
    for j in range(24 if thorough else 10):
        cases.append((t_random(rng, names, 2), t_random(rng, names, 2), [], "random:loop-sites"))
    for j in range(24 if thorough else 10):
        cases.append((t_random(rng, names, 2), t_random(rng, names, 2) if j % 2 else [],
                      [t_random(rng, names, 2) for _ in range(1 + j % 3)], "random:function-sites"))
    for j in range(6 if thorough else 2):
        cases.append((t_random(rng, names, 2), [], [t_random(rng, names, 1)] if j % 2 else [], "random:noloop"))
    return cases


def run_injection_trees(ctx, stats):
    names = ["ma", "st", "zz"]
    nid = {n: i for i, n in enumerate(names)}
    cases = gen_tree_cases(ctx)
    srcs = [tree_script(a, b, names, noloop=tag.endswith("noloop"), funs=f) for a, b, f, tag in cases]
    tr = fw.transpile_many(srcs)
    model = ctx.model([[5, t_wire(a, nid), t_wire(b, nid), [t_wire(x, nid) for x in f]] for a, b, f, _ in cases]) if ctx.exe else [None] * len(cases)
    compile_jobs = []
    compiled_tags = {}
    for (a, b, f, tag), src, t, m in zip(cases, srcs, tr, model):
        stats["tree_shapes"] = stats.get("tree_shapes", 0) + 1
        tally(stats, "tree_tags", tag.split(":")[0] + (":" + tag.split(":")[1] if tag.startswith(("random:", "two-sites:")) else ""))
        placed = [("before-main-loop", a), ("main-loop", b)] + [("function", x) for x in f]
        for where, body in placed:
            for name, path in t_positions(body):
                tally(stats, "tree_call_site_place", where)
                tally(stats, "tree_call_site_depth", len(path))
                tally(stats, "tree_call_site_innermost_body", path[-1] if path else "top-level")
        by_name = {}
        for _, body in placed:
            for name, path in t_positions(body):
                by_name.setdefault(name, []).append(path)
        for name, ps in by_name.items():
            if all(p and "except" in p for p in ps):
                stats["tree_displays_animated_only_inside_handlers"] = stats.get("tree_displays_animated_only_inside_handlers", 0) + 1
        for name in names:
            ina, inb, inf = any(n == name for n, _ in t_sites(a)), any(n == name for n, _ in t_sites(b)), any(n == name for x in f for n, _ in t_sites(x))
            if (inb or inf) and not ina:
                tally(stats, "tree_displays_animated_only", ("in main loop" if inb else "") + ("+" if inb and inf else "") + ("in functions" if inf else ""))
        if not t["ok"]:
            ctx.fail("transpiler rejected a script with lcd.animate call sites", {"script": src}, "C++", t, key="dev-transpile")
            continue
        cpp = t["cpp"]
        loop_txt = cpp[cpp.find("void loop()"):]
        ticks = [[nid[n], int(k), CODE[st]] for (st, n, k) in TICK_RE.findall(loop_txt)]
        decl = sorted([nid[n], int(k)] for (n, k) in VAR_RE.findall(cpp))
        # the property itself, on the emitted text
        probs = injection_problems(cpp)
        for what, exp, obs in probs[:1]:
            ctx.fail(what, {"script": src}, exp, obs, key="dev-tick-injected")
        want = sorted([nid[n], CODE[s_]] for body in [a, b] + list(f) for n, s_ in t_sites(body))
        got = sorted([t_[0], t_[2]] for t_ in ticks)
        if want != got and not probs:
            ctx.fail("loop() does not tick every animation of the script exactly once (call sites nested in blocks, in the main loop, in functions)",
                     {"script": src}, want, got, key="dev-tick-injected")
        kind = tag.split(":")[1] if tag.startswith("random:") else "before-loop" if tag == "random" else None
        if kind and compiled_tags.get(kind, 0) < (4 if ctx.tier == "thorough" else 2) and "except Exception" not in src and "except ValueError" not in src:
            compiled_tags[kind] = compiled_tags.get(kind, 0) + 1
            compile_jobs.append((src, cpp))
        if m is not None:
            if m[0] != 0:
                ctx.disagree("tick injection (trees): model could not decode the case (harness bug)", {"script": src}, m, None)
            elif [list(x) for x in m[1]] != ticks:
                ctx.disagree("tick injection (trees): emitted tick calls vs the parser/emitter walk model", {"script": src}, [list(x) for x in m[1]], ticks)
            elif sorted([x[0], x[1]] for x in m[2]) != decl:
                ctx.disagree("tick injection (trees): declared animation state variables vs the emitter walk model", {"script": src}, m[2], decl)
    # a few of the nested scripts (bare `except:` only - named exception classes are C06's subject) really compile and run
    if compile_jobs:
        outs = fw.run_sketches([{"cpp": cpp, "input": "clock0 0\npass 10 10 10\n", "loops": 3, "env": {"REDU_LCD_DUMP": "1"}, "run_timeout": 60}
                                for _, cpp in compile_jobs])
        for (src, _), o in zip(compile_jobs, outs):
            stats["tree_sketches_compiled_and_run"] = stats.get("tree_sketches_compiled_and_run", 0) + 1
            if not o["compiled"] or o["rc"] != 0:
                ctx.fail("emitted sketch with nested lcd.animate call sites does not compile / crashed", {"script": src}, "runs",
                         {"log": o["compile_log"][-800:], "rc": o["rc"], "stderr": o["stderr"][-400:]}, key="dev-compile")
            elif any(e.startswith(("D ", "DU ")) for e in o["events"]):
                ctx.fail("delay()/delayMicroseconds() called although the script never sleeps", {"script": src}, "no D/DU event",
                         [e for e in o["events"] if e.startswith(("D ", "DU "))][:3], key="dev-delay")


def run_schedule_spec(ctx, stats, hcases, dindex):
    """the oracle's own notion of a due tick ([ideal_due], used by the rate-limit / due-skipped relations) against the
    extracted specification schedule [due_flags] of coq/Host/LCDAnim.v, which C18_step_schedule_device/_host prove to
    be the model's step flags: on every (speed, schedule) pair the generators produced"""
    if not ctx.exe:
        return
    seen, cases = set(), []
    def add(speed, nows):
        key = (speed, tuple(nows))
        if key not in seen and all(t > 0 for t in nows):
            seen.add(key)
            cases.append((speed, list(nows)))
    for c in hcases:
        for a in c["anims"]:
            add(max(int(a[3]), 0), c["nows"])
    for case, _ in dindex:
        for a in case["lcd"]["anims"]:
            if a[3] >= 0:
                add(a[3], case["nows"])
    out = ctx.model([[3, sp, True, 1, nows] for sp, nows in cases])
    late_early = 0
    for (sp, nows), m in zip(cases, out):
        want = ideal_due(nows, sp)
        got = [bool(x) for x in m[1]] if m and m[0] == 0 else None
        if got != want:
            ctx.disagree("oracle schedule (ideal_due) vs the specification schedule due_flags of the model", {"speed": sp, "nows": nows}, got, want)
        if sp > 0 and any(b - a > 2 * sp and c_ - b < sp for a, b, c_ in zip(nows, nows[1:], nows[2:])):
            late_early += 1
    stats["schedules_checked_against_due_flags"] = len(cases)
    stats["schedules_with_a_late_pass_followed_by_an_early_one"] = late_early


def local_findings(ctx):
    """known_findings.d/C18.json (this package's own file) takes precedence over the merged known_findings.json, which
    ./check manifest assembles from it"""
    import json
    items = {f["id"]: f for f in ctx.findings}
    p = C.VERIF / "known_findings.d" / "C18.json"
    if p.exists():
        for f in json.loads(p.read_text()):
            items[f["id"]] = f
    return list(items.values())


def witness_failure(f):
    """Run the witness script of a listed entry through the property's oracle: the emitted text (every started state
    variable declared and ticked once at the top level of loop()), the compiler, and the trace (speed_ms=0, loop=True:
    from the phase in which the animation starts on, every pass must draw a frame on its display).
    -> None if the property holds on the witness, else (what, expected, observed)"""
    w = f["witness"]
    t = fw.transpile_many([w["script"]])[0]
    if not t["ok"]:
        return ("the transpiler rejects the script", "C++", t)
    probs = injection_problems(t["cpp"])
    o = fw.run_sketches([{"cpp": t["cpp"], "input": w["input"], "loops": w["loops"], "env": {"REDU_LCD_DUMP": "1"}}])[0]
    if not o["compiled"] or o["rc"] != 0:
        return ("the emitted sketch does not compile / crashed" + (": " + probs[0][0] if probs else ""), "a sketch that compiles and runs",
                {"log": o["compile_log"][-600:], "rc": o["rc"], "stderr": o["stderr"][-300:]})
    if probs:
        return probs[0]
    _, setup_ev, loops = fw.split_phases(o["events"])
    phases = [parse_phase(setup_ev)] + [parse_phase(p) for p in loops]
    started = [k for k, p in enumerate(phases) if p["lw"].get(0)]
    if not started:
        return ("the animation never started", "a first frame", "no cell write on the display")
    later = phases[max(started[0], 0) + 1:]
    idle = [k for k, p in enumerate(later) if not p["lw"].get(0)]
    if not later or idle:
        return ("the animation is started but not advanced in every later pass (speed_ms=0, loop=True)", "a frame in every pass after the start",
                {"passes_without_a_frame_after_the_start": idle, "rows": [p["ld"].get(0) for p in later[:4]]})
    return None


def replay_listed(ctx):
    """kind=finding: witness still fails -> KNOWN-FINDING line, silent otherwise.  kind=fixed (repaired in Reduino):
    suppresses nothing - its witness lies inside the guard, goes through the same oracle first on every run, and a
    witness that fails again is a VIOLATION whose replay is that witness.  -> {id: outcome}"""
    outcome = {}
    for f in local_findings(ctx):
        fixed = f.get("kind") == "fixed"
        try:
            bad = witness_failure(f)
        except Exception as e:  # noqa
            ctx.notes.append(f"replay of {f['id']} failed to run: {e}")
            if fixed:
                ctx.disagree(f"witness of the fixed entry {f['id']} could not be run: {e}", {"script": f["witness"].get("script")}, None, str(e))
            continue
        outcome[f["id"]] = "holds" if bad is None else "FAILS" + (" AGAIN" if fixed else "")
        if bad is None:
            continue
        if fixed:
            w = f["witness"]
            ctx.fail(f"the repaired defect {f['id']} is back ({f.get('fixed', 'fixed')}): {bad[0]}",
                     {"script": w["script"], "input": w.get("input"), "loops": w.get("loops"), "nows": [10 * (k + 1) for k in range(w.get("loops", 5))],
                      "fixed_entry": f["id"], "commit": f.get("commit")},
                     bad[1], bad[2], key="fixed:" + f["id"])
        else:
            ctx.known(f"{f['id']}: {f['what']}")
    return outcome


class _Collector:
    """stand-in for the run context while replaying one recorded case: records oracle failures only"""

    def __init__(self):
        self.fails = []
        self.notes = []

    def fail(self, what, case, expected, observed, key=None):
        self.fails.append({"what": what, "expected": expected, "observed": observed, "key": key, "case": case})

    def disagree(self, *a, **k):
        pass


def replay(data):
    """./check replay <file>: re-evaluate the property oracle on the recorded case against the current /repo"""
    case = data.get("case") or {}
    col = _Collector()
    if isinstance(case, dict) and "lcd" in case:
        d, nows = case["lcd"], case["nows"]
        in_loop = d.get("wrap") in LOOP_WRAPS and d["anims"]
        if in_loop:
            # the call sites run in the first pass of the main loop; the recorded tick history starts with the second
            nows = [case.get("first_pass_at", min(1, nows[0]) if nows else 1)] + list(nows)
        rts = case.get("runtime_speed") or False
        src = device_script([d], runtime_speed=rts, pre_lines=BUSY_PRE if case.get("busy") else None,
                            loop_lines=BUSY_LOOP if case.get("busy") else None)
        print("replay: script\n" + src)
        t = fw.transpile_many([src])[0]
        if not t["ok"]:
            print("REPRODUCED: the transpiler rejects the script", t)
            return 1
        inp = clock_input(nows) + (f"ar 14 {rts}\nar 15 0\n" if rts else "") + "ar 16 1\n"
        for what, exp, obs in injection_problems(t["cpp"]):
            col.fail(what, case, exp, obs, key="dev-tick-injected")
        o = fw.run_sketches([{"cpp": t["cpp"], "input": inp, "loops": len(nows),
                              "env": {"REDU_LCD_DUMP": "1", "REDU_NO_READ_EVENTS": "1"}, "run_timeout": 120}])[0]
        if not o["compiled"] or o["rc"] != 0:
            print("REPRODUCED: the emitted sketch does not compile / crashed", o["compile_log"][-600:], o["stderr"][-300:])
            return 1
        _, setup_ev, loops = fw.split_phases(o["events"])
        setup, passes = parse_phase(setup_ev), [parse_phase(p) for p in loops]
        for ph in [setup] + passes:
            if ph["delays"]:
                col.fail("delay()/delayMicroseconds() called although the script never sleeps", case, "no D/DU event", ph["delays"][:3], key="dev-delay")
                break
        _, setup, passes = effective_phases(d, nows, setup, passes)
        device_oracle(col, case, setup, passes, 0, {})
    elif isinstance(case, dict) and "hist" in case:
        r = C.run_impl("c18_impl.py", {"cases": [case]}, timeout=600)[0]
        print("replay: call history on LCD(cols=%d, rows=%d)" % (case["cols"], case["rows"]))
        for k, op in enumerate(case["hist"]):
            print(f"  #{k} lcd.{op[0]}({', '.join(repr(x) for x in op[1:])})")
        if hist_in_guard(case):
            hist_oracle(col, case, r, {})
        else:
            print("replay: the case lies outside the oracle's guard (positive non-decreasing tick times, positive geometry)")
    elif isinstance(case, dict) and "anims" in case and "nows" in case:
        r = C.run_impl("c18_impl.py", {"cases": [case]}, timeout=600)[0]
        if host_in_guard(case):
            host_oracle(col, case, r, {})
        else:
            print("replay: the case lies outside the oracle's guard (positive non-decreasing tick times, positive geometry)")
    elif isinstance(case, dict) and "script" in case:
        t = fw.transpile_many([case["script"]])[0]
        if not t["ok"]:
            print("REPRODUCED: the transpiler rejects the script", t)
            return 1
        print("replay: script\n" + case["script"])
        for what, exp, obs in injection_problems(t["cpp"]):
            col.fail(what, case, exp, obs, key="dev-tick-injected")
        nows = case.get("nows") or [10, 20, 30, 40, 50]
        incs = [nows[0]] + [b - a for a, b in zip(nows, nows[1:])]
        # `except <Class>:` becomes catch (<Class> &), which no Arduino core declares (C06's subject): such a script is
        # judged on the emitted text only; every other one is also compiled and run
        if not re.search(r"^\s*except\s+\w", case["script"], re.M):
            o = fw.run_sketches([{"cpp": t["cpp"], "input": "clock0 0\npass " + " ".join(map(str, incs)) + "\nar 16 1\n", "loops": len(nows),
                                  "env": {"REDU_LCD_DUMP": "1", "REDU_NO_READ_EVENTS": "1"}, "run_timeout": 120}])[0]
            if not o["compiled"] or o["rc"] != 0:
                print("REPRODUCED: the emitted sketch does not compile / crashed", o["compile_log"][-600:], o["stderr"][-300:])
                return 1
            if any(e.startswith(("D ", "DU ")) for e in o["events"]):
                col.fail("delay()/delayMicroseconds() called although the script never sleeps", case, "no D/DU event",
                         [e for e in o["events"] if e.startswith(("D ", "DU "))][:3], key="dev-delay")
    else:
        print("replay: no replayable case in this file (correspondence / proof failure: see the fields above)")
        return 0
    for f in col.fails:
        print(f"REPRODUCED [{f['key']}] {f['what']} (expected {f['expected']}, observed {f['observed']})")
    if not col.fails:
        print("replay: the property's oracle holds on this case now")
    return 1 if col.fails else 0


def run(ctx: C.Ctx):
    stats = {}
    # the witnesses of the listed entries first (a fixed entry suppresses nothing: its witness failing again is a VIOLATION
    # whose replay is that witness)
    stats["listed_witnesses_replayed_through_the_oracle"] = replay_listed(ctx)
    # then the text-level injection checks: their scripts are the smallest, so the first replay of a class is minimal
    run_injection(ctx, stats)
    run_injection_trees(ctx, stats)
    hcases, h_nt = run_host(ctx, stats)
    rcases, r_nt = run_hist(ctx, stats)
    dindex, d_nt = run_device(ctx, stats)
    run_schedule_spec(ctx, stats, hcases, dindex)
    ctx.coverage.update({
        "evaluations": len(hcases) + len(rcases) + len(dindex) + stats.get("injection_shapes", 0) + stats.get("tree_shapes", 0),
        "distinct_nontrivial": h_nt + r_nt + d_nt,
        "rule": "host: (4 styles x cols in {1,2,3,8,16,20,40} x len in {0,1,cols-1,cols,cols+1,2cols} x loop x speed in {0,1,100} x tick schedule in {ontime,early,late,equal,burst}) "
                "(quick: two speed/schedule picks per cell rotating over all 15 pairs, thorough: all, plus every other width 1..40 with two picks per cell), plus seeded random single-animation cases "
                "(speeds -5..70000, mixed and burst schedules) and multi-animation cases with invalid styles/rows; "
                "device: the same grid, one LCD object per case batched into sketches that share a scripted millis() schedule (first pass at 1, 7, 1000, just below 2^31, 2^32 or 2^63 ms - the run crosses that value - "
                "or the whole schedule shifted so that its LAST pass is at the largest unsigned long / 1 / 3 ms below it), plus speeds 7/1000/70000 "
                "(thorough also 2/40000 and the in-between widths 4..39), plus multi-animation / several-display / run-time-argument sketches on mixed and burst schedules, half of them with a main loop doing other work; "
                "schedule 'burst' = late passes (2..5 periods) each followed by several quick passes (0, 1, period/4 ... apart) and then one exactly on time; 'mixed' draws gaps from {0,1,p-1,p,p+1,2p,p/2,3p+1,7p+3}; "
                "tick histories are long enough to contain more than len+2*cols+2 due ticks (non-looping). The per-animation relations (rate limit over all pairs of steps, no due pass skipped, no frame after a skipped due pass, "
                "termination bound, one frame per step) are evaluated for every animation that has its row to itself (device) / for every animation (host). "
                "Clock-width families (8 displays each: 4 styles x loop on/off, four geometries, call sites at top level / in a def / in the main loop / in if / in try): "
                "top = short schedules (early/burst/mixed gaps closed by an on-time pass, a pass in the same ms and two early ones) ENDING at ULONG_MAX, ULONG_MAX-1 or ULONG_MAX-3, speeds 1/100/1000 (thorough 1/7/100/1000/70000 x six schedule kinds): every animation steps within speed_ms of the largest unsigned long and is ticked early again while the clock is still below it; "
                "cross = short schedules starting speed/2+1, 3*speed+1 or 1 ms below 2^31, 2^32, 2^63; bigspeed = speed_ms 2^31+5 and 2^32+7 on burst schedules (thorough also ending at ULONG_MAX); "
                "verylate = passes late by 2^31+3, 2^32+5 and 2^33+speed ms each followed by early and on-time ones; rollover = runs that start 130 / 250 ms below 2^64 and continue beyond it, one of them with passes exactly at 2^64 (millis() reads 0) - "
                "these are compared with the W-bit model (cell writes, matrix per pass) but NOT judged by the time relations of the oracle (register values not non-decreasing). "
                "Host schedules: a quarter of them start at 2^32-3p-2, 2^53-p-1, 2^63-2p, 2^64-5p-3 or 10^30 (Python ints; a limiter through float or a fixed width goes wrong there). "
                "Call-site placement: every third display of a grid sketch and every display of the multi sketches has its animate calls inside a block that runs once (if / else / elif / for / while / try / if>for>try), inside a function called once from setup (def), or - starting in the first pass, after that pass's idle tick calls, the first pass then playing the part of setup() for the display model and the oracle - inside `while True:` under a run-once guard (mainloop), nested there in for>try (mainloop-nested), or inside a function the main loop calls once (def-in-loop), "
                "two displays per multi sketch have call sites inside (nested) except handlers (one of them only there: it never starts, its rows must stay blank, its tick calls must exist); on every transpiled sketch the "
                "emitted text is checked: each state variable that a start call names - in setup(), in loop() or in a user function - is declared and has exactly one tick call of its style at the top level of loop(). "
                "Tick injection trees: a display whose only call site ends every path of length 1 and 2 (and a seeded sample of length 3; thorough: all 512) over the body kinds {if, elif, else, while, for, try body, first handler, second handler}, "
                "the rest of the script rotating over (nothing else animates / main display at top level / main display in every sibling body), two call sites of one display in different handlers, seeded random trees of depth <= 3, "
                "the path placed before the main loop, inside it, or inside a function body (rotating; functions are called from setup, from the main loop, or never), trees with call sites before and inside the main loop, trees with one to three function bodies, and scripts without a main loop - all of them inside the guard (oracle on the emitted text + correspondence); handler headers rotate over `except:`, `except ValueError:`, `except Exception as e:`, `except Exception:`. "
                "Host, several displays: one in nine grid cases and half of the multi cases run next to a second display created in the same process (same geometry/style/row/registry key in the grid), whose animations start before and after the main one's and which is ticked between the main ticks; "
                "any change of one display across an operation on the other is a failure. "
                "Host registry histories (one display, calls in any order; model Host/LCDReg.v): (B) every word of up to 5 calls (thorough 6) over {one-shot blink row 0 (over after 1 step), looping scroll row 0, one-shot scroll row 0, "
                "[thorough: looping blink row 1,] tick} that ends with an animate call, followed by 7 ticks, on a 2x2 display (quick: all words up to 4 calls and the 5-call words in which the quick one-shot is over before a later animate); "
                "(A) structured finished-then-reregistered histories: one-shot (4 styles, on the looping one's row or the other) + looping (4 styles) + ticks until the one-shot is over + a third animate whose (style, row) is that of the looping one / "
                "of the finished one / another style / another row, looping or not, + ticks beyond the third's end and a full period of the looping one, speeds 0 and 3, early ticks mixed in (quick: all same-as-looping, half of the others; thorough also cols 8); "
                "(C) seeded random histories of 4..45 calls: animate drawn from 1..3 recurring (style, row) pairs (short texts so that one-shots finish inside the history, 6 % unknown styles, 6 % rows outside the display), ticks with gaps from "
                "{0,1,p-1,p,p+1,2p,5p+3} starting at 0/6/999/2^32-5, line / clear / begin() in between; a third of them again with the class's other public calls (write, message, progress, display, backlight, brightness, glyph) interleaved (oracle only). "
                "Oracle over a history: every animation a valid animate call started is followed by the identity of its _AnimationState object; while live (active, no begin() since) it must stay in lcd.animations across every call, "
                "no call but tick may change it, every due tick advances it (or at least draws on its row), looping never inactive, steps speed_ms apart, one-shots stop within len+2*cols+2 steps; a failing history is minimised call by call before it is reported. "
                "Non-trivial = at least one frame was drawn by a tick; distinct by (geometry, animations, schedule prefix); histories: an animate call was made after an earlier animation had finished and a later tick drew a frame.",
        "samples": [hcases[0], hcases[len(hcases) // 2], dindex[0][0] if dindex else None],
        "distribution": stats,
        "guard": "host: cols, rows >= 1, tick times positive and non-decreasing (histories: the same over the tick calls of the history; animations reset by begin() are no longer judged); device: additionally 0 <= row < rows, text without control characters, quotes or backslashes (non-ASCII text = its UTF-8 bytes; speed_ms may be negative: cast to unsigned long), "
                 "1 <= cols <= 40; the place of the lcd.animate call sites is not restricted any more (before the main loop, inside it, inside functions, at any block depth: the two findings that "
                 "excluded the main loop and defs are repaired, kind=fixed, and suppress nothing); a call site inside the main loop is generated under a run-once guard (an unguarded one restarts its animation in every pass - by design of animate); "
                 "sketches that are compiled use bare `except:` handlers only (a named exception class becomes catch (<Class> &), undeclared on any core: C06)",
        "unmodelled": ["device: row outside the display (library clamps the row); speed_ms >= 2^W (the unsigned cast wraps it: modelled by ulong_cast, but the rate-limit theorems assume speed_ms < 2^W); "
                       "the executed firmware has W = 64 only (g++ x86-64) - the theorems quantify over W, the 32-bit AVR arithmetic itself is not executed; "
                       "across the roll-over of millis() the model is exact (C18_rollover_trace_device_partial) but the property's oracle is not evaluated there (register values are not non-decreasing: outside the quantifier); "
                       "a step taken in the millisecond in which millis() reads 0 is followed by an immediate step (C18_rollover_zero_reading_refuted: outside the quantifier, remark only)",
                       "device: DDRAM addressing beyond 40 columns / 4-row interleaving (shown unreachable by C18_frame_geometry_device)",
                       "host: non-int now_ms / speed_ms; what begin() does to running animations is modelled (registry cleared) and compared but not judged by the oracle (not the statement's subject); "
                       "the registry key is modelled as the triple (style, row, count) its string is rendered from (rendered by the harness for the comparison with the real keys)"],
        "trusted_base": C.COMMON_TRUSTED + ["harness/impl/c18_impl.py (real LCD object; buffer item assignments recorded by a list subclass; time.sleep replaced by a counter; histories: the state object a successful animate call added to lcd.animations is remembered by identity and looked up among lcd.animations.values() after every call)",
                                            "mock/LiquidCrystal.h + mock_core.cpp (cursor-addressed DDRAM, LW/LD events, scripted millis() incl. the clockbase offset that wraps modulo 2^64 like a real counter)", "g++ 12 -O0",
                                            "harness/fw.py, transpile_impl.py"],
    })
    ctx.assumptions += ["tick timestamps are positive and non-decreasing (the property's quantifier)", f"unsigned long has {WBITS} bits in the executed firmware (g++ x86-64); the device theorems quantify over the width W", "device text literals contain no control characters, quotes or backslashes (string-literal escaping is C06's subject)"]
