"""C19 - host actuator models keep their invariants under every operation history.

Runs the three units of the property (Led + RGBLed, Servo, DCMotor), each with its own Coq
theorems (coq/Props/<unit>.v), extracted model (coq/Wire/<unit>W.v), implementation runner and
property oracle, and merges their coverage into one evidence file."""
from __future__ import annotations

from harness import common as C
from harness.props import c19_led, c19_motor, c19_servo

UNITS = ["C19_led", "C19_servo", "C19_motor"]
MODS = {"C19_led": c19_led, "C19_servo": c19_servo, "C19_motor": c19_motor}

META = {
    "id": "C19",
    "technique": "Coq proof (invariants by induction over all operation histories of hand-written Gallina models of the four host actuator classes) + extracted-model correspondence with the real classes + property oracle on the real objects",
    "level_text": " ".join(MODS[u].META_PART for u in UNITS),
    "level_note": "Trusted: Coq kernel, the translator plug-ins (harness/gen/signatures.py, harness/gen/c19_motor.py), extraction (ExtrOcamlBasic), OCaml driver, the implementation runners that wrap the real classes and the value comparison. The theorems are about the models (floats = exact rationals); the correspondence check bounds their distance from the Python classes to 1e-9 on the generated inputs.",
    "design_ref": "DESIGN.md section 4 C19, Appendix A.1-A.4, A.7",
}


def run(ctx: C.Ctx):
    parts = {}
    for u in UNITS:
        try:
            parts[u] = MODS[u].run_unit(ctx)
        except Exception as e:  # one unit blowing up must not hide what the others found
            import traceback
            ctx.disagree(f"{u}: harness exception {type(e).__name__}: {e}", None, None, traceback.format_exc()[-2000:])
    cov = ctx.coverage
    cov["evaluations"] = sum(p["evaluations"] for p in parts.values())
    cov["distinct_nontrivial"] = sum(p["distinct_nontrivial"] for p in parts.values())
    cov["rule"] = "  ||  ".join(f"[{u}] {p['rule']}" for u, p in parts.items())
    cov["samples"] = [{"unit": u, "sample": s} for u, p in parts.items() for s in p["samples"][:3]]
    cov["distribution"] = {u: p["distribution"] for u, p in parts.items()}
    cov["guard"] = "  ||  ".join(f"[{u}] {p['guard']}" for u, p in parts.items())
    cov["unmodelled"] = [f"[{u}] {x}" for u, p in parts.items() for x in p["unmodelled"]]
    cov["units"] = {u: {"evaluations": p["evaluations"], "distinct_nontrivial": p["distinct_nontrivial"]} for u, p in parts.items()}
    trusted = list(C.COMMON_TRUSTED)
    for p in parts.values():
        for t in p["trusted_base"]:
            if t not in trusted:
                trusted.append(t)
    cov["trusted_base"] = trusted
    for p in parts.values():
        for a in p["assumptions"]:
            if a not in ctx.assumptions:
                ctx.assumptions.append(a)


def replay(data):
    """./check replay <file>: each unit recognises its own recorded cases (Led/RGBLed cases are lists,
    Servo/DCMotor cases are {"calls": [...], "json": {...}})"""
    case = data.get("case")
    if isinstance(case, dict):
        units = ["C19_servo", "C19_motor"]
    elif isinstance(case, list):
        units = ["C19_led"]
    else:
        print("nothing to replay: the file records a broken proof / correspondence without a case")
        return 0
    rc = 0
    for u in units:
        rc = max(rc, MODS[u].replay_unit(data) or 0)
    if rc == 0:
        print("not reproduced on the current tree")
    return rc
