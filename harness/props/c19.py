"""C19 - host actuator models keep their invariants under every operation history.

TEMPORARY property module of work package wp/c19motor: runs only unit C19_motor
(Servo + DCMotor).  The final module lists UNITS = ["C19_led", "C19_motor"]."""
from __future__ import annotations

from harness import common as C
from harness.props import c19_motor

UNITS = ["C19_motor"]

META = {
    "id": "C19",
    "technique": "Coq proof (invariants by induction over all operation histories of Gallina models of the host classes) + extracted-model correspondence with the real classes + property oracle on the real objects",
    "level_text": c19_motor.META_PART,
    "level_note": "Trusted: Coq kernel, translator plug-in harness/gen/c19_motor.py, extraction (ExtrOcamlBasic), OCaml driver, the implementation runner that wraps the real classes. The theorems are about the models (floats = exact rationals); the correspondence check bounds their distance from the Python classes to 1e-9.",
    "design_ref": "DESIGN.md section 4 C19, Appendix A.1-A.4, A.7",
}


def run(ctx: C.Ctx):
    part = c19_motor.run_unit(ctx)
    ctx.coverage.update({k: part[k] for k in ("evaluations", "distinct_nontrivial", "rule", "samples", "distribution", "guard", "unmodelled")})
    ctx.coverage["units"] = {part["unit"]: {"evaluations": part["evaluations"], "distinct_nontrivial": part["distinct_nontrivial"]}}
    ctx.coverage["trusted_base"] = C.COMMON_TRUSTED + part["trusted_base"]
    ctx.assumptions += part["assumptions"]


def replay(data):
    return c19_motor.replay(data)
