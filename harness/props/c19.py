"""C19 - host actuator invariants under every history (TEMPORARY single-unit driver of the
C19_led work package; the integrator replaces it by the driver that runs all units)."""
from __future__ import annotations

from harness import common as C
from harness.props import c19_led

UNITS = ["C19_led"]

META = {
    "id": "C19",
    "technique": "Coq proof (induction over operation sequences of hand-written Gallina models of the host actuator classes) + extracted-model correspondence with the real classes + property oracle on the real objects",
    "level_text": c19_led.META_PART,
    "level_note": "Trusted: Coq kernel, extraction (ExtrOcamlBasic), OCaml driver, the implementation runners and value comparison. The theorems are about the models; the correspondence check bounds their distance from the Python classes.",
    "design_ref": "DESIGN.md section 4 C19, Appendix A.1-A.4, A.7",
}


def run(ctx: C.Ctx):
    part = c19_led.run_unit(ctx)
    ctx.coverage.update({k: v for k, v in part.items() if k not in ("trusted_base", "assumptions")})
    ctx.coverage["trusted_base"] = C.COMMON_TRUSTED + part["trusted_base"]
    ctx.assumptions += part["assumptions"]


def replay(data):
    return c19_led.replay_unit(data)
