"""Unit C19_led of property C19: host classes Led and RGBLed (invariants under every history).

Two engines (AGENT_GUIDE hard rule 5):
  * correspondence: every generated operation sequence runs through the extracted Coq model
    (coq/Wire/C19_ledW.v) and through the real classes (harness/impl/c19_led_impl.py); result
    kind, return value, full attribute snapshot, recorded sleeps and level events must be equal
    after every op (ints and types exact, float values to 1e-9 relative);
  * property oracle: the C19 clauses evaluated directly on what the real objects did.

`run_unit(ctx)` is called by harness/props/c19.py; it reports through ctx and returns its
coverage part."""
from __future__ import annotations

import json
from collections import Counter
from fractions import Fraction

from harness import common as C

UNIT = "C19_led"
IMPL = "c19_led_impl.py"

META_PART = (
    "Led/RGBLed (unit C19_led): theorems C19_led_* / C19_rgb_* (coq/Props/C19_led.v) are proved for all "
    "operation sequences and all int/float/bool/object arguments about hand-written Gallina models of "
    "Led.py and RGBLed.py (exact order of checks and raise points); the extracted models are run against "
    "the real classes on exhaustive short sequences over a boundary alphabet from several seed states plus "
    "seeded random sequences (length <= 15, a few of 40..120), comparing result, return value, every attribute, sleeps and "
    "level events after every call.  Calls whose arguments are DERIVED from the state they meet (coq/Host/RelArgs.v: the colour "
    "shown, its neighbours, permutations, bool/float spellings) are generated as state-relative arguments, resolved against the "
    "model state by the extracted model and against the public getters by the implementation runner; C19_rgb_blink_total "
    "(acceptance of blink is a function of the arguments alone; an accepted blink returns exactly the object it met, original "
    "colour written last), C19_rgb_blink_state_neutral / _history_neutral (no hypothesis on arguments or outcome), "
    "C19_rgb_blink_own_colour, C19_rgb_fade_total (acceptance of fade: a float `steps` is accepted exactly when the one-step "
    "shortcut applies - duration 0 or target == colour shown), C19_rgb_fade_own_colour, C19_rgb_fade_float_steps_elsewhere, "
    "C19_rgb_set_color_own_colour, C19_rgb_relative_arguments are proved for every state satisfying the invariant."
)

LED_CODES = {"on": 0, "off": 1, "get_state": 2, "get_brightness": 3, "set_brightness": 4, "toggle": 5,
             "blink": 6, "fade_in": 7, "fade_out": 8, "flash_pattern": 9}
RGB_CODES = {"pins": 0, "get_color": 1, "get_state": 2, "set_color": 3, "on": 4, "off": 5, "fade": 6, "blink": 7}
KINDS = {0: "ValueError", 1: "TypeError"}

# defaults of the signatures as the property oracle needs them: re-read from the real classes on
# every run (load_defaults), so that the oracle judges a call by the arguments it really received
# (the model has its own copy; a changed default shows up as a correspondence disagreement)
LED_DEFAULTS = {"blink": [None, 1], "fade_in": [5, 10], "fade_out": [5, 10], "flash_pattern": [None, 200]}
RGB_DEFAULTS = {"on": [255, 255, 255], "fade": [None, None, None, 1000, 50], "blink": [None, None, None, 1, 200]}
EXPECTED_PARAMS = {
    "Led": {"__init__": ["pin"], "set_brightness": ["value"], "blink": ["duration_ms", "times"], "fade_in": ["step", "delay_ms"],
            "fade_out": ["step", "delay_ms"], "flash_pattern": ["pattern", "delay_ms"]},
    "RGBLed": {"__init__": ["red_pin", "green_pin", "blue_pin"], "set_color": ["red", "green", "blue"], "on": ["red", "green", "blue"],
               "fade": ["red", "green", "blue", "duration_ms", "steps"], "blink": ["red", "green", "blue", "times", "delay_ms"]},
}


def load_defaults(ctx):
    """signature defaults of the current classes; a renamed/reordered parameter breaks the tie (positional calls)"""
    sig = C.run_impl(IMPL, {"signatures": True})
    for cls, table in (("Led", LED_DEFAULTS), ("RGBLed", RGB_DEFAULTS)):
        for meth, names in EXPECTED_PARAMS[cls].items():
            got = sig.get(cls, {}).get(meth)
            if got is None or [g[0] for g in got] != names:
                ctx.disagree(f"{cls}.{meth}: positional parameters are no longer {names}", [cls, meth], names, got)
                continue
            if meth in table:
                table[meth] = [g[2] if g[1] else None for g in got]


# ----------------------------------------------------------------------------------------------
# encoding
# ----------------------------------------------------------------------------------------------

def is_num(v):
    return isinstance(v, (int, float)) and not isinstance(v, str)


SPELL = {"int": 0, "bool": 1, "float": 2}


def cur(i=0, delta=0, sp="int"):
    """state-relative argument (coq/Host/RelArgs.v): channel i of the colour shown (Led: the brightness) + delta"""
    return {"cur": [i, delta, sp]}


def is_rel(v):
    return isinstance(v, dict) and "cur" in v


def wnum(v):
    if is_rel(v):
        i, d, sp = v["cur"]
        return [4, i, d, SPELL[sp]]
    if isinstance(v, bool):
        return [2, v]
    if isinstance(v, int):
        return [0, v]
    if isinstance(v, float):
        return [1, Fraction(v)]
    return [3]


def wire_case(case):
    cls, cargs, ops = case
    wops = []
    for op in ops:
        name, args = op[0], list(op[1:])
        if cls == "Led":
            if name == "flash_pattern":
                wops.append([9, [wnum(e) for e in args[0]]] + [wnum(a) for a in args[1:]])
            else:
                wops.append([LED_CODES[name]] + [wnum(a) for a in args])
        else:
            wops.append([RGB_CODES[name]] + [wnum(a) for a in args])
    return [0 if cls == "Led" else 1, [wnum(a) for a in cargs], wops]


def m_num(w):
    """model pynum -> comparable form"""
    if w[0] == 0:
        return ["i", w[1]]
    if w[0] == 1:
        return ["f", C.wq(w[1])]
    if w[0] == 2:
        return ["b", bool(w[1])]
    return ["obj"]


def m_ret(w):
    if w[0] == 0:
        return ["n"]
    if w[0] == 1:
        return ["b", bool(w[1])]
    if w[0] == 2:
        return ["i", w[1]]
    return ["t", [m_num(x) for x in w[1]]]


def m_snap(cls, w):
    if cls == "Led":
        return {"pin": m_num(w[0]), "state": ["b", bool(w[1])], "brightness": ["i", w[2]]}
    return {"_pins": ["t", [m_num(x) for x in w[0]]], "_color": ["t", [["i", z] for z in w[1]]],
            "_state": ["b", bool(w[2])]}


def m_events(w):
    out = []
    for e in w:
        if e[0] == 0:
            out.append(["s", C.wq(e[1])])
        else:
            out.append(["l", [["i", z] for z in e[1]]])
    return out


def m_args(w):
    """resolved arguments as the model used them: pynums, a flash_pattern's entries as a nested list"""
    return [["L", [m_num(e) for e in x]] if (x and isinstance(x[0], list)) or x == [] else m_num(x) for x in w]


def enc_py(v):
    """a concrete Python argument (as the implementation runner reports it) in the comparable form"""
    if isinstance(v, bool):
        return ["b", v]
    if isinstance(v, int):
        return ["i", v]
    if isinstance(v, float):
        return ["f", v]
    if isinstance(v, list):
        return ["L", [enc_py(e) for e in v]]
    return ["n"]


def same_arg(m, i) -> bool:
    if m[0] == "L":
        return i[0] == "L" and len(m[1]) == len(i[1]) and all(same_arg(a, b) for a, b in zip(m[1], i[1]))
    return same_val(m, i)


def concrete_case(case, r):
    """the case with every state-relative argument replaced by the value the implementation runner resolved it to:
    what the oracle judges and what a replay file records"""
    cls, cargs, ops = case
    if not any(is_rel(a) or (isinstance(a, list) and any(is_rel(e) for e in a)) for op in ops for a in op[1:]):
        return case
    return [cls, cargs, [[op[0]] + list(rec["args"]) for op, rec in zip(ops, r["ops"])] + [list(o) for o in ops[len(r["ops"]):]]]


def decode_model(cls, w):
    if w == [2]:
        return {"undecodable": True}
    ctor, ops = w
    if ctor[0] == 1:
        return {"ctor": [KINDS[ctor[1]]], "ops": []}
    out = {"ctor": ["ok", m_snap(cls, ctor[1])], "ops": []}
    for o in ops:
        rec = {"res": "ok" if o[0] == 0 else KINDS[o[1]],
               "ret": m_ret(o[1]) if o[0] == 0 else ["n"],
               "snap": m_snap(cls, o[2]), "events": m_events(o[3]), "args": m_args(o[4])}
        out["ops"].append(rec)
    return out


def close(a, b) -> bool:
    a, b = Fraction(a), Fraction(b)
    if a == b:
        return True
    return abs(a - b) <= Fraction(1, 10 ** 9) * max(abs(a), abs(b))


def same_val(m, i) -> bool:
    """model value m (comparable form) against implementation enc i"""
    t = m[0]
    if t == "obj":
        return i[0] in ("n", "o")
    if t == "f":
        return i[0] == "f" and close(m[1], i[1])
    if t == "t":
        return i[0] == "t" and len(i[1]) == len(m[1]) and all(same_val(a, b) for a, b in zip(m[1], i[1]))
    return list(m) == list(i)


def same_snap(m, i) -> bool:
    return set(m) == set(i) and all(same_val(m[k], i[k]) for k in m)


def enc_num(e):
    """numeric value of an implementation enc (None if not a number)"""
    if e[0] in ("i", "f"):
        return Fraction(e[1])
    if e[0] == "b":
        return Fraction(int(e[1]))
    return None


def same_events(m, i) -> bool:
    if len(m) != len(i):
        return False
    for a, b in zip(m, i):
        if a[0] != b[0]:
            return False
        if a[0] == "s":
            v = enc_num(b[1])
            if v is None or not close(a[1], v):
                return False
        else:
            if len(a[1]) != len(b[1]) or any(list(x) != list(y) for x, y in zip(a[1], b[1])):
                return False
    return True


def compare(ctx, case, m, r):
    """correspondence of one case; returns number of op results compared"""
    if m.get("undecodable"):
        ctx.disagree("model could not decode the case (harness bug)", case, m, r)
        return 0
    if m["ctor"][0] != r["ctor"][0] or (m["ctor"][0] == "ok" and not same_snap(m["ctor"][1], r["ctor"][1])):
        ctx.disagree("constructor: model vs implementation", case, m["ctor"], r["ctor"])
        return 0
    if len(m["ops"]) != len(r["ops"]):
        ctx.disagree("number of op results differs", case, len(m["ops"]), len(r["ops"]))
        return 0
    conc = concrete_case(case, r)
    for k, (a, b) in enumerate(zip(m["ops"], r["ops"])):
        what = None
        margs = a["args"]
        iargs = [enc_py(x) for x in b["args"]]
        if len(margs) != len(iargs) or not all(same_arg(x, y) for x, y in zip(margs, iargs)):
            ctx.disagree(f"{case[0]}.{case[2][k][0]} (op #{k}): a state-relative argument resolves differently (model state vs the real getters)",
                         {"relative": [case[0], case[1], case[2][:k + 1]], "concrete": [conc[0], conc[1], conc[2][:k + 1]]}, margs, iargs)
            return k
        if a["res"] != b["res"]:
            what = "result kind"
        elif not same_val(a["ret"], b["ret"]):
            what = "return value"
        elif not same_snap(a["snap"], b["snap"]):
            what = "state after the call"
        elif not same_events(a["events"], b["events"]):
            what = "sleep/level events"
        if what:
            ctx.disagree(f"{case[0]}.{case[2][k][0]} (op #{k}): {what}: model vs implementation",
                         [conc[0], conc[1], conc[2][:k + 1]], _brief(a), _brief(b))
            return k
    return len(m["ops"])


def _brief(rec):
    ev = rec["events"]
    return {"res": rec["res"], "ret": rec["ret"], "snap": rec["snap"],
            "events": ev if len(ev) <= 12 else ev[:6] + [f"... {len(ev) - 12} more ..."] + ev[-6:]}


# ----------------------------------------------------------------------------------------------
# property oracle (C19 clauses on the real objects)
# ----------------------------------------------------------------------------------------------

def full_args(cls, op):
    """arguments with the signature defaults filled in"""
    name, args = op[0], list(op[1:])
    d = (LED_DEFAULTS if cls == "Led" else RGB_DEFAULTS).get(name)
    if d:
        args = args + d[len(args):]
    return args


def entry_ok(e) -> bool:
    return is_num(e) and 0 <= e <= 255


def scalar_args(cls, op) -> bool:
    """the op can only fail because of a scalar argument"""
    if cls == "Led" and op[0] == "flash_pattern":
        return all(entry_ok(e) for e in op[1])
    return True


def inv_led(snap):
    b, s = snap.get("brightness"), snap.get("state")
    if not b or b[0] != "i" or not 0 <= b[1] <= 255:
        return f"brightness {b} not an int in 0..255"
    if s != ["b", b[1] > 0]:
        return f"state {s} but brightness {b[1]}"
    return None


def inv_rgb(snap):
    c, s = snap.get("_color"), snap.get("_state")
    if not c or c[0] != "t" or len(c[1]) != 3 or any(x[0] != "i" or not 0 <= x[1] <= 255 for x in c[1]):
        return f"colour {c} is not three ints in 0..255"
    if s != ["b", any(x[1] != 0 for x in c[1])]:
        return f"state {s} but colour {[x[1] for x in c[1]]}"
    return None


def monotone(seq, up: bool) -> bool:
    return all((a <= b) if up else (a >= b) for a, b in zip(seq, seq[1:]))


def getter_view(cls, get):
    """what the PUBLIC getters report, in the shape of the attribute snapshot (the statement's observation points are
    'public getters and attributes after every call': the invariant is judged on both views)"""
    if not get:
        return None
    if cls == "Led":
        return {"brightness": get.get("get_brightness"), "state": get.get("get_state")}
    return {"_color": get.get("get_color"), "_state": get.get("get_state")}


def oracle_case(ctx, case, r, safety_only=False):
    """evaluate the property clauses on the implementation's behaviour; returns #clauses evaluated.
    safety_only (IEEE-specials stream): invariant and atomicity of failing calls only"""
    cls, cargs, ops = case
    n = 0
    if r["ctor"][0] != "ok":
        return 0
    inv = inv_led if cls == "Led" else inv_rgb
    prev = r["ctor"][1]
    bad = inv(prev)
    n += 1
    if bad:
        ctx.fail(f"{cls}: invariant broken right after construction: {bad}", [cls, cargs, []], "invariant", prev, key=f"{cls}-inv-init")
        return n
    gprev = getter_view(cls, r.get("get0"))
    if gprev is not None:
        bad = inv(gprev)
        n += 1
        if bad:
            ctx.fail(f"{cls}: the public getters break the invariant right after construction: {bad}", [cls, cargs, []], "invariant", gprev, key=f"{cls}-ginv-init")
            return n
    for k, (op, rec) in enumerate(zip(ops, r["ops"])):
        sub = [cls, cargs, ops[:k + 1]]
        snap = rec["snap"]
        name = op[0]
        gview = getter_view(cls, rec.get("get"))
        # 1. invariant after every call, successful or failing (attributes, then public getters)
        bad = inv(snap)
        n += 1
        if bad:
            ctx.fail(f"{cls}: invariant broken after {name}: {bad}", sub, "invariant holds", snap, key=f"{cls}-inv-{name}")
            return n
        if gview is not None:
            bad = inv(gview)
            n += 1
            if bad:
                ctx.fail(f"{cls}: the public getters break the invariant after {name}: {bad}", sub, "invariant holds", gview, key=f"{cls}-ginv-{name}")
                return n
        # 2. a call that raises for an invalid scalar argument leaves the object exactly as it was
        if rec["res"] != "ok" and scalar_args(cls, op):
            n += 1
            if snap != prev:
                ctx.fail(f"{cls}.{name} raised {rec['res']} but changed the object", sub, prev, snap, key=f"{cls}-atomic-{name}")
                return n
            if gview is not None and gprev is not None and gview != gprev:
                ctx.fail(f"{cls}.{name} raised {rec['res']} but the getters report a changed object", sub, gprev, gview, key=f"{cls}-gatomic-{name}")
                return n
        if rec["res"] == "ok" and not safety_only:
            args = full_args(cls, op)
            sl = [enc_num(e[1]) for e in rec["events"] if e[0] == "s"]
            lv = [[x[1] for x in e[1]] for e in rec["events"] if e[0] == "l"]
            if any(v is None for v in sl):
                ctx.fail(f"{cls}.{name}: sleep called with a non-number", sub, "numbers", rec["events"][:8], key=f"{cls}-sleeparg-{name}")
                return n
            total = sum(sl, Fraction(0))
            if name == "blink":
                # blink sleeps exactly 2*times*duration_ms
                dur, times = (args[0], args[1]) if cls == "Led" else (args[4], args[3])
                want = 2 * Fraction(int(times)) * Fraction(dur)
                n += 1
                if not close(total, want):
                    ctx.fail(f"{cls}.blink slept {float(total)} ms in total, not 2*times*duration", sub, float(want), float(total), key=f"{cls}-blink-sleep")
                    return n
                if cls == "RGBLed":
                    n += 1
                    if snap["_color"] != prev["_color"]:
                        ctx.fail("RGBLed.blink did not end on its original colour", sub, prev["_color"], snap["_color"], key="RGBLed-blink-restore")
                        return n
                    if gview is not None and gprev is not None and gview["_color"] != gprev["_color"]:
                        ctx.fail("RGBLed.blink did not end on its original colour (get_color())", sub, gprev["_color"], gview["_color"], key="RGBLed-blink-restore")
                        return n
            if cls == "RGBLed" and name == "fade":
                target = [int(args[0]), int(args[1]), int(args[2])]
                start = [x[1] for x in prev["_color"][1]]
                dur, steps = args[3], args[4]
                n += 1
                if [x[1] for x in snap["_color"][1]] != target:
                    ctx.fail("RGBLed.fade did not end exactly on the target", sub, target, snap["_color"], key="RGBLed-fade-target")
                    return n
                shortcut = dur == 0 or start == target
                n += 1
                if not (len(lv) == int(steps) or (shortcut and 1 <= len(lv) <= int(steps))):
                    ctx.fail(f"RGBLed.fade took {len(lv)} steps, not steps={steps}", sub, int(steps), len(lv), key="RGBLed-fade-count")
                    return n
                for ch in range(3):
                    seq = [start[ch]] + [l[ch] for l in lv]
                    n += 1
                    if not monotone(seq, start[ch] <= target[ch]):
                        ctx.fail(f"RGBLed.fade: channel {ch} does not move monotonically", sub, "monotone", seq, key="RGBLed-fade-monotone")
                        return n
                n += 1
                if total > Fraction(dur) and not close(total, Fraction(dur)):
                    ctx.fail("RGBLed.fade slept longer than the requested duration", sub, float(Fraction(dur)), float(total), key="RGBLed-fade-duration")
                    return n
            if cls == "Led" and name in ("fade_in", "fade_out"):
                up = name == "fade_in"
                seq = [prev["brightness"][1]] + [l[0] for l in lv]
                n += 1
                if not monotone(seq, up) or any(not 0 <= v <= 255 for v in seq):
                    ctx.fail(f"Led.{name}: brightness does not move monotonically inside 0..255", sub, "monotone", seq[:40], key=f"Led-{name}-monotone")
                    return n
                n += 1
                if snap["brightness"][1] != (255 if up else 0):
                    ctx.fail(f"Led.{name} did not end on {255 if up else 0}", sub, 255 if up else 0, snap["brightness"], key=f"Led-{name}-end")
                    return n
                # no duration parameter: the requested time is (number of steps) * delay_ms,
                # one step = one intermediate level (the final write is not followed by a sleep)
                want = Fraction(max(0, len(lv) - 1)) * Fraction(args[1])
                n += 1
                if not close(total, want):
                    ctx.fail(f"Led.{name} slept {float(total)} ms, not steps*delay_ms = {float(want)}", sub, float(want), float(total), key=f"Led-{name}-sleep")
                    return n
        prev = snap
        gprev = gview
    return n


# ----------------------------------------------------------------------------------------------
# generators
# ----------------------------------------------------------------------------------------------

LED_SB_VALUES = [-1, 0, 1, 127, 128, 254, 255, 256, 0.5, 254.5, 255.0, 255.5, -0.5, 1.0, True, False, None, "x"]
LED_PATTERNS = [
    ([],), ([], 15), ([1],), ([0], 0), ([1, 0, 128, 0], 25), ([255, 128], 10), ([300],), ([1, 300], 5), ([1, -1, 5], 5),
    ([0.5], 5), ([1.0, True, 2.5, False], 2.5), ([None],), ([1, None], 5), ([256.0],), ([1, 0], -1), ([1, 0], None),
    ([128], True), ([2, 254, 255.0, 1.5], 0), ([1, "x"], 3), ([255, 0, 1, 0, 1], 1), ([300], -1), ([None], None),
]


def led_alphabet():
    ops = [["on"], ["off"], ["toggle"], ["get_state"], ["get_brightness"]]
    ops += [["set_brightness", v] for v in LED_SB_VALUES]
    for d in [-1, 0, 5, 2.5, None]:
        for t in [-1, 0, 1, 3, 1.5, 2.0, True, None]:
            ops.append(["blink", d, t])
    ops += [["blink", 5], ["blink", True, True], ["blink", -0.5, 1], ["blink", 0.0, 2], ["blink", 3, False], ["blink", "x", 0]]
    for m in ("fade_in", "fade_out"):
        for s in [0, 1, 5, 100, 300, 0.5, 2.5, -1, True, None, 7.0]:
            for d in [-1, 0, 3, 1.5, None]:
                ops.append([m, s, d])
        ops += [[m], [m, 50], [m, 0.25, 1], [m, False, 2], [m, 255, True], [m, 254.5, 2]]
    ops += [["flash_pattern", list(p[0])] + list(p[1:]) for p in LED_PATTERNS]
    return ops


def led_small_alphabet(big: bool):
    ops = [["on"], ["off"], ["toggle"], ["get_brightness"],
           ["set_brightness", -1], ["set_brightness", 0], ["set_brightness", 1], ["set_brightness", 255],
           ["set_brightness", 256], ["set_brightness", 0.5], ["set_brightness", True], ["set_brightness", None],
           ["blink", 5, 2], ["blink", -1, 1], ["blink", 5, 0], ["blink", 5, 2.0],
           ["fade_in", 100, 3], ["fade_in", 0, 3], ["fade_out", 100, 3], ["fade_out", 5, -1],
           ["flash_pattern", [1, 0, 128], 5], ["flash_pattern", [1, 300], 5]]
    if big:
        ops += [["get_state"], ["set_brightness", 254.5], ["set_brightness", 128], ["blink", None, 1], ["blink", 2.5, True],
                ["fade_in", 60.5, 1.5], ["fade_out", 2.5, 0], ["fade_in", None, 1], ["flash_pattern", [0.5, 1.0], 0],
                ["flash_pattern", [], 5]]
    return ops


LED_SEEDS = [
    ([], []), ([], [["on"]]), ([7], [["set_brightness", 1]]), ([], [["set_brightness", 127]]),
    ([None], [["set_brightness", 128]]), ([], [["set_brightness", 254]]), ([2.5], [["on"], ["off"]]),
    ([True], [["set_brightness", 0.5]]), ([], [["set_brightness", True]]), (["A0"], [["set_brightness", 200], ["toggle"], ["toggle"]]),
]

RGB_CH = [-1, 0, 1, 128, 255, 256, 1.0, True, None]
RGB_PINS = [-1, 0, 1, 13, 2.5, 1.0, True, False, None, "A0"]


def rgb_alphabet():
    ops = [["pins"], ["get_color"], ["get_state"], ["off"]]
    for pos in range(3):
        for v in RGB_CH:
            a = [10, 20, 30]
            a[pos] = v
            ops.append(["set_color"] + a)
    ops += [["set_color", 0, 0, 0], ["set_color", 255, 255, 255], ["set_color", None, -1, 0], ["set_color", -1, None, 0],
            ["set_color", 0, -1, None], ["set_color", 256, 1.0, 0], ["set_color", True, False, True], ["set_color", 0, 0, 1]]
    ops += [["on"], ["on", 10], ["on", 10, 20], ["on", 10, 20, 30], ["on", None], ["on", 256], ["on", True, False, 0],
            ["on", 1.0], ["on", 0, 0, 0]]
    for d in [-1, 0, 100, 2.5, None]:
        for s in [-1, 0, 1, 2, 3, 50, 2.5, True, None]:
            ops.append(["fade", 10, 200, 30, d, s])
    ops += [["fade", 1, 0, 0, 100, 2], ["fade", 1, 0, 0, 100, 3], ["fade", 255, 255, 255, 1, 50], ["fade", 0, 0, 0, 0.0, 5],
            ["fade", 3, 2, 1, False, 5], ["fade", None, 0, 0, 100, 2], ["fade", 0, 256, 0, 100, 2], ["fade", 0, 0, 1.0, -1, 2],
            ["fade", None, 0, 0, 100, 0], ["fade", 256, 0, 0, None, 2], ["fade", 255, 0, 128], ["fade", 0, 0, 0, 10],
            ["fade", 0, 0, 0], ["fade", True, 255, 0, 8, 4], ["fade", 5, 5, 5, 100, 2.0], ["fade", 10, 200, 30, 0, 2.5],
            ["fade", 128, 127, 129, 7, 7], ["fade", 0, 0, 0, 100, 2.5]]
    for t in [-1, 0, 1, 3, 1.5, 2.0, True, None]:
        for d in [-1, 0, 5, 2.5, None]:
            ops.append(["blink", 255, 0, 0, t, d])
    ops += [["blink", 1, 2, 3], ["blink", 1, 2, 3, 2], ["blink", None, 0, 0, 1, 5], ["blink", 0, 256, 0, 1, 5], ["blink", 0, 0, 1.0, 0, 5],
            ["blink", 256, 0, 0, 1, -1], ["blink", True, True, True, True, True], ["blink", 0, 0, 0, 2, 0.0]]
    return ops


def rgb_small_alphabet(big: bool):
    ops = [["off"], ["on"], ["get_color"], ["set_color", 1, 0, 0], ["set_color", 0, 0, 255], ["set_color", 10, 256, 30],
           ["set_color", 10, 20, None], ["set_color", -1, 20, 30], ["set_color", 1.0, 2, 3], ["set_color", True, 0, 0],
           ["fade", 10, 200, 30, 100, 3], ["fade", 0, 0, 0, 100, 2], ["fade", 10, 200, 30, 0, 5], ["fade", 10, 200, 30, 100, 2.5],
           ["fade", 10, 200, 30, -1, 2], ["fade", 10, 200, 256, 100, 2], ["fade", 255, 255, 255, 2.5, 50],
           ["blink", 255, 0, 0, 2, 5], ["blink", 255, 0, 0, 0, 5], ["blink", 255, 0, 0, 2.0, 5], ["blink", 255, None, 0, 1, 5],
           ["blink", 0, 0, 7, True, 2.5]]
    if big:
        ops += [["pins"], ["get_state"], ["on", 0, 0, 0], ["on", 256], ["fade", 1, 0, 0, 100, 2], ["fade", 5, 5, 5, None, 2],
                ["fade", 0, 1, 2, 7, True], ["blink", 1, 2, 3, 1, -1], ["blink", 1, 2, 3], ["set_color", 255, 255, 254]]
    return ops


RGB_SEEDS = [
    ([9, 10, 11], []), ([9, 10, 11], [["on"]]), ([0, 0, 0], [["set_color", 1, 0, 0]]), ([True, 5, 6], [["set_color", 0, 0, 1]]),
    ([3, 5, 6], [["set_color", 10, 200, 30]]), ([3, 5, 6], [["set_color", 255, 255, 254]]), ([9, 10, 11], [["set_color", 128, 128, 128]]),
    ([9, 10, 11], [["on"], ["off"]]), ([9, 10, 11], [["set_color", True, 0, 0]]), ([1, 2, 3], [["fade", 1, 0, 0, 100, 2]]),
]


def rgb_ctor_cases():
    cases = []
    for pos in range(3):
        for v in RGB_PINS:
            a = [9, 10, 11]
            a[pos] = v
            cases.append(["RGBLed", a, [["pins"], ["get_color"], ["get_state"]]])
    for a in ([-1, None, 3], [None, -1, 3], [3, -1, None], [3, None, -1], [2.5, -1, -1], [-1, 2.5, 0], [True, False, True], [0, 0, 0]):
        cases.append(["RGBLed", list(a), [["pins"]]])
    return cases


# ---- state-relative families (coq/Host/RelArgs.v): arguments derived from the state the call meets ----

OWN = [cur(0), cur(1), cur(2)]

RGB_REL_STATES = [
    [], [["set_color", 10, 200, 30]], [["on"]], [["set_color", 0, 0, 1]], [["set_color", 1, 0, 0]], [["set_color", 255, 0, 0]],
    [["set_color", 0, 255, 128]], [["set_color", 254, 255, 1]], [["fade", 7, 77, 177, 10, 4]],
    [["set_color", 5, 6, 7], ["blink", 1, 2, 3, 1, 0]], [["set_color", 9, 9, 9], ["set_color", 256, 0, 0]],
    [["set_color", True, True, False]], [["on", 1, 1, 1]], [["on"], ["off"]], [["set_color", 128, 128, 128], ["fade", 128, 128, 127, 5, 2]],
]


def own_as(sp):
    return [cur(0, 0, sp), cur(1, 0, sp), cur(2, 0, sp)]


def rgb_rel_ops():
    ops = []
    # blink in the colour shown
    for t, d in [(1, 0), (1, 5), (2, 2.5), (3, 0.0), (True, True), (7, 1)]:
        ops.append(["blink"] + OWN + [t, d])
    ops += [["blink"] + OWN, ["blink"] + OWN + [2], ["blink"] + own_as("bool") + [2, 5], ["blink"] + own_as("float") + [1, 5],
            ["blink"] + OWN + [0, 5], ["blink"] + OWN + [2.0, 5], ["blink"] + OWN + [1, -1], ["blink"] + OWN + [None, 5], ["blink"] + OWN + [1, None],
            ["blink", cur(1), cur(2), cur(0), 2, 5], ["blink", cur(2), cur(1), cur(0), 1, 0], ["blink", cur(0), 0, 0, 1, 5], ["blink", 0, cur(1), cur(2), 2, 0],
            ["blink", cur(0), cur(0), cur(0), 1, 5]]
    for pos in range(3):
        for dz in (1, -1):
            a = list(OWN)
            a[pos] = cur(pos, dz)
            ops.append(["blink"] + a + [2, 5])
            ops.append(["set_color"] + a)
            ops.append(["fade"] + a + [10, 3])
    # fade to the colour shown / to its neighbours (the one-step shortcut is decided by exactly this relation)
    for d, n in [(100, 3), (0, 5), (100, 2.5), (2.5, True), (100, 1), (100, 2.0), (100, 0), (-1, 3), (None, 3), (100, None), (0, 2.5)]:
        ops.append(["fade"] + OWN + [d, n])
    ops += [["fade"] + OWN, ["fade"] + OWN + [10], ["fade"] + own_as("bool") + [10, 2], ["fade"] + own_as("float") + [10, 2],
            ["fade", cur(0, 1), cur(1, 1), cur(2, 1), 10, 4], ["fade", cur(0, -1), cur(1, -1), cur(2, -1), 10, 4],
            ["fade", cur(0, 2), cur(1, -2), cur(2), 10, 7], ["fade", cur(0, 3), cur(1, -3), cur(2, 1), 8, 16],
            ["fade", cur(0, 1), cur(1), cur(2), 100, 2.5], ["fade", cur(0), cur(1), cur(2, -1), 100, 2.0],
            ["fade", cur(1), cur(2), cur(0), 10, 3], ["fade", cur(0), 0, 0, 10, 2], ["fade", cur(0, 40), cur(1, -40), cur(2, 7), 20, 5]]
    # set_color / on with the colour shown
    ops += [["set_color"] + OWN, ["set_color"] + own_as("bool"), ["set_color"] + own_as("float"), ["set_color", cur(2), cur(0), cur(1)],
            ["on"] + OWN, ["on"] + OWN[:1], ["on"] + OWN[:2], ["on", cur(0, 0, "bool")], ["set_color", cur(0), cur(1), None]]
    return ops


def rgb_rel_small():
    return [["blink"] + OWN + [1, 0], ["blink"] + OWN + [2, 2.5], ["blink", cur(0, 1), cur(1), cur(2), 1, 5], ["blink"] + OWN + [0, 5],
            ["fade"] + OWN + [10, 3], ["fade", cur(0, 1), cur(1, -1), cur(2), 10, 2], ["fade"] + OWN + [10, 2.5], ["set_color", cur(0, 1), cur(1), cur(2)],
            ["set_color", 0, 0, 0], ["on"], ["blink", 9, 8, 7, 1, 0], ["set_color", cur(1), cur(2), cur(0)]]


LED_REL_STATES = [[], [["on"]], [["set_brightness", 1]], [["set_brightness", 254]], [["set_brightness", 128]],
                  [["set_brightness", 255], ["toggle"]], [["set_brightness", 77], ["set_brightness", 256]], [["fade_in", 100, 1]]]


def led_rel_ops():
    ops = []
    for dz in (-1, 0, 1, 2, -128):
        for sp in ("int", "bool", "float"):
            ops.append(["set_brightness", cur(0, dz, sp)])
    ops += [["flash_pattern", [cur(), cur(0, 1), 0, cur()], 5], ["flash_pattern", [cur(0, -1), cur()], 0], ["flash_pattern", [cur(0, 0, "bool")]],
            ["blink", cur(), 2], ["blink", cur(0, 0, "float"), True], ["blink", 5, cur()], ["fade_in", cur(), 1], ["fade_out", cur(), 1],
            ["fade_in", cur(0, 1), 0], ["fade_out", cur(0, 0, "float"), 2.5], ["fade_in", 5, cur()]]
    return ops


def pick(rng, ok, boundary, invalid, p_inv=0.1):
    x = rng.random()
    if x < 0.7:
        return ok()
    if x < 1.0 - p_inv:
        return rng.choice(boundary)
    return rng.choice(invalid)


def rand_led_op(rng):
    k = rng.choices(["set_brightness", "on", "off", "toggle", "get_state", "get_brightness", "blink", "fade_in", "fade_out", "flash_pattern"],
                    [25, 5, 5, 8, 3, 3, 12, 12, 12, 15])[0]
    if k in ("on", "off", "toggle", "get_state", "get_brightness"):
        return [k]
    def bri():
        return rng.randint(0, 255) if rng.random() < 0.8 else rng.randint(0, 510) / 2
    def delay():
        return pick(rng, lambda: rng.choice([0, 1, 5, 10, 2.5, 0.25, 100, 7.0]), [0, 0.0, True, False], [-1, -0.5, None])
    if k == "set_brightness":
        if rng.random() < 0.15:
            return [k, cur(0, rng.choice([0, 0, 1, -1, 2, -2, 100, -100]), rng.choice(["int", "int", "bool", "float"]))]
        return [k, pick(rng, bri, [0, 1, 254, 255, 255.0, 0.5, 254.5, True, False], [-1, 256, -0.5, 255.5, None, "x", 1000, -1000, 10 ** 20, -10 ** 20, 1e300])]
    if k == "blink":
        op = [k, delay()]
        if rng.random() < 0.85:
            op.append(pick(rng, lambda: rng.randint(1, 4), [1, True], [0, -1, 1.5, 2.0, None, False]))
        return op
    if k in ("fade_in", "fade_out"):
        op = [k]
        if rng.random() < 0.9:
            op.append(pick(rng, lambda: rng.choice([1, 2, 5, 17, 50, 100, 255, 300, 0.5, 2.5, 7.75, 64.0, 33]),
                           [1, True, 255, 256, 1000, 254], [0, -1, -2.5, None, False, 0.0]))
            if rng.random() < 0.8:
                op.append(delay())
        return op
    pat = []
    for _ in range(rng.randint(0, 6)):
        pat.append(pick(rng, lambda: rng.choice([0, 1, rng.randint(2, 255), rng.randint(0, 510) / 2]),
                        [0, 1, 255, 1.0, True, False, 0.5, 255.0, 2], [-1, 256, None, 300.5], p_inv=0.04))
    op = [k, pat]
    if rng.random() < 0.8:
        op.append(delay())
    return op


def rand_rgb_op(rng):
    k = rng.choices(["set_color", "on", "off", "pins", "get_color", "get_state", "fade", "blink"], [25, 8, 6, 2, 3, 3, 30, 18])[0]
    if k in ("off", "pins", "get_color", "get_state"):
        return [k]
    def ch(pos, p_inv=0.04):
        if rng.random() < 0.18:     # derived from the colour shown: same channel mostly, small offsets, occasionally another spelling
            return cur(pos if rng.random() < 0.8 else rng.randrange(3), rng.choice([0, 0, 0, 0, 1, -1, 2, -3, 17, -60]),
                       rng.choice(["int", "int", "int", "int", "bool", "float"]))
        return pick(rng, lambda: rng.randint(0, 255), [0, 1, 254, 255, True, False], [-1, 256, 1.0, 128.5, None, "x", 10 ** 20, -10 ** 20], p_inv=p_inv)
    def col():
        x = rng.random()
        if x < 0.14:                # the colour shown itself
            return list(OWN)
        if x < 0.20:                # one channel off by one
            a = list(OWN)
            pos = rng.randrange(3)
            a[pos] = cur(pos, rng.choice([1, -1]))
            return a
        return [ch(0), ch(1), ch(2)]
    if k == "set_color":
        return [k] + col()
    if k == "on":
        return [k] + col()[:rng.choice([0, 1, 2, 3, 3, 3])]
    if k == "fade":
        op = [k] + col()
        if rng.random() < 0.9:
            op.append(pick(rng, lambda: rng.choice([1, 10, 100, 1000, 2.5, 0.75, 33, 64.0]), [0, 0.0, False, True, 1], [-1, -0.5, None], p_inv=0.06))
            if rng.random() < 0.9:
                op.append(pick(rng, lambda: rng.randint(1, 60), [1, 2, 3, True, 255, 256, 510], [0, -1, 2.5, 2.0, None, False], p_inv=0.06))
        return op
    op = [k] + col()
    if rng.random() < 0.9:
        op.append(pick(rng, lambda: rng.randint(1, 4), [1, True], [0, -1, 1.5, 2.0, None, False], p_inv=0.06))
        if rng.random() < 0.9:
            op.append(pick(rng, lambda: rng.choice([0, 1, 5, 10, 2.5, 0.25, 200]), [0, 0.0, True, False], [-1, -0.5, None], p_inv=0.06))
    return op


def generate(ctx):
    rng = ctx.rng
    thorough = ctx.tier == "thorough"
    cases = []
    tags = []

    def add(tag, cls, cargs, ops):
        cases.append([cls, list(cargs), [list(o) for o in ops]])
        tags.append(tag)

    # --- Led
    full = led_alphabet()
    small = led_small_alphabet(thorough)
    seeds1 = LED_SEEDS if thorough else [LED_SEEDS[0]] + rng.sample(LED_SEEDS[1:], 2)
    seeds2 = LED_SEEDS if thorough else [LED_SEEDS[3]] + rng.sample(LED_SEEDS[:3] + LED_SEEDS[4:], 1)
    for cargs, pre in seeds1:
        for o in full:
            add("led-single", "Led", cargs, pre + [o])
    for cargs, pre in seeds2:
        for a in small:
            for b in small:
                add("led-pair", "Led", cargs, pre + [a, b])
    for _ in range(4000 if thorough else 450):
        cargs = rng.choice([[], [], [13], [7], [None], [True], [2.5], ["A0"], [-1]])
        add("led-random", "Led", cargs, [rand_led_op(rng) for _ in range(rng.randint(1, 15))])
    # --- RGBLed
    for c in rgb_ctor_cases():
        add("rgb-ctor", *c)
    full = rgb_alphabet()
    small = rgb_small_alphabet(thorough)
    seeds1 = RGB_SEEDS if thorough else [RGB_SEEDS[0]] + rng.sample(RGB_SEEDS[1:], 2)
    seeds2 = RGB_SEEDS if thorough else [RGB_SEEDS[4]] + rng.sample(RGB_SEEDS[:4] + RGB_SEEDS[5:], 1)
    for cargs, pre in seeds1:
        for o in full:
            add("rgb-single", "RGBLed", cargs, pre + [o])
    for cargs, pre in seeds2:
        for a in small:
            for b in small:
                add("rgb-pair", "RGBLed", cargs, pre + [a, b])
    for _ in range(4000 if thorough else 450):
        cargs = rng.choice([[9, 10, 11], [9, 10, 11], [0, 1, 2], [True, 5, 6], [3, 3, 3], [9, -1, 11], [9, 10, None], [2.5, 1, 2]])
        add("rgb-random", "RGBLed", cargs, [rand_rgb_op(rng) for _ in range(rng.randint(1, 15))])
    # --- arguments derived from the state the call meets (both tiers: every op of the family after every state prefix,
    #     followed by the getters; then ordered pairs over a reduced family)
    for pre in RGB_REL_STATES:
        for o in rgb_rel_ops():
            add("rgb-relative", "RGBLed", [9, 10, 11], pre + [o, ["get_color"], ["get_state"]])
    rsmall = rgb_rel_small()
    for pre in (RGB_REL_STATES if thorough else [RGB_REL_STATES[1], RGB_REL_STATES[3], RGB_REL_STATES[8]]):
        for a in rsmall:
            for b in rsmall:
                add("rgb-relative-pair", "RGBLed", [9, 10, 11], pre + [a, b])
    for pre in LED_REL_STATES:
        for o in led_rel_ops():
            add("led-relative", "Led", [], pre + [o, ["get_brightness"], ["get_state"]])
    # --- long histories (the statement says "every sequence"; the streams above stop at 15 calls)
    for _ in range(60 if thorough else 8):
        add("rgb-long", "RGBLed", [9, 10, 11], [rand_rgb_op(rng) for _ in range(rng.randint(40, 120))])
        add("led-long", "Led", [], [rand_led_op(rng) for _ in range(rng.randint(40, 120))])
    return cases, tags


# ----------------------------------------------------------------------------------------------
# driver
# ----------------------------------------------------------------------------------------------

def arg_class(v):
    if isinstance(v, bool):
        return "bool"
    if isinstance(v, int):
        return "int"
    if isinstance(v, float):
        return "float-whole" if v == int(v) else "float-frac"
    if isinstance(v, list):
        return "list"
    return "object"


def relation_class(cls, prev, op, rec):
    """how the colour / brightness argument of a SUCCESSFUL call relates to the state it met (measured on the real object)"""
    if rec["res"] != "ok" or prev is None:
        return None
    try:
        if cls == "RGBLed" and op[0] in ("blink", "fade", "set_color") or (cls == "RGBLed" and op[0] == "on" and len(op) == 4):
            before = [x[1] for x in prev["_color"][1]]
            arg = [int(a) for a in op[1:4]]
            same = sum(1 for a, b in zip(arg, before) if a == b)
            lit = "lit" if any(before) else "black"
            if same == 3:
                return f"RGBLed.{op[0]}: colour == colour shown ({lit})"
            if sorted(arg) == sorted(before):
                return f"RGBLed.{op[0]}: a permutation of the colour shown"
            if same:
                return f"RGBLed.{op[0]}: {same} channel(s) equal to the colour shown"
            dirs = {(a > b) - (a < b) for a, b in zip(arg, before)}
            return f"RGBLed.{op[0]}: all channels differ ({'mixed directions' if len(dirs) > 1 else 'one direction'}, from {lit})"
        if cls == "Led" and op[0] == "set_brightness":
            b, a = prev["brightness"][1], int(op[1])
            return "Led.set_brightness: value == brightness" if a == b else ("Led.set_brightness: brightness +-1" if abs(a - b) == 1 else "Led.set_brightness: other")
    except Exception:  # noqa - an unexpected shape is the oracle's business, not the statistics'
        return None
    return None


def run_cases(cases):
    return C.run_impl(IMPL, {"cases": cases}, timeout=900)


def replay_findings(ctx):
    """replay every listed witness of this unit on the real code; KNOWN-FINDING iff it still fails"""
    for f in ctx.findings:
        if f.get("kind") == "fixed" or f.get("unit", UNIT) != UNIT or "witness" not in f:
            continue
        w = f["witness"]
        if not isinstance(w, dict) or w.get("cls") not in ("Led", "RGBLed"):
            continue
        case = [w["cls"], w.get("ctor", []), w["ops"]]
        r = run_cases([case])[0]
        probe = C.Ctx(ctx.id, ctx.tier, ctx.seed)
        probe.findings = []
        oracle_case(probe, case, r)
        if probe.failures:
            ctx.known(f"{f['id']}: {f['what']}")


NAN, INF = float("nan"), float("inf")


def specials_cases():
    """IEEE specials and non-dyadic finite floats are outside the models: implementation only, oracle = invariant + atomicity"""
    led_ops = [["set_brightness", NAN], ["set_brightness", INF], ["set_brightness", -INF], ["set_brightness", -0.0],
               ["blink", NAN, 1], ["blink", INF, 1], ["blink", 5, INF], ["blink", 5, NAN], ["blink", -INF, 1],
               ["fade_in", NAN, 1], ["fade_in", INF, 1], ["fade_in", 5, NAN], ["fade_in", 5, INF], ["fade_in", -INF, 1],
               ["fade_out", NAN, 1], ["fade_out", INF, 1], ["fade_out", 5, NAN], ["fade_out", 5, -INF],
               ["flash_pattern", [1, NAN, 0], 1], ["flash_pattern", [INF], 1], ["flash_pattern", [1, 0], NAN], ["flash_pattern", [1, 0], INF]]
    rgb_ops = [["set_color", NAN, 0, 0], ["set_color", 0, INF, 0], ["on", -INF], ["fade", 1, 2, 3, NAN, 2], ["fade", 1, 2, 3, INF, 2],
               ["fade", 1, 2, 3, 10, NAN], ["fade", 1, 2, 3, 10, INF], ["fade", NAN, 2, 3, 10, 2], ["blink", 1, 2, 3, NAN, 1],
               ["blink", 1, 2, 3, INF, 1], ["blink", 1, 2, 3, 1, NAN], ["blink", 1, 2, 3, 1, INF], ["blink", 1, 2, 3, 1, -INF]]
    # finite floats that are NOT short dyadic numbers (the exact-rational model and the float loop of fade_in/fade_out may
    # legitimately take a different number of steps on them, so they are not compared with the model): brightness arguments
    # one ulp around 0 and 255, non-dyadic fade steps (the running value current + step accumulates rounding), non-dyadic
    # durations of RGBLed.fade - implementation only, oracle = the EXACT invariant (0 <= brightness <= 255, ints; on iff > 0;
    # channels 0..255) after the call + atomicity of failing calls
    led_ops += [["set_brightness", 255.00000000000003], ["set_brightness", 254.99999999999997], ["set_brightness", -5e-324],
                ["set_brightness", 5e-324], ["set_brightness", -1e-17], ["set_brightness", 0.9999999999999999],
                ["fade_in", 0.1, 0], ["fade_in", 0.3, 0], ["fade_out", 0.7, 0], ["fade_out", 0.1, 0], ["fade_in", 51.00000000000001, 0],
                ["fade_in", 84.99999999999999, 0], ["fade_out", 254.99999999999997, 0], ["fade_in", 1e-3 + 127.5, 0.1],
                ["flash_pattern", [0.1, 254.99999999999997, 255.00000000000003, 1], 0], ["flash_pattern", [5e-324, 0.9999999999999999, 255.0], 0.1],
                ["blink", 0.1, 3], ["blink", 1 / 3, 2]]
    rgb_ops += [["fade", 1, 2, 3, 0.1, 7], ["fade", 255, 0, 128, 1 / 3, 3], ["fade", 0, 255, 1, 0.7, 50], ["fade", 254, 1, 255, 1e-3, 2],
                ["blink", 1, 2, 3, 2, 0.1], ["blink", 255, 255, 255, 3, 1 / 3]]
    cases = []
    for pre in ([], [["set_brightness", 128]], [["on"]]):
        cases += [["Led", [], pre + [o, ["get_brightness"]]] for o in led_ops]
    for pre in ([], [["set_color", 10, 200, 30]]):
        cases += [["RGBLed", [9, 10, 11], pre + [o, ["get_color"]]] for o in rgb_ops]
    cases += [["RGBLed", [NAN, 1, 2], []], ["RGBLed", [1, INF, 2], []]]
    return cases


def run_unit(ctx: C.Ctx) -> dict:
    n_fail0 = len(ctx.failures)
    load_defaults(ctx)
    cases, tags = generate(ctx)
    impl = run_cases(cases)
    have_model = bool(ctx.exes.get(UNIT))
    model = ctx.model([wire_case(c) for c in cases], unit=UNIT) if have_model else [None] * len(cases)

    op_kinds, res_kinds, arg_kinds, lens, by_tag = Counter(), Counter(), Counter(), Counter(), Counter(tags)
    relations = Counter()
    distinct = set()
    n_ops = n_cmp = n_clauses = n_rel_args = 0
    for rcase, r, m in zip(cases, impl, model):
        case = concrete_case(rcase, r)          # what the real object was actually called with
        n_rel_args += sum(1 for op in rcase[2] for a in op[1:] for e in (a if isinstance(a, list) else [a]) if is_rel(e))
        cls = case[0]
        lens[len(case[2])] += 1
        if r["ctor"][0] != "ok":
            res_kinds[f"{cls}.__init__:{r['ctor'][0]}"] += 1
        prev = r["ctor"][1] if r["ctor"][0] == "ok" else None
        for op, rec in zip(case[2], r["ops"]):
            n_ops += 1
            op_kinds[f"{cls}.{op[0]}"] += 1
            res_kinds[f"{cls}.{op[0]}:{rec['res']}"] += 1
            for a in op[1:]:
                arg_kinds[arg_class(a)] += 1
                if isinstance(a, list):
                    for e in a:
                        arg_kinds["entry:" + arg_class(e)] += 1
            if op[0] not in ("get_state", "get_brightness", "get_color", "pins"):
                distinct.add((cls, json.dumps(prev, sort_keys=True), json.dumps(op)))
            rel = relation_class(cls, prev, op, rec)
            if rel:
                relations[rel] += 1
            prev = rec["snap"]
        n_clauses += oracle_case(ctx, case, r)
        if m is not None:
            n_cmp += compare(ctx, rcase, decode_model(cls, m), r)
    replay_findings(ctx)
    # report the shortest failing history of each class first (ctx.finish keeps the first per key)
    ctx.failures[n_fail0:] = sorted(ctx.failures[n_fail0:], key=lambda f: (len(f["case"][2]), len(json.dumps(f["case"], default=str))))
    spec = specials_cases()
    n_spec = 0
    for case, r in zip(spec, run_cases(spec)):
        n_spec += len(r["ops"])
        n_clauses += oracle_case(ctx, case, r, safety_only=True)

    return {
        "evaluations": n_ops,
        "distinct_nontrivial": len(distinct),
        "rule": ("Led and RGBLed: (a) every op of a boundary alphabet (Led %d ops, RGBLed %d ops: each argument over "
                 "-1/0/1/mid/254/255/256, halves, whole floats, bools, None, a str; omitted arguments) after each of %s seed "
                 "prefixes; (b) all ordered pairs over a reduced alphabet (%d / %d ops) from %s seed states; (c) RGBLed constructor "
                 "pin combinations; (d) seeded random sequences of length 1..15 (about 70%% in-range, 20%% boundary, 10%% invalid "
                 "arguments; about 20%% of the colour arguments derived from the colour shown); (e) STATE-RELATIVE families (coq/Host/RelArgs.v): blink / fade / set_color / on "
                 "with the colour currently shown, its +-1 neighbours per channel, permutations, bool and float spellings, valid and invalid times / "
                 "delay / steps, after 15 RGBLed state prefixes (black, lit, reached by set_color / on / fade / blink / a failed call / bools), ordered "
                 "pairs of such calls, and Led.set_brightness / flash_pattern / blink / fade with the current brightness +-1 after 8 prefixes - resolved "
                 "independently against the model state and against the real getters; (f) long histories of 40..120 calls.  evaluations = method calls executed on the real objects and compared with the model; "
                 "distinct non-trivial = distinct (class, full state before the call, call) triples excluding pure getters"
                 % (len(led_alphabet()), len(rgb_alphabet()), "10" if ctx.tier == "thorough" else "3",
                    len(led_small_alphabet(ctx.tier == "thorough")), len(rgb_small_alphabet(ctx.tier == "thorough")),
                    "10" if ctx.tier == "thorough" else "2")),
        "samples": [cases[0], cases[len(cases) // 3], cases[len(cases) // 2], cases[-1]],
        "distribution": {"sequences": len(cases), "sequences_by_generator": dict(by_tag), "ops": n_ops,
                         "op_results_compared_with_model": n_cmp, "oracle_clauses_evaluated": n_clauses,
                         "specials_stream_ops_implementation_only": n_spec,
                         "state_relative_arguments_sent": n_rel_args,
                         "argument_vs_state_relations_of_successful_calls": dict(sorted(relations.items())),
                         "op_kinds": dict(op_kinds), "result_kinds": dict(res_kinds), "argument_kinds": dict(arg_kinds),
                         "sequence_lengths": {str(k): v for k, v in sorted(lens.items())}},
        "guard": ("atomicity of failing calls is demanded for every call whose failure can only come from a scalar argument "
                  "(all calls except Led.flash_pattern with a pattern that itself contains a rejected entry: entries before the "
                  "bad one are applied - a sequence argument, outside the statement); no listed finding for this unit"),
        "unmodelled": ["Led.__repr__/RGBLed.__repr__ (debug helpers)", "IEEE specials (NaN, inf) as arguments: sent to the implementation only, oracle = invariant + atomicity of failing calls",
                       "Led.flash_pattern with a non-iterable pattern or a str pattern", "keyword-argument calls (C08's subject)",
                       "direct writes to the public attributes Led.state/brightness/pin",
                       "the real time.sleep (the package-level sleep is replaced by a recorder, as tests/test_actuators.py does)",
                       "steps below 1/4 in Led.fade_in/fade_out (loop length > 1100) are not generated"],
        "trusted_base": ["harness/impl/c19_led_impl.py (drives the real classes, records sleep through Reduino.Actuators.sleep and levels by wrapping Led.set_brightness / RGBLed.set_color; resolves state-relative arguments through get_color() / get_brightness() and reports the concrete arguments used - the replay of a failure holds those concrete arguments)",
                         "harness/props/c19_led.py (generators, value comparison with 1e-9 relative float tolerance, property oracle)"],
        "assumptions": ["floats sent are dyadic rationals with small denominators, so exact-rational and binary64 evaluation agree on every integer result (measured by the correspondence)",
                        "Led/RGBLed objects are only driven through their public methods"],
    }


def replay_unit(data) -> int:
    case = data.get("case")
    if not case or case[0] not in ("Led", "RGBLed"):
        return 0
    r = run_cases([case])[0]
    probe = C.Ctx(data["property"], "quick", 0)
    probe.findings = []
    oracle_case(probe, case, r)
    print(json.dumps({"implementation": r["ops"][-1] if r["ops"] else r["ctor"], "oracle_failures": probe.failures}, indent=1, default=str)[:4000])
    return 1 if probe.failures else 0
