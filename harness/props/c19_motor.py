"""Unit C19_motor of property C19: host DCMotor invariants under every history.

run_unit(ctx) = correspondence (extracted Coq model coq/Wire/C19_motorW.v vs the real class, per
op: outcome, return value, every attribute, recorded sleeps, level events, the ghost "last
command") + property oracle evaluated on the real object after every op + calls with NaN /
infinite speeds and durations (model with specials Host/ActuatorsX.v vs the real class, and the
oracle; real Reduino.Utils.sleep validation active) + an implementation-only stream of IEEE
specials / strings / huge ints inside seeded random histories (oracle: invariant + atomicity of
failing calls) + replay of this unit's findings.  The two former findings of this unit
(F-C19-motor-nan-speed, F-C19-motor-nonfinite-duration) are repaired in the project (kind
"fixed"): they exclude nothing, their witnesses are replayed FIRST on every run and a witness
that fails again is a VIOLATION whose replay is that witness.
The property module harness/props/c19.py calls run_unit and merges the coverage it returns.
"""
from __future__ import annotations

import json
import math
from fractions import Fraction as Fr

from harness import common as C
from harness import c19_sm as S

UNIT = "C19_motor"

META_PART = (
    "DCMotor (unit C19_motor): C19_motor_inv_reachable / C19_motor_reachable (|speed|<=1, applied = speed negated when inverted, "
    "mode drive iff applied<>0 else brake iff the last successful command was stop/run_for, after every history from every "
    "accepted constructor call), C19_motor_ghost_step/_run, C19_invert_involution, C19_ramp (20 monotone steps ending on the "
    "clamped target, sleeps summing to exactly the duration), C19_run_for (one sleep of exactly duration_ms, ends braked), "
    "C19_motor_failed_call_atomic, C19_motor_raises, C19_motor_set_speed/_backward/_stop_coast (coq/Props/C19_motor.v) are "
    "proved for all arguments (int/float/bool/non-number) and histories about a Gallina model of DCMotor.py over exact "
    "rationals (_RAMP_STEPS and the default of backward() regenerated from the source on every run); for NaN / infinite speeds "
    "and durations (model of the validations over floats with IEEE specials) C19_motor_speed_bound, C19_motor_nan_speed_rejected, "
    "C19_run_for_failed_call_atomic, C19_ramp_failed_call_atomic, C19_motor_specials_reduce (every such call is an ordinary call "
    "or raises ValueError with nothing written), C19_motor_inv_reachable_specials, C19_run_for_any_argument - the clauses that "
    "were refuted before the repair of _clamp_speed / _check_duration in the project; the extracted model is run "
    "against the real class on every op of a speeds x durations alphabet from 10 seed states, exhaustive op pairs, a "
    "constructor table and seeded random histories, comparing outcome, return value, every attribute, recorded sleeps and "
    "level events per op. BINARY64 (Host/DCMotorFloat.v: ramp() with its four rounded operations per step, fl53): |speed| <= 1 is an exact "
    "inequality - C19_ramp_binary64_stored_in_unit (every speed the real algorithm stores is in [-1,1] for every start, step value and step: the "
    "clamp in set_speed does it), C19_ramp_binary64_raw_overshoots_refuted (the raw 20th point from -0.95 to 1 is 1 + 2^-52: a ramp that bypasses "
    "the clamp breaks the invariant), C19_ramp_binary64_raw_end_near / _ends_near_target (raw and stored end within 2^-49 of the clamped target: "
    "'to float rounding'), C19_ramp_binary64, C19_motor_inv_step_binary64 / _inv_reachable_binary64 / _history_events_binary64 / "
    "_failed_call_atomic_binary64 (the invariant and the per-level clauses after every history of the class as CPython runs it); the extracted "
    "binary64 model is compared BIT FOR BIT (no tolerance) with the real class on every start k/100 and k/1000, seeded random binary64 starts, "
    "ramps to and one ulp / far past both limits, repeated ramps and run_for / ramp / invert chains, and the random streams."
)

H = Fr(1, 2)
EPS = Fr(1, 1024)
NAN, INF = float("nan"), float("inf")


# --------------------------------------------------------------------------
# property oracle on the real object (independent of the model)
# --------------------------------------------------------------------------

def oracle(ctx, st, case, r, safety_only=False):
    """C19 clauses for DCMotor on the values the real object reports after every call."""
    label = S.replayable(case)
    calls = label["calls"]
    if r["ctor"][0] != "ok":
        return
    ghost_stop = False          # last successful command was stop()/run_for()
    prev_snap = r["ctor"][1]
    prev_get = r["get0"]

    def inv(get, at):
        st.oracle_checks += 1
        s, a = S.fval(get["get_speed"]), S.fval(get["get_applied_speed"])
        invd, mode = S.i_val(get["is_inverted"]), S.i_val(get["get_mode"])
        if s is None or a is None or invd[0] != "b" or mode[0] != "s":
            ctx.fail(f"{at}: getters do not return finite float / finite float / bool / str", label, "typed getters", get, key="motor-types")
            return False
        # the invariant clauses are EXACT inequalities / equalities on the binary64 values the object holds: no tolerance
        # (an excursion of one ulp - 1.0000000000000002 - is |speed| > 1)
        if not abs(s) <= 1.0:
            ctx.fail(f"{at}: |speed| > 1 (speed = {s!r}, exact comparison)", label, "|speed| <= 1", repr(float(s)), key="motor-speed-bound")
            return False
        want = -s if invd[1] else s
        if not abs(a) <= 1.0:
            ctx.fail(f"{at}: |applied speed| > 1 (applied = {a!r}, exact comparison)", label, "|applied speed| <= 1", repr(float(a)), key="motor-speed-bound")
            return False
        if not a == want:
            ctx.fail(f"{at}: applied speed is not the speed{' negated' if invd[1] else ''} (inverted={invd[1]})", label, float(want), float(a), key="motor-applied")
            return False
        want_mode = "drive" if a != 0 else ("brake" if ghost_stop else "coast")
        if mode[1] != want_mode:
            ctx.fail(f"{at}: mode is {mode[1]!r} with applied speed {float(a)!r}, last successful command "
                     f"{'was' if ghost_stop else 'was not'} stop()/run_for()", label, want_mode, mode[1], key="motor-mode-" + want_mode)
            return False
        return True

    if not inv(prev_get, "after construction"):
        return
    for i, rs in enumerate(r["steps"]):
        op = case[2][i]
        at = f"step {i} {calls[i + 1]}"
        ok = rs["res"] == "ok"
        if not ok and rs["snap"] != prev_snap:
            ctx.fail(f"{at}: raised {rs['ret']} but changed the object", label, prev_snap, rs["snap"], key="motor-atomic")
            return
        if ok:
            if op[0] in ("stop", "run_for"):
                ghost_stop = True
            elif op[0] in ("set_speed", "backward", "coast", "invert", "ramp"):
                ghost_stop = False
        if not inv(rs["get"], at):
            return
        if op[0] in ("get_speed", "get_applied_speed", "is_inverted", "get_mode") and rs["snap"] != prev_snap:
            ctx.fail(f"{at}: a getter changed the object", label, prev_snap, rs["snap"], key="motor-getter-pure")
            return
        evs = S.i_events(rs["events"])
        sleeps = [e[1][1] for e in evs if e[0] == "sleep" and e[1][0] == "f"]
        # every level the call drove the motor at (each intermediate ramp step, the run_for speed): the same exact clauses
        for e in evs:
            if e[0] != "lvl":
                continue
            st.oracle_checks += 1
            lv = [x[1] if x[0] == "f" else None for x in e[1:3]]
            if lv[0] is None or lv[1] is None or not (abs(lv[0]) <= 1.0 and abs(lv[1]) <= 1.0):
                ctx.fail(f"{at}: during the call the motor was driven at speed {lv[0]!r} / applied speed {lv[1]!r}: outside [-1, 1] (exact comparison)",
                         label, "|speed| <= 1 and |applied speed| <= 1 at every step", [repr(x) for x in lv], key="motor-speed-bound")
                return
            if abs(lv[1]) != abs(lv[0]):
                ctx.fail(f"{at}: during the call the applied speed {lv[1]!r} was not +-speed {lv[0]!r}", label, "applied = +-speed", [repr(x) for x in lv], key="motor-applied")
                return
        numeric = all(S.fnum(a) is not None for a in op[1:])
        if ok and op[0] == "ramp" and numeric and not safety_only:
            target = max(-1.0, min(1.0, S.fnum(op[1])))
            dur = S.fnum(op[2])
            speeds = [e[1][1] for e in evs if e[0] == "lvl"]
            start = S.fval(prev_get["get_speed"])
            end = S.fval(rs["get"]["get_speed"])
            if len(speeds) != 20:
                ctx.fail(f"{at}: ramp applied {len(speeds)} speed steps", label, 20, len(speeds), key="ramp-steps")
                return
            eps = 1e-12
            seq = [start] + speeds
            up = all(y >= x - eps for x, y in zip(seq, seq[1:]))
            down = all(y <= x + eps for x, y in zip(seq, seq[1:]))
            if not ((target >= start - eps and up) or (target <= start + eps and down)):
                ctx.fail(f"{at}: ramp steps are not monotone from the start speed towards the target", label,
                         "monotone", [float(x) for x in seq], key="ramp-monotone")
                return
            if abs(end - target) > 1e-12 or abs(speeds[-1] - target) > 1e-12:      # "to float rounding": proved <= 2^-49 for the real algorithm
                ctx.fail(f"{at}: ramp does not end at the clamped target", label, float(target), float(end), key="ramp-target")
                return
            if len(sleeps) != len([e for e in evs if e[0] == "sleep"]) or not S.le(sum(sleeps), dur):
                ctx.fail(f"{at}: ramp slept longer than the requested duration", label, float(dur), [float(x) for x in sleeps], key="ramp-sleep")
                return
        if ok and op[0] == "run_for" and numeric and not safety_only:
            dur = S.fnum(op[1])
            if len(sleeps) != len([e for e in evs if e[0] == "sleep"]) or not S.close(sum(sleeps), dur):
                ctx.fail(f"{at}: run_for did not sleep exactly duration_ms", label, float(dur), [float(x) for x in sleeps], key="run_for-sleep")
                return
            if S.i_val(rs["get"]["get_mode"])[1] != "brake" or S.fval(rs["get"]["get_speed"]) != 0:
                ctx.fail(f"{at}: run_for did not end braked", label, {"mode": "brake", "speed": 0.0}, rs["get"], key="run_for-brake")
                return
        if ok and op[0] == "invert" and i > 0 and case[2][i - 1][0] == "invert" and r["steps"][i - 1]["res"] == "ok":
            before = r["steps"][i - 2]["get"] if i >= 2 else r["get0"]
            now = rs["get"]
            same_fields = all(S.same(S.i_val(before[g]), S.i_val(now[g])) for g in ("get_speed", "get_applied_speed", "is_inverted"))
            m0, m1 = S.i_val(before["get_mode"])[1], S.i_val(now["get_mode"])[1]
            if not same_fields or m1 != ("coast" if m0 == "brake" else m0):
                ctx.fail(f"{at}: invert(); invert() did not restore the motor", label, before, now, key="invert-involution")
                return
        prev_snap, prev_get = rs["snap"], rs["get"]


# --------------------------------------------------------------------------
# generators
# --------------------------------------------------------------------------

SPEEDS = [-2, Fr(-1), -H, -EPS, 0, EPS, H, Fr(1), 2, None, True]
DURS = [-1, 0, 20, 100, Fr(5, 2)]
DURS_X = DURS + [None, True]

PINS = [2, 3, 5]
CTORS = [
    [2, 3, 5], [2, 2, 5], [2, 3, 2], [5, 3, 3], [True, 1, 5], [False, 0, 5], [True, False, 5], [0, 1, 2],
    [Fr(2), 3, 5], [2, None, 5], [2, 3, None], [2, 2, None], [None, None, None], [-1, -2, -3], [1 << 40, 3, 5],
    [2, 3, Fr(5, 2)], [True, True, Fr(1)], [1, True, 7], [7, 0, False], [-1, 1, True], [3, 3, 3], [Fr(3), Fr(3), 3],
]

QUICK = (
    [("set_speed", v) for v in (-2, -H, -EPS, 0, H, Fr(1), None, True)]
    + [("backward",), ("backward", H), ("backward", -2), ("backward", None)]
    + [("stop",), ("coast",), ("invert",)]
    + [("ramp", t, d) for t, d in ((-2, 20), (H, 0), (0, 100), (EPS, Fr(5, 2)), (Fr(1), -1), (None, 20), (H, None), (-H, True), (None, -1))]
    + [("run_for", d, v) for d, v in ((20, H), (0, -2), (Fr(5, 2), 0), (-1, Fr(1)), (None, H), (20, None), (100, -EPS), (-1, None))]
    + [("get_speed",), ("get_applied_speed",), ("is_inverted",), ("get_mode",)]
)

FULL = (
    [("set_speed", v) for v in SPEEDS + [False, Fr(0), Fr(5, 2), Fr(1) + EPS, Fr(-1) - EPS, Fr(1) - EPS]]
    + [("backward",)] + [("backward", v) for v in SPEEDS]
    + [("stop",), ("coast",), ("invert",)]
    + [("ramp", t, d) for t in SPEEDS for d in DURS_X]
    + [("run_for", d, v) for d in DURS_X for v in SPEEDS]
    + [("get_speed",), ("get_applied_speed",), ("is_inverted",), ("get_mode",)]
)

SEEDS = [
    [], [("set_speed", H)], [("set_speed", -1)], [("invert",)], [("invert",), ("set_speed", H)],
    [("set_speed", H), ("stop",)], [("set_speed", H), ("coast",)], [("set_speed", EPS)],
    [("invert",), ("run_for", 20, 1)], [("ramp", Fr(1), 20)],
]


def rand_value(rng, pool_in, pool_edge, pool_bad):
    x = rng.random()
    return rng.choice(pool_in if x < 0.7 else pool_edge if x < 0.9 else pool_bad)


# binary64 values that are NOT short dyadic numbers: the exact value of the float is sent to the model, the float
# arithmetic of ramp() then differs from the rational one in the last ulp ("to float rounding")
DECIMALS = [Fr(x) for x in (0.1, 0.2, 0.3, 0.7, -0.9, -0.1, 1 / 3, 0.05, -0.35)]


def random_seq(rng, decimal=False):
    n = rng.randint(3, 15)
    sp_in = [Fr(k, 8) for k in range(-8, 9)] + [Fr(k, 64) for k in (-63, -1, 1, 63)]
    if decimal:
        sp_in = DECIMALS + [Fr(0), Fr(1), Fr(-1)]
    sp_edge = [-2, Fr(-1), Fr(1), 2, -EPS, EPS, 0, Fr(0), True, False, Fr(5, 4), Fr(-9, 8)]
    sp_bad = [None]
    du_in = [0, 20, 100, Fr(5, 2), 1, 40, Fr(1, 4), 1000]
    du_edge = [0, Fr(0), True, False, Fr(1, 1024)]
    du_bad = [-1, None, Fr(-1, 2), -20, Fr(-1, 1024)]
    ops = []
    for _ in range(n):
        k = rng.random()
        if k < 0.22:
            ops.append(("set_speed", rand_value(rng, sp_in, sp_edge, sp_bad)))
        elif k < 0.30:
            ops.append(("backward",) if rng.random() < 0.3 else ("backward", rand_value(rng, sp_in, sp_edge, sp_bad)))
        elif k < 0.38:
            ops.append(("stop",))
        elif k < 0.44:
            ops.append(("coast",))
        elif k < 0.58:
            ops.append(("invert",))
        elif k < 0.74:
            ops.append(("ramp", rand_value(rng, sp_in, sp_edge, sp_bad), rand_value(rng, du_in, du_edge, du_bad)))
        elif k < 0.88:
            ops.append(("run_for", rand_value(rng, du_in, du_edge, du_bad), rand_value(rng, sp_in, sp_edge, sp_bad)))
        else:
            ops.append((rng.choice(["get_speed", "get_applied_speed", "is_inverted", "get_mode"]),))
    return ops


def F(x):
    """the exact value of the binary64 number nearest to x (what CPython holds for the literal)"""
    return Fr(float(x))


# streams whose cases are ALSO run through the binary64 model (Host/DCMotorFloat.v: mstep_fl) and compared EXACTLY
FLOAT_STREAMS = {"float-over-ulp", "float-grid-100", "float-grid-1000", "float-interior", "float-chain", "float-random-start", "random-decimal", "random", "random-long"}


def float_cases(ctx):
    """Starts that make the binary64 step arithmetic of ramp() inexact - every k/100 and k/1000 in [-1, 1], seeded random
    binary64 starts - ramped to and past both limits (float and int targets) and to interior targets, repeated ramps,
    run_for / ramp / invert chains.  The property quantifies over all of them; ((target-start)/20)*20 != target-start
    for many, so the raw 20th step leaves [-1, 1] by an ulp and only set_speed's clamp keeps |speed| <= 1."""
    rng = ctx.rng
    thorough = ctx.tier == "thorough"
    out = []
    durs = [0, 100, Fr(5, 2), 20, F(0.1), 1000, 7]
    past = [F(1.0), F(-1.0), F(5.0), -2, F(1.0000000000000002), F(-1.0000000000000002), 1, -1, F(1.5)]
    for k in range(-100, 101):
        st0 = F(k / 100)
        for j, t in enumerate(past if thorough else (past[:4] if k % 5 else past[:6])):
            d = durs[(k + j) % len(durs)]
            out.append(("float-grid-100", ("motor", PINS, [("set_speed", st0), ("ramp", t, d), ("invert",), ("get_applied_speed",)])))
        # the same start reached through backward() / an inverted motor / a ramp, not through set_speed
        if k % 3 == 0:
            out.append(("float-grid-100", ("motor", PINS, [("invert",), ("backward", F(abs(k) / 100)), ("ramp", 1, 20), ("ramp", F(-1.0), 0)])))
    inner = [F(0.3), F(-0.7), F(0.1), F(0.0), F(0.999), F(-0.999)]
    for k in range(-100, 101, 1 if thorough else 7):
        for t in inner:
            out.append(("float-interior", ("motor", PINS, [("set_speed", F(k / 100)), ("ramp", t, durs[k % len(durs)]), ("ramp", F(k / 100), 0)])))
    for k in range(-1000, 1001):
        st0 = F(k / 1000)
        for t in (F(1.0), F(-1.0)) + ((F(3.0), -7) if thorough else ()):
            out.append(("float-grid-1000", ("motor", PINS, [("set_speed", st0), ("ramp", t, durs[k % len(durs)]), ("get_speed",)])))
    # arguments one ulp (and 2^-40) outside [-1, 1] for every call that takes a speed: the clamp must bite on each path
    over = [F(1.0000000000000002), F(-1.0000000000000002), F(1 + 2.0 ** -40), F(-1 - 2.0 ** -40), F(0.9999999999999999), F(-0.9999999999999999)]
    for pre in ([], [("invert",)], [("set_speed", F(0.95))], [("invert",), ("set_speed", F(-0.97))], [("set_speed", F(-1.0))]):
        for v in over:
            for d in (0, 20, F(0.1)):
                out.append(("float-over-ulp", ("motor", PINS, pre + [("run_for", d, v), ("get_speed",)])))
                out.append(("float-over-ulp", ("motor", PINS, pre + [("ramp", v, d), ("invert",), ("get_applied_speed",)])))
            out.append(("float-over-ulp", ("motor", PINS, pre + [("set_speed", v), ("invert",), ("get_applied_speed",)])))
            out.append(("float-over-ulp", ("motor", PINS, pre + [("backward", v), ("invert",), ("ramp", v, 0)])))
    pool = [F(k / 100) for k in range(-100, 101)] + [F(x) for x in (1 / 3, -2 / 3, 0.1, 0.7, 1e-3, -1e-3, 0.123456789, -0.987654321)]
    lim = [F(1.0), F(-1.0), 1, -1, F(5.0), F(-5.0), 2, -2, F(1.0000000000000002), F(-1.0000000000000002)]
    for _ in range(3000 if thorough else 300):
        ops = [("invert",)] if rng.random() < 0.3 else []
        ops.append(("set_speed", rng.choice(pool)))
        for _ in range(rng.randint(2, 7)):
            x = rng.random()
            d = rng.choice(durs)
            if x < 0.45:
                ops.append(("ramp", rng.choice(lim), d))
            elif x < 0.65:
                ops.append(("ramp", rng.choice(pool), d))
            elif x < 0.75:
                ops.append(("run_for", d, rng.choice(pool + lim)))
                ops.append(("ramp", rng.choice(lim), d))
            elif x < 0.83:
                ops.append(("invert",))
            elif x < 0.90:
                ops.append(("backward", rng.choice(pool)))
            elif x < 0.95:
                ops.append(("set_speed", rng.choice(pool)))
            else:
                ops.append((rng.choice(["stop", "coast", "get_speed", "get_mode"]),))
        out.append(("float-chain", ("motor", PINS, ops)))
    for _ in range(20000 if thorough else 1500):
        st0 = F(rng.uniform(-1.0, 1.0)) if rng.random() < 0.8 else F(rng.choice([-1, 1]) * (1 - rng.random() * 2 ** -rng.randint(1, 50)))
        t = rng.choice(lim) if rng.random() < 0.8 else F(rng.uniform(-1.0, 1.0))
        out.append(("float-random-start", ("motor", PINS, [("set_speed", st0), ("ramp", t, rng.choice(durs)), ("ramp", rng.choice(lim), 0)])))
    return out


def generate(ctx):
    """returns list of (stream, case)"""
    rng = ctx.rng
    thorough = ctx.tier == "thorough"
    cases = []
    for c in CTORS:
        cases.append(("ctor-table", ("motor", c, [("get_mode",), ("set_speed", H), ("invert",), ("stop",)])))
    # every single op of the full alphabet from every seed, then invert twice; exhaustive pairs
    for pre in SEEDS:
        for a in FULL:
            cases.append(("singles", ("motor", PINS, pre + [a, ("invert",), ("invert",)])))
        for a in QUICK:
            second = FULL if thorough else QUICK
            for b in second:
                cases.append(("pairs", ("motor", PINS, pre + [a, b])))
        if thorough:
            for a in FULL:
                for b in QUICK:
                    cases.append(("pairs", ("motor", PINS, pre + [a, b])))
    for _ in range(8000 if thorough else 700):
        cases.append(("random", ("motor", PINS, random_seq(rng))))
    for _ in range(3000 if thorough else 300):
        cases.append(("random-decimal", ("motor", PINS, random_seq(rng, decimal=True))))
    # long histories: the statement says "every sequence", the streams above stop at 15 calls
    for _ in range(60 if thorough else 8):
        ops = []
        for _ in range(rng.randint(4, 10)):
            ops += random_seq(rng)
        cases.append(("random-long", ("motor", PINS, ops)))
    cases += float_cases(ctx)
    return cases


def specials_cases(rng, n_random):
    """Outside the finite model: IEEE specials (NaN included), -0.0, numeric strings, ints beyond the float range, as speeds and
    as durations - implementation only, oracle = invariant + atomicity of failing calls; the real Reduino.Utils.sleep
    validation is active.  Fixed table from four prefixes + seeded random histories that mix such calls with ordinary ones."""
    big = 10 ** 400
    ops = [("set_speed", INF), ("set_speed", -INF), ("set_speed", -0.0), ("set_speed", "0.5"), ("set_speed", " -1e3 "), ("set_speed", "abc"),
           ("set_speed", big), ("set_speed", -big), ("backward", INF), ("backward", -INF), ("backward", "0.25"), ("backward", "x"), ("backward", big),
           ("ramp", INF, 20), ("ramp", -INF, 0), ("ramp", "0.25", 20), ("ramp", "x", 20), ("ramp", H, "5"), ("ramp", big, 5), ("ramp", H, -INF),
           ("ramp", H, NAN), ("ramp", H, -0.0), ("ramp", NAN, -1),
           ("run_for", 20, INF), ("run_for", 0, -INF), ("run_for", 20, "0.5"), ("run_for", 20, "x"), ("run_for", "5", H), ("run_for", 20, big),
           ("run_for", -INF, H), ("run_for", -0.0, H), ("run_for", -big, H), ("run_for", -1, NAN),
           # the region the two repaired findings used to exclude: NaN speeds, NaN / infinite / unrepresentable durations
           ("set_speed", NAN), ("backward", NAN), ("ramp", NAN, 20), ("ramp", NAN, 0), ("run_for", 20, NAN), ("run_for", 0, NAN),
           ("run_for", NAN, H), ("run_for", INF, H), ("run_for", big, H), ("run_for", NAN, NAN), ("run_for", INF, None), ("run_for", NAN, 0),
           ("ramp", H, INF), ("ramp", H, big), ("ramp", -2, NAN), ("ramp", None, NAN), ("ramp", NAN, INF), ("ramp", H, -big),
           ("run_for", INF, INF), ("ramp", INF, INF), ("run_for", NAN, "x"), ("ramp", "x", INF)]
    cases = []
    for pre in ([], [("set_speed", H)], [("invert",), ("set_speed", -H)], [("set_speed", H), ("stop",)]):
        for o in ops:
            cases.append(("motor", PINS, pre + [o, ("get_mode",), ("invert",), ("invert",)]))
    cases += [("motor", c, [("set_speed", H)]) for c in ([2.0, 3, 5], ["2", 3, 5], [NAN, 3, 5], [2, 3, INF], [big, 3, 5], [big, big, 5])]
    odd_speed = [NAN, INF, -INF, -0.0, "0.5", "x", big, -big, NAN, NAN]
    odd_dur = [NAN, INF, -INF, -0.0, "5", big, -big, NAN, INF]
    for _ in range(n_random):
        ops = random_seq(rng)
        for _ in range(rng.randint(1, 4)):
            i = rng.randrange(len(ops) + 1)
            k = rng.random()
            sp = rng.choice(odd_speed) if rng.random() < 0.7 else rng.choice([H, -2, 0, None])
            du = rng.choice(odd_dur) if rng.random() < 0.7 or not isinstance(sp, (float, str)) else rng.choice([0, 20, Fr(5, 2), -1])
            ops.insert(i, ("set_speed", sp) if k < 0.25 else ("backward", sp) if k < 0.4 else ("ramp", sp, du) if k < 0.7 else ("run_for", du, sp))
        cases.append(("motor", PINS, ops))
    return cases


X_KINDS = ["ValueError", "TypeError", "OverflowError"]


def x_stream(ctx, st):
    """Host/ActuatorsX.v (xclamp, mstep_x: set_speed / backward / ramp / run_for with arguments that may be IEEE specials)
    vs the real class, with the real Reduino.Utils.sleep validation active; every case also goes through the property
    oracle (this region - NaN speeds, NaN / infinite durations - was outside the guard before the repair)."""
    n_dis = 0

    def bad(what, case, mo, io):
        nonlocal n_dis
        n_dis += 1
        if n_dis <= 5:
            ctx.disagree("motor: " + what, S.replayable(case), mo, io)

    have_model = bool(ctx.exes.get(UNIT))
    # (a) _clamp_speed
    xs = [NAN, INF, -INF] + [Fr(k, 4) for k in range(-9, 10)] + [Fr(1) + EPS, Fr(-1) - EPS, Fr(1 << 40), Fr(-(1 << 40))]
    cases = [("motor", PINS, [("_clamp_speed", x)]) for x in xs]
    impl = S.run_impl("motor", cases, real_sleep=True)
    model = ctx.model([[2, S.WX(x)] for x in xs], unit=UNIT) if have_model else [None] * len(cases)
    for case, x, m, r in zip(cases, xs, model, impl):
        rs = r["steps"][0]
        got = S.i_val(rs["ret"]) if rs["res"] == "ok" else ("raise", rs["ret"])
        st.oracle_checks += 1
        if not (got[0] == "f" and abs(got[1]) <= 1) and not (x != x and got == ("raise", "ValueError")):
            ctx.fail(f"_clamp_speed({S.show(x)}) is neither a float in [-1, 1] nor (for NaN) a ValueError", S.replayable(case),
                     "a float in [-1, 1]" if x == x else "ValueError", got, key="motor-speed-bound")
        if m is None:
            continue
        want = S.m_x(m[1]) if m[0] == 0 else ("raise", "ValueError")
        if not (want[0] == got[0] and (S.same(want, got) if want[0] != "raise" else want == got)):
            bad("_clamp_speed on a float with IEEE specials", case, want, got)
    n = len(cases)
    # (b) the four calls that take a speed and/or a duration, after a few prefixes
    durs = [NAN, INF, -INF, Fr(20), Fr(0), Fr(-1), Fr(5, 2), Fr(1, 1024)]
    sps = [H, -2, 0, None, True, Fr(-1, 8), NAN, INF, -INF]
    pres = [[], [("set_speed", H)], [("invert",), ("set_speed", -H)], [("set_speed", H), ("stop",)], [("ramp", Fr(1), 20), ("invert",)]]
    cases, wires = [], []
    for pre in pres:
        wpre = [[S.MOTOR_OPS[o[0]]] + [S.W(a) for a in o[1:]] for o in pre]
        head = [3, [S.W(a) for a in PINS], wpre]
        for v in sps:
            cases.append(("motor", PINS, pre + [("set_speed", v)]))
            wires.append(head + [[2, S.WXA(v)]])
            cases.append(("motor", PINS, pre + [("backward", v)]))
            wires.append(head + [[3, S.WXA(v)]])
            for d in durs:
                cases.append(("motor", PINS, pre + [("run_for", d, v)]))
                wires.append(head + [[0, S.WX(d), S.WXA(v)]])
                cases.append(("motor", PINS, pre + [("ramp", v, d)]))
                wires.append(head + [[1, S.WXA(v), S.WX(d)]])
    impl = S.run_impl("motor", cases, real_sleep=True)
    model = ctx.model(wires, unit=UNIT) if have_model else [None] * len(cases)
    for case, m, r in zip(cases, model, impl):
        rs = r["steps"][-1]
        got = "ok" if rs["res"] == "ok" else rs["ret"]
        special = any(S.is_special(a) for a in case[2][-1][1:])
        st.bump(st.outcomes, "motor." + case[2][-1][0] + ("[special-argument]:" if special else "[float-argument]:") + got)
        # the tail of getters makes the oracle look at the object after the call as well
        oracle(ctx, st, case, r)
        if m is None:
            continue
        if m == [2]:
            bad("model could not decode the special-argument case (harness bug)", case, m, None)
            continue
        want = "ok" if m[2][0] == 0 else X_KINDS[m[2][1]]
        if want != got:
            bad("outcome of a call whose arguments may be IEEE specials", case, want, got)
            continue
        msnap = S.m_motor_snap(m[0])
        isnap = {k: S.i_val(v) for k, v in rs["snap"].items()}
        diff = [k for k in msnap if not S.same(msnap[k], isnap.get(k, ("?",)))]
        if diff or set(msnap) != set(isnap):
            bad(f"attributes {diff} after a call whose arguments may be IEEE specials", case, msnap, isnap)
            continue
        mev, iev = S.m_events("motor", m[1]), S.i_events(rs["events"])
        if len(mev) != len(iev) or any(not (a[0] == b[0] and len(a) == len(b) and all(S.same(x, y) for x, y in zip(a[1:], b[1:])))
                                       for a, b in zip(mev, iev)):
            bad("events of a call whose arguments may be IEEE specials", case, mev, iev)
    return n + len(cases)


# --------------------------------------------------------------------------
# entry points
# --------------------------------------------------------------------------

def own_findings(ctx):
    """entries of this unit: known_findings.d/C19_motor.json (this package's own file) takes precedence over the merged
    known_findings.json, which ./check manifest assembles from it"""
    items = {f["id"]: f for f in ctx.findings if f.get("unit") == UNIT}
    own = C.VERIF / "known_findings.d" / (UNIT + ".json")
    if own.exists():
        for e in json.loads(own.read_text()):
            if e.get("unit") == UNIT:
                items[e["id"]] = e
    return [f for f in items.values() if "witness" in f]


def replay_fixed(ctx):
    """Repaired defects (kind "fixed") suppress nothing: their witnesses run FIRST through the same oracle as every
    generated case; one that fails again is a property failure (VIOLATION) whose replay is the witness - never a
    KNOWN-FINDING line.  The failure takes the key of its class, so the witness is the replay reported for the class."""
    n = 0
    for f in own_findings(ctx):
        if f.get("kind") != "fixed":
            continue
        n += 1
        wc = S.witness_case(f["witness"])
        r = S.run_impl("motor", [wc], real_sleep=True)[0]
        for g in S.probe_oracle(ctx, oracle, wc, r, safety_only=True)[:1]:
            ctx.fail(f"{f.get('fixed', 'fixed: ' + f['id'])} - the repaired defect {f['id']} is back: {g['what']}",
                     dict(g["case"], witness_of=f["id"]), g["expected"], g["observed"], key=g["key"])
    return n


def replay_findings(ctx):
    for f in own_findings(ctx):
        if f.get("kind") == "fixed":
            continue
        wc = S.witness_case(f["witness"])
        r = S.run_impl("motor", [wc], real_sleep=True)[0]
        if S.probe_oracle(ctx, oracle, wc, r, safety_only=True):
            ctx.known(f"{f['id']}: {f['what']}")


def run_unit(ctx: C.Ctx) -> dict:
    st = S.Stats()
    n_fixed = replay_fixed(ctx)
    n_fail0 = len(ctx.failures)          # failures of replayed fixed witnesses stay in front
    stream_cases = generate(ctx)
    cases = [c for _, c in stream_cases]
    for s, _ in stream_cases:
        st.bump(st.streams, s)
    impl = S.run_impl("motor", cases)
    exe = ctx.exes.get(UNIT)
    rational = [i for i, (s, _) in enumerate(stream_cases) if not s.startswith("float-")]
    binary64 = [i for i, (s, _) in enumerate(stream_cases) if s in FLOAT_STREAMS]
    model = [None] * len(cases)
    model_fl = [None] * len(cases)
    if exe:
        for i, m in zip(rational, ctx.model([S.wire_case(cases[i]) for i in rational], unit=UNIT)):
            model[i] = m
        # the same class with ramp() in binary64 (wire case 4): compared bit for bit, no tolerance
        for i, m in zip(binary64, ctx.model([[4] + S.wire_case(cases[i])[1:] for i in binary64], unit=UNIT)):
            model_fl[i] = m
    n_dis = n_dis_fl = n_exact = 0
    for case, r, m, mf in zip(cases, impl, model, model_fl):
        S.account(st, case, r)
        oracle(ctx, st, case, r)
        if m is not None and n_dis < 25:
            if not S.compare_case(ctx, st, case, m, r):
                n_dis += 1
        if mf is not None and n_dis_fl < 25:
            n_exact += len(case[2])
            if not S.compare_case(ctx, st, case, mf, r, exact=True):
                n_dis_fl += 1
    spec = specials_cases(ctx.rng, 1500 if ctx.tier == "thorough" else 200)
    n_spec = 0
    for case, r in zip(spec, S.run_impl("motor", spec, real_sleep=True)):
        n_spec += len(r["steps"])
        oracle(ctx, st, case, r, safety_only=True)
    n_x = x_stream(ctx, st)
    replay_findings(ctx)
    # report the shortest failing history of each class first (ctx.finish keeps the first per key)
    ctx.failures[n_fail0:] = sorted(ctx.failures[n_fail0:], key=lambda f: (len(f["case"]["calls"]), len(str(f["case"]["calls"]))))

    samples = [S.show_case(cases[i]) for i in (0, len(cases) // 3, len(cases) // 2, len(cases) - 1)]
    dist = S.distribution(st)
    dist["specials_stream_ops_implementation_only"] = n_spec
    dist["calls_with_ieee_special_floats_compared_with_model_and_judged_by_the_oracle"] = n_x
    dist["fixed_witnesses_replayed_first"] = n_fixed
    dist["calls_compared_bit_for_bit_with_the_binary64_model"] = n_exact
    return {
        "unit": UNIT,
        "evaluations": st.steps,
        "distinct_nontrivial": len(st.nontrivial),
        "rule": ("DCMotor: constructor table (%d pin triples: ints, bools equal to ints, floats, None, duplicates) + every op of the full alphabet "
                 "(%d ops: speeds -2,-1,-1/2,-1/1024,0,1/1024,1/2,1,2,None,True x durations -1,0,20,100,5/2,None,True) followed by invert;invert from 10 "
                 "seed states + exhaustive pairs (quick: %dx%d, thorough: %dx%d and %dx%d) from the same seeds + seeded random histories (3-15 ops; 70%% in "
                 "range, 20%% boundary, 10%% invalid; a second stream draws speeds from non-dyadic binary64 values such as 0.1, 0.3, 1/3) + "
                 "set_speed / backward / ramp / run_for with speeds in {1/2,-2,0,None,True,-1/8,NaN,inf,-inf} x durations in {NaN,inf,-inf,20,0,-1,5/2,1/1024} "
                 "after 5 prefixes (model with IEEE specials vs class, and oracle) + a table and seeded random histories with NaN / inf / -0.0 / numeric strings / "
                 "ints beyond the float range as speeds and durations (implementation + oracle only) + binary64 streams (compared bit for bit with Host/DCMotorFloat.v): set_speed(k/100); ramp(t, d) for all 201 k and t in "
                 "{1.0, -1.0, 5.0, -2, +-(1+2^-52), ...}, set_speed(k/1000); ramp(+-1.0, d) for all 2001 k, interior targets, starts reached through backward / inverted motors, seeded random binary64 starts "
                 "(uniform and within 2^-1..2^-50 of +-1), chains of repeated ramps / run_for / invert / backward over decimal speeds, and every speed-taking call with an argument one ulp and 2^-40 outside [-1, 1] from 5 prefixes. evaluations = method calls executed on the real objects and compared field by field with the model; "
                 "distinct non-trivial = distinct (full state before, call) with a non-getter call that raised, changed state or emitted events."
                 % (len(CTORS), len(FULL), len(QUICK), len(QUICK), len(QUICK), len(FULL), len(FULL), len(QUICK))),
        "samples": samples,
        "distribution": dist,
        "guard": ("none: no listed finding excludes anything (F-C19-motor-nan-speed and F-C19-motor-nonfinite-duration are repaired, kind=fixed; NaN speeds and "
                  "NaN / infinite / unrepresentable durations are generated and judged like every other argument, their witnesses are replayed first). The streams "
                  "of the finite model use ints, bools, None and dyadic floats; finite durations stay below 2**31 ms (the wait itself is replaced by a recorder, "
                  "see unmodelled)"),
        "unmodelled": [
            "binary64 overflow / subnormals: the binary64 model of ramp() (fl53) has an unbounded exponent - it is IEEE-754 binary64 when target - start is 0 or at least 2^-1000 in magnitude and durations are below 2^1000, which is what is generated. The exact-rational model is still compared to 1e-9 on the dyadic streams (there a ramp ending 1e-17 away from 0 with mode 'drive' is float rounding, tolerated and counted in float_zero_residue_steps_tolerated); the binary64 model is compared exactly, the oracle's invariant clauses (|speed| <= 1, |applied| <= 1, applied = +-speed, mode) are exact",
            "-0.0, numeric strings accepted by float() in DCMotor._clamp_speed, other strings and ints beyond the float range: sent to the implementation only, oracle = invariant + atomicity of failing calls (NaN and the infinities are in the model with specials, Host/ActuatorsX.v, for one call after a prefix of ordinary calls; inside longer random histories they too are judged by the oracle only)",
            "the wait itself: the package-level sleep is replaced by a recorder (as tests/test_actuators.py does); in the specials streams and the witness replays the recorder additionally runs the real Reduino.Utils.sleep validation and hands non-finite durations to the real time.sleep. Finite durations beyond what the platform's time.sleep accepts (about 9.2e12 ms = 292 years on CPython/Linux: OverflowError from time.sleep after run_for applied its speed) are not generated and not modelled",
            "DCMotor.__repr__ (debug helper)", "keyword-argument calls (C08's subject); direct writes to the attributes; a patched _RAMP_STEPS <= 0 (the model follows the generated constant)",
        ],
        "trusted_base": [
            "harness/gen/c19_motor.py (reads DCMotor._RAMP_STEPS, the default of backward() and the public method signatures from the current source; fail-closed)",
            "harness/impl/c19_motor_impl.py + c19_sm_runner.py (drive the real class; sleeps recorded through Reduino.Actuators.sleep, level events by wrapping DCMotor._apply_speed/stop/coast)",
            "harness/props/c19_motor.py + harness/c19_sm.py (generators, comparison with 1e-9 float tolerance for the rational model and bit for bit for the binary64 model, oracle with exact invariant clauses)",
        ],
        "assumptions": ["Python floats behave as exact rationals up to 1e-9 on the generated dyadic inputs (measured by the correspondence)",
                        "the last-command ghost changes only on successful stop/run_for/set_speed/backward/coast/invert/ramp (DESIGN.md A.4; proved for the model as C19_motor_ghost_step, compared per op with the history of real outcomes)",
                        "DCMotor objects are only driven through their public methods"],
    }


def replay_unit(data) -> int:
    """./check replay <file>: re-run the recorded case on the real class and evaluate the oracle again."""
    cj = (data.get("case") or {}).get("json") if isinstance(data.get("case"), dict) else None
    if not cj or cj.get("cls") != "motor":
        return 0
    case = S.from_json_case(cj)
    r = S.run_impl("motor", [case], real_sleep=True)[0]
    fails = S.probe_oracle(data.get("property", "C19"), oracle, case, r)
    print(json.dumps({"implementation": r["steps"][-1] if r["steps"] else r["ctor"], "oracle_failures": fails}, indent=1, default=str)[:4000])
    return 1 if fails else 0
