"""Unit C19_motor of property C19: host Servo and DCMotor invariants under every history.

run_unit(ctx) = correspondence (extracted Coq model vs the real classes, per op: outcome,
return value, full state snapshot, sleeps, level events) + property oracle evaluated on the
real objects after every op + replay of this unit's listed findings.
The property module harness/props/c19.py calls run_unit and merges the coverage it returns.
"""
from __future__ import annotations

from fractions import Fraction as Fr

from harness import common as C

UNIT = "C19_motor"

META_PART = (
    "Servo/DCMotor (unit C19_motor): theorems Inv_servo, C19_servo_roundtrip, Inv_motor, "
    "C19_invert_involution, C19_ramp, C19_run_for, C19_*_failed_call_atomic (coq/Props/C19_motor.v) "
    "are proved by induction over all op sequences from every accepted constructor call, about Gallina "
    "models of Servo.py / DCMotor.py over exact rationals (constants _RAMP_STEPS and the constructor "
    "defaults regenerated from the source on every run); the extracted models are run against the "
    "real classes on exhaustive op pairs from 10+11 seed states and seeded random sequences (<= 15 ops), "
    "comparing outcome, return value, every attribute, recorded sleeps and level events per op."
)


class _Absent:
    def __repr__(self):
        return "ABSENT"


ABSENT = _Absent()      # an omitted optional argument

TOL = 1e-9


# --------------------------------------------------------------------------
# values: int / bool / Fraction (a float) / None (a non-number)
# --------------------------------------------------------------------------

def W(v):
    """abstract value -> wire pynum"""
    if isinstance(v, bool):
        return [2, v]
    if isinstance(v, int):
        return [0, v]
    if isinstance(v, Fr):
        return [1, v]
    if v is None:
        return [3]
    raise TypeError(repr(v))


def Wopt(v):
    return [] if v is ABSENT else [W(v)]


def J(v):
    """abstract value -> tagged JSON value for the implementation runner"""
    if v is ABSENT:
        return None
    if isinstance(v, bool):
        return ["b", v]
    if isinstance(v, int):
        return ["i", v]
    if isinstance(v, Fr):
        return ["f", v.numerator, v.denominator]
    if v is None:
        return ["o"]
    raise TypeError(repr(v))


def show(v):
    if v is ABSENT:
        return "<omitted>"
    if isinstance(v, Fr):
        return repr(float(v))
    return repr(v)


def num(v):
    """numeric value of an abstract scalar (None if not a number)"""
    if v is None or v is ABSENT:
        return None
    return Fr(int(v)) if isinstance(v, (bool, int)) else v


SERVO_OPS = {"write": 0, "write_us": 1, "read": 2, "read_us": 3}
MOTOR_OPS = {"set_speed": 0, "backward": 1, "stop": 2, "coast": 3, "invert": 4, "ramp": 5, "run_for": 6,
             "get_speed": 7, "get_applied_speed": 8, "is_inverted": 9, "get_mode": 10}
MODES = ["coast", "drive", "brake"]
KINDS = ["ValueError", "TypeError"]


def wire_case(case):
    cls, ctor, ops = case
    table = SERVO_OPS if cls == "servo" else MOTOR_OPS
    wops = [[table[o[0]]] + [W(a) for a in o[1:]] for o in ops]
    if cls == "servo":
        return [0, [Wopt(a) for a in ctor], wops]
    return [1, [W(a) for a in ctor], wops]


def json_case(case):
    cls, ctor, ops = case
    return {"cls": cls, "ctor": [J(a) for a in ctor], "ops": [[o[0]] + [J(a) for a in o[1:]] for o in ops]}


def show_case(case):
    cls, ctor, ops = case
    if cls == "servo":
        names = ["pin", "min_angle", "max_angle", "min_pulse_us", "max_pulse_us"]
        head = "Servo(" + ", ".join(f"{n}={show(a)}" for n, a in zip(names, ctor) if a is not ABSENT) + ")"
    else:
        head = "DCMotor(" + ", ".join(show(a) for a in ctor) + ")"
    return [head] + [f".{o[0]}(" + ", ".join(show(a) for a in o[1:]) + ")" for o in ops]


# --------------------------------------------------------------------------
# normal forms of outputs
# --------------------------------------------------------------------------

def m_q(w):
    # the model's exact rational, rounded once to binary64 (error 1e-16, tolerance is 1e-9; 0 stays 0)
    return ("f", w[0] / w[1])


def m_pynum(w):
    t = w[0]
    if t == 0:
        return ("i", w[1])
    if t == 1:
        return m_q(w[1])
    if t == 2:
        return ("b", bool(w[1]))
    return ("o",)


def i_val(t):
    k = t[0]
    if k == "f":
        return ("f", t[1] / t[2])       # exact: the runner sends float.as_integer_ratio()
    if k == "i":
        return ("i", t[1])
    if k == "b":
        return ("b", bool(t[1]))
    if k == "o":
        return ("o",)
    if k == "s":
        return ("s", t[1])
    if k == "t":
        return ("t", tuple(i_val(x) for x in t[1]))
    return ("?", t[1])


def close(a: float, b: float) -> bool:
    return abs(a - b) <= TOL * max(1, abs(a), abs(b))


def same(a, b) -> bool:
    """ints, bools, strings, None exact; floats to 1e-9 relative + absolute"""
    if a[0] != b[0]:
        return False
    if a[0] == "f":
        return close(a[1], b[1])
    if a[0] == "t":
        return len(a[1]) == len(b[1]) and all(same(x, y) for x, y in zip(a[1], b[1]))
    return a == b


def m_servo_snap(w):
    return {"pin": m_pynum(w[0]), "_min_angle": m_q(w[1]), "_max_angle": m_q(w[2]), "_min_pulse": m_q(w[3]),
            "_max_pulse": m_q(w[4]), "_current_angle": m_q(w[5]), "_current_pulse": m_q(w[6])}


def m_motor_snap(w):
    return {"pins": ("t", tuple(m_pynum(x) for x in w[0])), "_speed": m_q(w[1]), "_inverted": ("b", bool(w[2])),
            "_mode": ("s", MODES[w[3]]), "_applied_speed": m_q(w[4])}


def m_ret(w):
    t = w[0]
    if t == 0:
        return ("o",)
    if t == 1:
        return m_q(w[1])
    if t == 2:
        return ("b", bool(w[1]))
    return ("s", MODES[w[1]])


def m_events(cls, w):
    out = []
    for e in w:
        if cls == "servo":
            out.append(("lvl", m_q(e[1]), m_q(e[2])))
        elif e[0] == 0:
            out.append(("lvl", m_q(e[1]), m_q(e[2]), ("s", MODES[e[3]])))
        else:
            out.append(("sleep", m_q(e[1])))
    return out


def i_events(evs):
    out = []
    for e in evs:
        if e[0] == "sleep":
            v = i_val(e[1])
            if v[0] in ("i", "b"):          # run_for hands its argument to sleep unconverted
                v = ("f", float(int(v[1])))
            out.append(("sleep", v))
        else:
            out.append(("lvl",) + tuple(i_val(x) for x in e[1:]))
    return out


def zero_noise(model_applied, impl_applied, model_mode, impl_mode) -> bool:
    """The one place where exact rationals and binary64 may legitimately take different branches:
    the model's applied speed is exactly 0 (mode coast) while the float computation left a non-zero
    residue below 1e-9 (mode drive), e.g. 0.1 + (-0.1/20)*20.  The property allows it ('to float rounding')."""
    return (model_mode == ("s", "coast") and impl_mode == ("s", "drive") and model_applied[0] == "f"
            and impl_applied[0] == "f" and model_applied[1] == 0 and 0 < abs(impl_applied[1]) <= TOL)


# --------------------------------------------------------------------------
# correspondence
# --------------------------------------------------------------------------

class Stats:
    def __init__(self):
        self.ops = {}
        self.outcomes = {}
        self.ctor = {}
        self.lengths = {}
        self.nontrivial = set()
        self.steps = 0
        self.cases = 0
        self.zero_noise = 0
        self.oracle_checks = 0
        self.streams = {}

    def bump(self, d, k, n=1):
        d[k] = d.get(k, 0) + n


def compare_case(ctx, st: Stats, case, m, r):
    """model output m (wire) vs implementation output r (JSON) for one case; reports the first difference."""
    cls = case[0]
    label = show_case(case)

    def bad(what, mo, io):
        ctx.disagree(f"{cls}: {what}", replayable(case), mo, io)
        return False

    if m == [2]:
        return bad("model could not decode the case (harness bug)", m, None)
    mc = m[0]
    if mc[0] == 1:
        if r["ctor"][0] != "raise" or r["ctor"][1] != KINDS[mc[1]]:
            return bad("constructor outcome", "raises " + KINDS[mc[1]], r["ctor"])
        return True
    if r["ctor"][0] != "ok":
        return bad("constructor outcome", "accepts", r["ctor"])
    snap_of = m_servo_snap if cls == "servo" else m_motor_snap
    msnap = snap_of(mc[1])
    isnap = {k: i_val(v) for k, v in r["ctor"][1].items()}
    if set(msnap) != set(isnap):
        return bad("attribute set after construction", sorted(msnap), sorted(isnap))
    for k in msnap:
        if not same(msnap[k], isnap[k]):
            return bad(f"attribute {k} after construction", msnap[k], isnap[k])
    if len(m) - 1 != len(r["steps"]):
        return bad("number of steps", len(m) - 1, len(r["steps"]))
    ghost = 0
    for i, (ms, rs) in enumerate(zip(m[1:], r["steps"])):
        op = case[2][i]
        at = f"step {i} {label[i + 1]}"
        mres = "ok" if ms[0] == 0 else "raise"
        if mres != rs["res"]:
            return bad(f"{at}: outcome", (mres, m_ret(ms[1]) if ms[0] == 0 else KINDS[ms[1]]), (rs["res"], rs["ret"]))
        msnap = snap_of(ms[2])
        isnap = {k: i_val(v) for k, v in rs["snap"].items()}
        noisy = cls == "motor" and zero_noise(msnap["_applied_speed"], isnap.get("_applied_speed", ("?",)),
                                              msnap["_mode"], isnap.get("_mode", ("?",)))
        if ms[0] == 1:
            if rs["ret"] != KINDS[ms[1]]:
                return bad(f"{at}: exception kind", KINDS[ms[1]], rs["ret"])
        else:
            mr, ir = m_ret(ms[1]), i_val(rs["ret"])
            if not same(mr, ir) and not (noisy and op[0] == "get_mode"):
                return bad(f"{at}: return value", mr, ir)
        if set(msnap) != set(isnap):
            return bad(f"{at}: attribute set", sorted(msnap), sorted(isnap))
        for k in msnap:
            if not same(msnap[k], isnap[k]) and not (noisy and k == "_mode"):
                return bad(f"{at}: attribute {k}", msnap[k], isnap[k])
        mev, iev = m_events(cls, ms[3]), i_events(rs["events"])
        if len(mev) != len(iev):
            return bad(f"{at}: number of events (sleeps + level events)", mev, iev)
        for a, b in zip(mev, iev):
            ok = a[0] == b[0] and len(a) == len(b) and all(same(x, y) for x, y in zip(a[1:], b[1:]))
            if not ok and cls == "motor" and a[0] == "lvl" == b[0] and len(b) == 4 and same(a[1], b[1]) \
                    and same(a[2], b[2]) and zero_noise(a[2], b[2], a[3], b[3]):
                ok = True
                st.zero_noise += 1
            if not ok:
                return bad(f"{at}: event", a, b)
        if noisy:
            st.zero_noise += 1
        if cls == "motor":
            # ghost "last successful command" of the model vs the one derived from the real outcomes
            if rs["res"] == "ok":
                if op[0] in ("stop", "run_for"):
                    ghost = 1
                elif op[0] in ("set_speed", "backward", "coast", "invert", "ramp"):
                    ghost = 0
            if ms[2][5] != ghost:
                return bad(f"{at}: ghost last-command of the model vs history", ms[2][5], ghost)
    return True


# --------------------------------------------------------------------------
# property oracle on the real objects (independent of the model)
# --------------------------------------------------------------------------

def fnum(v):
    """numeric value of an abstract scalar as a float (exact: arguments are dyadic), None for a non-number"""
    q = num(v)
    return None if q is None else q.numerator / q.denominator


def fval(t):
    """float-valued observation -> float (None if it is not a finite float)"""
    v = i_val(t)
    return v[1] if v[0] == "f" else None


def le(a, b, scale=1):
    return a <= b + TOL * max(1, abs(a), abs(b), scale)


def replayable(case):
    return {"calls": show_case(case), "json": json_case(case)}


def servo_oracle(ctx, st, case, r):
    """C19 clauses for Servo on the values the real object reports after every call."""
    label = replayable(case)
    calls = label["calls"]
    if r["ctor"][0] != "ok":
        return
    ctor = case[1]
    snap0 = r["ctor"][1]
    # configured bounds: the explicit arguments (as floats); for omitted ones what the constructor stored
    conf = []
    for a, k in zip(ctor[1:], ["_min_angle", "_max_angle", "_min_pulse", "_max_pulse"]):
        conf.append(fnum(a) if a is not ABSENT else fval(snap0[k]))
    mina, maxa, minp, maxp = conf
    if None in conf or not (mina < maxa and minp < maxp):
        ctx.fail("Servo constructor accepted bounds that are not min < max", label, "ValueError/TypeError", "object built", key="servo-ctor")
        return
    sa, sp = max(abs(mina), abs(maxa)), max(abs(minp), abs(maxp))

    def inv(get, at):
        st.oracle_checks += 1
        a, p = fval(get["read"]), fval(get["read_us"])
        if a is None or p is None:
            ctx.fail(f"{at}: read()/read_us() is not a finite float", label, "floats", get, key="servo-nonfloat")
            return False
        if not (le(mina, a, sa) and le(a, maxa, sa)):
            ctx.fail(f"{at}: angle outside its configured bounds", label, f"{float(mina)} <= angle <= {float(maxa)}", float(a), key="servo-angle-bounds")
            return False
        if not (le(minp, p, sp) and le(p, maxp, sp)):
            ctx.fail(f"{at}: pulse outside its configured bounds", label, f"{float(minp)} <= pulse <= {float(maxp)}", float(p), key="servo-pulse-bounds")
            return False
        want_p = minp + (a - mina) / (maxa - mina) * (maxp - minp)
        want_a = mina + (p - minp) / (maxp - minp) * (maxa - mina)
        if abs(p - want_p) > TOL * max(1, sp) or abs(a - want_a) > TOL * max(1, sa):
            ctx.fail(f"{at}: angle and pulse do not correspond under the configured linear map", label,
                     {"pulse(angle)": float(want_p), "angle(pulse)": float(want_a)}, {"angle": float(a), "pulse": float(p)}, key="servo-map")
            return False
        return True

    if not inv(r["get0"], "after construction"):
        return
    prev = snap0
    for i, rs in enumerate(r["steps"]):
        op = case[2][i]
        at = f"step {i} {calls[i + 1]}"
        if rs["res"] == "raise" and rs["snap"] != prev:
            ctx.fail(f"{at}: raised {rs['ret']} but changed the object", label, prev, rs["snap"], key="servo-atomic")
            return
        if not inv(rs["get"], at):
            return
        if op[0] in ("write", "write_us"):
            v = fnum(op[1])
            lo, hi, g = (mina, maxa, "read") if op[0] == "write" else (minp, maxp, "read_us")
            if v is not None and lo <= v <= hi:
                got = fval(rs["get"][g])
                if not close(got, v):
                    ctx.fail(f"{at}: {g}() after {op[0]}({show(op[1])}) with an in-range argument does not return it", label,
                             float(v), {"outcome": [rs["res"], rs["ret"]], g: float(got)}, key="servo-roundtrip")
                    return
        prev = rs["snap"]


def motor_oracle(ctx, st, case, r):
    """C19 clauses for DCMotor on the values the real object reports after every call."""
    label = replayable(case)
    calls = label["calls"]
    if r["ctor"][0] != "ok":
        return
    ghost_stop = False          # last successful command was stop()/run_for()
    prev_snap = r["ctor"][1]
    prev_get = r["get0"]

    def inv(get, at):
        st.oracle_checks += 1
        s, a = fval(get["get_speed"]), fval(get["get_applied_speed"])
        invd, mode = i_val(get["is_inverted"]), i_val(get["get_mode"])
        if s is None or a is None or invd[0] != "b" or mode[0] != "s":
            ctx.fail(f"{at}: getters do not return float/float/bool/str", label, "typed getters", get, key="motor-types")
            return False
        if not le(abs(s), 1.0):
            ctx.fail(f"{at}: |speed| > 1", label, "|speed| <= 1", float(s), key="motor-speed-bound")
            return False
        want = -s if invd[1] else s
        if not close(a, want):
            ctx.fail(f"{at}: applied speed is not the speed{' negated' if invd[1] else ''} (inverted={invd[1]})", label, float(want), float(a), key="motor-applied")
            return False
        want_mode = "drive" if a != 0 else ("brake" if ghost_stop else "coast")
        if mode[1] != want_mode:
            ctx.fail(f"{at}: mode is {mode[1]!r} with applied speed {float(a)!r}, last successful command "
                     f"{'was' if ghost_stop else 'was not'} stop()/run_for()", label, want_mode, mode[1], key="motor-mode-" + want_mode)
            return False
        return True

    if not inv(prev_get, "after construction"):
        return
    for i, rs in enumerate(r["steps"]):
        op = case[2][i]
        at = f"step {i} {calls[i + 1]}"
        ok = rs["res"] == "ok"
        if not ok and rs["snap"] != prev_snap:
            ctx.fail(f"{at}: raised {rs['ret']} but changed the object", label, prev_snap, rs["snap"], key="motor-atomic")
            return
        if ok:
            if op[0] in ("stop", "run_for"):
                ghost_stop = True
            elif op[0] in ("set_speed", "backward", "coast", "invert", "ramp"):
                ghost_stop = False
        if not inv(rs["get"], at):
            return
        evs = i_events(rs["events"])
        sleeps = [e[1][1] for e in evs if e[0] == "sleep" and e[1][0] == "f"]
        if ok and op[0] == "ramp":
            target = max(-1.0, min(1.0, fnum(op[1])))
            dur = fnum(op[2])
            speeds = [e[1][1] for e in evs if e[0] == "lvl"]
            start = fval(prev_get["get_speed"])
            end = fval(rs["get"]["get_speed"])
            if len(speeds) != 20:
                ctx.fail(f"{at}: ramp applied {len(speeds)} speed steps", label, 20, len(speeds), key="ramp-steps")
                return
            eps = 1e-12
            seq = [start] + speeds
            up = all(y >= x - eps for x, y in zip(seq, seq[1:]))
            down = all(y <= x + eps for x, y in zip(seq, seq[1:]))
            if not ((target >= start - eps and up) or (target <= start + eps and down)):
                ctx.fail(f"{at}: ramp steps are not monotone from the start speed towards the target", label,
                         "monotone", [float(x) for x in seq], key="ramp-monotone")
                return
            if not close(end, target) or not close(speeds[-1], target):
                ctx.fail(f"{at}: ramp does not end at the clamped target", label, float(target), float(end), key="ramp-target")
                return
            if not le(sum(sleeps), dur):
                ctx.fail(f"{at}: ramp slept longer than the requested duration", label, float(dur), float(sum(sleeps)), key="ramp-sleep")
                return
        if ok and op[0] == "run_for":
            dur = fnum(op[1])
            if len(sleeps) != len([e for e in evs if e[0] == "sleep"]) or not close(sum(sleeps), dur):
                ctx.fail(f"{at}: run_for did not sleep exactly duration_ms", label, float(dur), [float(x) for x in sleeps], key="run_for-sleep")
                return
            if i_val(rs["get"]["get_mode"])[1] != "brake" or fval(rs["get"]["get_speed"]) != 0:
                ctx.fail(f"{at}: run_for did not end braked", label, {"mode": "brake", "speed": 0.0}, rs["get"], key="run_for-brake")
                return
        if ok and op[0] == "invert" and i > 0 and case[2][i - 1][0] == "invert" and r["steps"][i - 1]["res"] == "ok":
            before = r["steps"][i - 2]["get"] if i >= 2 else r["get0"]
            now = rs["get"]
            same_fields = all(same(i_val(before[g]), i_val(now[g])) for g in ("get_speed", "get_applied_speed", "is_inverted"))
            m0, m1 = i_val(before["get_mode"])[1], i_val(now["get_mode"])[1]
            if not same_fields or m1 != ("coast" if m0 == "brake" else m0):
                ctx.fail(f"{at}: invert(); invert() did not restore the motor", label, before, now, key="invert-involution")
                return
        prev_snap, prev_get = rs["snap"], rs["get"]


# --------------------------------------------------------------------------
# generators
# --------------------------------------------------------------------------

H = Fr(1, 2)
EPS = Fr(1, 1024)

CALIBS = {
    # name: (ctor args, (min_angle, max_angle, min_pulse, max_pulse) as numbers)
    "default": ([ABSENT] * 5, (Fr(0), Fr(180), Fr(544), Fr(2400))),
    "neg": ([3, -90, 90, 1000, 2000], (Fr(-90), Fr(90), Fr(1000), Fr(2000))),
    "frac": ([ABSENT, Fr(21, 2), Fr(401, 4), Fr(1001, 2), 2500], (Fr(21, 2), Fr(401, 4), Fr(1001, 2), Fr(2500))),
}

SERVO_BAD_CTORS = [
    [ABSENT, 180, 0, ABSENT, ABSENT], [ABSENT, 90, 90, ABSENT, ABSENT], [ABSENT, Fr(90), 90, ABSENT, ABSENT],
    [ABSENT, None, ABSENT, ABSENT, ABSENT], [ABSENT, ABSENT, None, ABSENT, ABSENT], [ABSENT, None, None, ABSENT, ABSENT],
    [ABSENT, ABSENT, ABSENT, 2400, 544], [ABSENT, ABSENT, ABSENT, 1000, 1000], [ABSENT, ABSENT, ABSENT, None, ABSENT],
    [ABSENT, ABSENT, ABSENT, ABSENT, None], [ABSENT, 10, 5, None, ABSENT], [ABSENT, None, ABSENT, 2400, 544],
    [ABSENT, True, False, ABSENT, ABSENT], [ABSENT, ABSENT, 0, ABSENT, ABSENT], [ABSENT, ABSENT, ABSENT, ABSENT, 544],
    [ABSENT, 180, ABSENT, ABSENT, ABSENT], [ABSENT, ABSENT, ABSENT, Fr(2400), ABSENT],
]
SERVO_ODD_CTORS = [      # accepted, unusual argument types
    [None, False, True, False, True], [True, ABSENT, 1, ABSENT, Fr(1089, 2)], [Fr(9, 2), -1, ABSENT, -1, ABSENT],
    [ABSENT, Fr(-1, 8), Fr(1, 4), Fr(-1, 8), Fr(1, 4)], [ABSENT, 0, 1, 0, 1 << 20],
]


def as_int_if_whole(q):
    return int(q) if q.denominator == 1 else q


def servo_values(lo, hi):
    """boundary alphabet for one axis: min, max, mid, min-eps, max+eps, +-1 outside, int/float variants, bools, None"""
    mid = (lo + hi) / 2
    vals = [lo, hi, mid, lo - EPS, hi + EPS, lo - 1, hi + 1, lo + EPS, hi - EPS, (lo + mid) / 2 + Fr(1, 8), True, False, None]
    out = []
    for v in vals:
        out.append(v)
        if isinstance(v, Fr) and v.denominator == 1 and v in (lo, hi, mid):
            out.append(int(v))          # the same number as a Python int
    return out


def servo_alphabet(cal):
    mina, maxa, minp, maxp = CALIBS[cal][1]
    ops = [("write", v) for v in servo_values(mina, maxa)] + [("write_us", v) for v in servo_values(minp, maxp)]
    return ops + [("read",), ("read_us",)]


def servo_seeds():
    out = []
    for cal, (ctor, (mina, maxa, minp, maxp)) in CALIBS.items():
        out.append((cal, ctor, []))
        out.append((cal, ctor, [("write", (mina + maxa) / 2)]))
        out.append((cal, ctor, [("write_us", maxp)]))
    out.append(("default", CALIBS["default"][0], [("write", 180), ("write_us", Fr(2001, 2))]))
    out.append(("neg", CALIBS["neg"][0], [("write_us", Fr(2501, 2)), ("write", None)]))
    return out


SPEEDS = [-2, Fr(-1), -H, -EPS, 0, EPS, H, Fr(1), 2, None, True]
DURS = [-1, 0, 20, 100, Fr(5, 2)]
DURS_X = DURS + [None, True]

MOTOR_PINS = [2, 3, 5]
MOTOR_CTORS = [
    [2, 3, 5], [2, 2, 5], [2, 3, 2], [5, 3, 3], [True, 1, 5], [False, 0, 5], [True, False, 5], [0, 1, 2],
    [Fr(2), 3, 5], [2, None, 5], [2, 3, None], [2, 2, None], [None, None, None], [-1, -2, -3], [1 << 40, 3, 5],
    [2, 3, Fr(5, 2)], [True, True, Fr(1)],
]

MOTOR_QUICK = (
    [("set_speed", v) for v in (-2, -H, -EPS, 0, H, Fr(1), None, True)]
    + [("backward",), ("backward", H), ("backward", -2), ("backward", None)]
    + [("stop",), ("coast",), ("invert",)]
    + [("ramp", t, d) for t, d in ((-2, 20), (H, 0), (0, 100), (EPS, Fr(5, 2)), (Fr(1), -1), (None, 20), (H, None), (-H, True), (None, -1))]
    + [("run_for", d, v) for d, v in ((20, H), (0, -2), (Fr(5, 2), 0), (-1, Fr(1)), (None, H), (20, None), (100, -EPS), (-1, None))]
    + [("get_speed",), ("get_applied_speed",), ("is_inverted",), ("get_mode",)]
)

MOTOR_FULL = (
    [("set_speed", v) for v in SPEEDS + [False, Fr(0), Fr(5, 2)]]
    + [("backward",)] + [("backward", v) for v in SPEEDS]
    + [("stop",), ("coast",), ("invert",)]
    + [("ramp", t, d) for t in SPEEDS for d in DURS_X]
    + [("run_for", d, v) for d in DURS_X for v in SPEEDS]
    + [("get_speed",), ("get_applied_speed",), ("is_inverted",), ("get_mode",)]
)

MOTOR_SEEDS = [
    [], [("set_speed", H)], [("set_speed", -1)], [("invert",)], [("invert",), ("set_speed", H)],
    [("set_speed", H), ("stop",)], [("set_speed", H), ("coast",)], [("set_speed", EPS)],
    [("invert",), ("run_for", 20, 1)], [("ramp", Fr(1), 20)],
]


def rand_motor_value(rng, pool_in, pool_edge, pool_bad):
    x = rng.random()
    return rng.choice(pool_in if x < 0.7 else pool_edge if x < 0.9 else pool_bad)


def random_motor_seq(rng):
    n = rng.randint(3, 15)
    sp_in = [Fr(k, 8) for k in range(-8, 9)] + [Fr(k, 64) for k in (-63, -1, 1, 63)]
    sp_edge = [-2, Fr(-1), Fr(1), 2, -EPS, EPS, 0, Fr(0), True, False, Fr(5, 4), Fr(-9, 8)]
    sp_bad = [None]
    du_in = [0, 20, 100, Fr(5, 2), 1, 40, Fr(1, 4), 1000]
    du_edge = [0, Fr(0), True, False, Fr(1, 1024)]
    du_bad = [-1, None, Fr(-1, 2), -20]
    ops = []
    for _ in range(n):
        k = rng.random()
        if k < 0.22:
            ops.append(("set_speed", rand_motor_value(rng, sp_in, sp_edge, sp_bad)))
        elif k < 0.30:
            ops.append(("backward",) if rng.random() < 0.3 else ("backward", rand_motor_value(rng, sp_in, sp_edge, sp_bad)))
        elif k < 0.38:
            ops.append(("stop",))
        elif k < 0.44:
            ops.append(("coast",))
        elif k < 0.58:
            ops.append(("invert",))
        elif k < 0.74:
            ops.append(("ramp", rand_motor_value(rng, sp_in, sp_edge, sp_bad), rand_motor_value(rng, du_in, du_edge, du_bad)))
        elif k < 0.88:
            ops.append(("run_for", rand_motor_value(rng, du_in, du_edge, du_bad), rand_motor_value(rng, sp_in, sp_edge, sp_bad)))
        else:
            ops.append((rng.choice(["get_speed", "get_applied_speed", "is_inverted", "get_mode"]),))
    return ops


def random_servo_case(rng):
    cal = rng.choice(list(CALIBS))
    ctor, (mina, maxa, minp, maxp) = CALIBS[cal]
    n = rng.randint(3, 15)
    ops = []
    for _ in range(n):
        k = rng.random()
        if k < 0.8:
            name, lo, hi = ("write", mina, maxa) if rng.random() < 0.5 else ("write_us", minp, maxp)
            x = rng.random()
            if x < 0.7:
                v = lo + (hi - lo) * Fr(rng.randint(0, 64), 64)
                v = as_int_if_whole(v) if rng.random() < 0.3 else v
            elif x < 0.9:
                v = rng.choice([lo, hi, lo + EPS, hi - EPS, as_int_if_whole(lo), as_int_if_whole(hi)])
            else:
                v = rng.choice([lo - EPS, hi + EPS, lo - 1, hi + 1000, None, True, False, lo - Fr(1, 1 << 30)])
            ops.append((name, v))
        else:
            ops.append((rng.choice(["read", "read_us"]),))
    return ("servo", ctor, ops)


def generate(ctx):
    """returns list of (stream, case)"""
    rng = ctx.rng
    thorough = ctx.tier == "thorough"
    cases = []
    # constructors
    for c in SERVO_BAD_CTORS + SERVO_ODD_CTORS + [v[0] for v in CALIBS.values()]:
        cases.append(("servo-ctor", ("servo", c, [("read",), ("read_us",), ("write", 1), ("write_us", 1), ("write", None)])))
    for c in MOTOR_CTORS:
        cases.append(("motor-ctor", ("motor", c, [("get_mode",), ("set_speed", H), ("invert",), ("stop",)])))
    # servo: exhaustive pairs over the boundary alphabet of the seed's calibration, from every seed
    for cal, ctor, pre in servo_seeds():
        alpha = servo_alphabet(cal)
        for a in alpha:
            for b in alpha:
                cases.append(("servo-pairs", ("servo", ctor, pre + [a, b])))
    # motor: every single op of the full alphabet from every seed; exhaustive pairs
    for pre in MOTOR_SEEDS:
        for a in MOTOR_FULL:
            cases.append(("motor-singles", ("motor", MOTOR_PINS, pre + [a, ("invert",), ("invert",)])))
        for a in MOTOR_QUICK:
            second = MOTOR_FULL if thorough else MOTOR_QUICK
            for b in second:
                cases.append(("motor-pairs", ("motor", MOTOR_PINS, pre + [a, b])))
        if thorough:
            for a in MOTOR_FULL:
                for b in MOTOR_QUICK:
                    cases.append(("motor-pairs", ("motor", MOTOR_PINS, pre + [a, b])))
    # seeded random histories
    n_rand = 6000 if thorough else 500
    for _ in range(n_rand):
        cases.append(("motor-random", ("motor", MOTOR_PINS, random_motor_seq(rng))))
        cases.append(("servo-random", random_servo_case(rng)))
    return cases


# --------------------------------------------------------------------------
# entry points
# --------------------------------------------------------------------------

def run_impl(cases):
    """the real classes on all cases: one runner process per chunk, chunks in parallel"""
    from concurrent.futures import ThreadPoolExecutor
    if not cases:
        return []
    n = max(1, min(C.NPROC, 8, len(cases) // 200 + 1))
    size = (len(cases) + n - 1) // n
    parts = [cases[i:i + size] for i in range(0, len(cases), size)]
    with ThreadPoolExecutor(max_workers=n) as ex:
        outs = list(ex.map(lambda part: C.run_impl("c19_motor_impl.py", {"cases": [json_case(c) for c in part]}, timeout=900), parts))
    return [r for o in outs for r in o]


def oracle(ctx, st, case, r):
    (servo_oracle if case[0] == "servo" else motor_oracle)(ctx, st, case, r)


def witness_case(w):
    """known-finding witness -> abstract case.  {"cls":..., "ctor":[...], "ops":[[name, args...]]} with floats as
    {"f":[num,den]}, omitted as "ABSENT", None as null."""
    def val(x):
        if x == "ABSENT":
            return ABSENT
        if isinstance(x, dict):
            return Fr(x["f"][0], x["f"][1])
        return x
    return (w["cls"], [val(a) for a in w["ctor"]], [tuple([o[0]] + [val(a) for a in o[1:]]) for o in w["ops"]])


def run_unit(ctx: C.Ctx):
    st = Stats()
    stream_cases = generate(ctx)
    cases = [c for _, c in stream_cases]
    for s, _ in stream_cases:
        st.bump(st.streams, s)
    impl = run_impl(cases)
    exe = ctx.exes.get(UNIT)
    model = ctx.model([wire_case(c) for c in cases], unit=UNIT) if exe else [None] * len(cases)
    n_dis = 0
    for case, r, m in zip(cases, impl, model):
        cls = case[0]
        st.cases += 1
        st.bump(st.lengths, len(case[2]))
        st.bump(st.ctor, cls + ":" + (r["ctor"][0] if r["ctor"][0] == "ok" else r["ctor"][1]))
        prev = r["ctor"][1] if r["ctor"][0] == "ok" else None
        for op, rs in zip(case[2], r["steps"]):
            st.steps += 1
            st.bump(st.ops, cls + "." + op[0])
            st.bump(st.outcomes, cls + "." + op[0] + ":" + ("ok" if rs["res"] == "ok" else rs["ret"]))
            if not op[0].startswith(("get", "is_", "read")) and (rs["res"] == "raise" or rs["snap"] != prev or rs["events"]):
                st.nontrivial.add((cls, repr(sorted(prev.items())), repr(op)))
            prev = rs["snap"]
        oracle(ctx, st, case, r)
        if m is not None and n_dis < 25:
            if not compare_case(ctx, st, case, m, r):
                n_dis += 1

    # known findings of this unit: replay each witness on the real classes
    for f in ctx.findings:
        if f.get("unit") != UNIT or f.get("kind") == "fixed":
            continue
        wc = witness_case(f["witness"])
        r = run_impl([wc])[0]
        probe = C.Ctx(ctx.id, ctx.tier, ctx.seed)
        probe.findings = []
        oracle(probe, Stats(), wc, r)
        if probe.failures:
            ctx.known(f"{f['id']}: {f['what']}")

    samples = [show_case(cases[i]) for i in (0, len(cases) // 3, len(cases) // 2, len(cases) - 1)]
    return {
        "unit": UNIT,
        "evaluations": st.steps,
        "distinct_nontrivial": len(st.nontrivial),
        "rule": ("Servo: constructor table (valid, invalid, odd types) + exhaustive op pairs over the boundary alphabet of each of 3 calibrations "
                 "(default, negative angles, fractional) from 11 seed states + seeded random histories (3-15 ops; 70% in range, 20% boundary, 10% invalid). "
                 "DCMotor: constructor table + every op of the full alphabet (speeds x durations) followed by invert;invert from 10 seed states + exhaustive "
                 "pairs (quick: 36x36, thorough: 36x|full| and |full|x36) from the same seeds + seeded random histories. "
                 "evaluations = method calls executed on the real objects and compared field by field with the model; "
                 "distinct non-trivial = distinct (class, full state before, op) with a non-getter op that raised, changed state or emitted events."),
        "samples": samples,
        "distribution": {"cases": st.cases, "streams": st.streams, "sequence_lengths": dict(sorted(st.lengths.items())),
                         "constructor_outcomes": st.ctor, "ops": dict(sorted(st.ops.items())),
                         "outcomes": dict(sorted(st.outcomes.items())), "oracle_invariant_evaluations": st.oracle_checks,
                         "float_zero_residue_steps_tolerated": st.zero_noise},
        "guard": "none for this unit (no listed finding); inputs are ints, bools, None and dyadic floats, no IEEE specials",
        "unmodelled": [
            "binary64 rounding: model floats are exact rationals; compared to 1e-9 (a one-ulp excursion of a servo bound, or a ramp ending 1e-17 away from 0 with mode 'drive', is float rounding, tolerated and counted in float_zero_residue_steps_tolerated)",
            "IEEE specials (NaN, inf), ints beyond 2**53 and OverflowError of float(); numeric strings accepted by float() in DCMotor._clamp_speed; non-numeric objects other than None",
            "__repr__ of both classes",
        ],
        "trusted_base": [
            "harness/gen/c19_motor.py (reads DCMotor._RAMP_STEPS, the Servo constructor defaults and the public method signatures from the current source; fail-closed)",
            "harness/impl/c19_motor_impl.py (drives the real classes; records sleeps through Reduino.Actuators.sleep and level events by wrapping Servo.write/write_us and DCMotor._apply_speed/stop/coast)",
            "harness/props/c19_motor.py (generators, comparison with 1e-9 float tolerance, oracle)",
        ],
        "assumptions": ["Python floats behave as exact rationals up to 1e-9 on the generated dyadic inputs (measured by the correspondence)",
                        "the last-command ghost changes only on successful stop/run_for/set_speed/backward/coast/invert/ramp (DESIGN.md A.4)"],
    }


def from_json_case(j):
    def val(t):
        if t is None:
            return ABSENT
        return {"i": lambda: int(t[1]), "b": lambda: bool(t[1]), "o": lambda: None, "f": lambda: Fr(t[1], t[2])}[t[0]]()
    return (j["cls"], [val(a) for a in j["ctor"]], [tuple([o[0]] + [val(a) for a in o[1:]]) for o in j["ops"]])


def replay(data):
    """./check replay <file>: re-run the recorded case on the real classes and evaluate the oracle again."""
    case = from_json_case(data["case"]["json"])
    r = run_impl([case])[0]
    probe = C.Ctx(data.get("property", "C19"), "quick", 0)
    probe.findings = []
    oracle(probe, Stats(), case, r)
    for f in probe.failures:
        print("REPRODUCED:", f["what"], "| expected", f["expected"], "| observed", f["observed"])
    if not probe.failures:
        print("not reproduced on the current tree")
    return 1 if probe.failures else 0
