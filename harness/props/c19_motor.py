"""Unit C19_motor of property C19: host DCMotor invariants under every history.

run_unit(ctx) = correspondence (extracted Coq model coq/Wire/C19_motorW.v vs the real class, per
op: outcome, return value, every attribute, recorded sleeps, level events, the ghost "last
command") + property oracle evaluated on the real object after every op + an
implementation-only stream of IEEE specials / strings / huge ints inside the guard (oracle:
invariant + atomicity of failing calls, real Reduino.Utils.sleep validation active) + replay of
this unit's listed findings.
The property module harness/props/c19.py calls run_unit and merges the coverage it returns.
"""
from __future__ import annotations

import json
import math
from fractions import Fraction as Fr

from harness import common as C
from harness import c19_sm as S

UNIT = "C19_motor"

META_PART = (
    "DCMotor (unit C19_motor): C19_motor_inv_reachable / C19_motor_reachable (|speed|<=1, applied = speed negated when inverted, "
    "mode drive iff applied<>0 else brake iff the last successful command was stop/run_for, after every history from every "
    "accepted constructor call), C19_motor_ghost_step/_run, C19_invert_involution, C19_ramp (20 monotone steps ending on the "
    "clamped target, sleeps summing to exactly the duration), C19_run_for (one sleep of exactly duration_ms, ends braked), "
    "C19_motor_failed_call_atomic, C19_motor_raises, C19_motor_set_speed/_backward/_stop_coast (coq/Props/C19_motor.v) are "
    "proved for all arguments (int/float/bool/non-number) and histories about a Gallina model of DCMotor.py over exact "
    "rationals (_RAMP_STEPS and the default of backward() regenerated from the source on every run); the extracted model is run "
    "against the real class on every op of a speeds x durations alphabet from 10 seed states, exhaustive op pairs, a "
    "constructor table and seeded random histories, comparing outcome, return value, every attribute, recorded sleeps and "
    "level events per op."
)

H = Fr(1, 2)
EPS = Fr(1, 1024)
NAN, INF = float("nan"), float("inf")


# --------------------------------------------------------------------------
# property oracle on the real object (independent of the model)
# --------------------------------------------------------------------------

def oracle(ctx, st, case, r, safety_only=False):
    """C19 clauses for DCMotor on the values the real object reports after every call."""
    label = S.replayable(case)
    calls = label["calls"]
    if r["ctor"][0] != "ok":
        return
    ghost_stop = False          # last successful command was stop()/run_for()
    prev_snap = r["ctor"][1]
    prev_get = r["get0"]

    def inv(get, at):
        st.oracle_checks += 1
        s, a = S.fval(get["get_speed"]), S.fval(get["get_applied_speed"])
        invd, mode = S.i_val(get["is_inverted"]), S.i_val(get["get_mode"])
        if s is None or a is None or invd[0] != "b" or mode[0] != "s":
            ctx.fail(f"{at}: getters do not return finite float / finite float / bool / str", label, "typed getters", get, key="motor-types")
            return False
        if not S.le(abs(s), 1.0):
            ctx.fail(f"{at}: |speed| > 1", label, "|speed| <= 1", float(s), key="motor-speed-bound")
            return False
        want = -s if invd[1] else s
        if not S.close(a, want):
            ctx.fail(f"{at}: applied speed is not the speed{' negated' if invd[1] else ''} (inverted={invd[1]})", label, float(want), float(a), key="motor-applied")
            return False
        want_mode = "drive" if a != 0 else ("brake" if ghost_stop else "coast")
        if mode[1] != want_mode:
            ctx.fail(f"{at}: mode is {mode[1]!r} with applied speed {float(a)!r}, last successful command "
                     f"{'was' if ghost_stop else 'was not'} stop()/run_for()", label, want_mode, mode[1], key="motor-mode-" + want_mode)
            return False
        return True

    if not inv(prev_get, "after construction"):
        return
    for i, rs in enumerate(r["steps"]):
        op = case[2][i]
        at = f"step {i} {calls[i + 1]}"
        ok = rs["res"] == "ok"
        if not ok and rs["snap"] != prev_snap:
            ctx.fail(f"{at}: raised {rs['ret']} but changed the object", label, prev_snap, rs["snap"], key="motor-atomic")
            return
        if ok:
            if op[0] in ("stop", "run_for"):
                ghost_stop = True
            elif op[0] in ("set_speed", "backward", "coast", "invert", "ramp"):
                ghost_stop = False
        if not inv(rs["get"], at):
            return
        if op[0] in ("get_speed", "get_applied_speed", "is_inverted", "get_mode") and rs["snap"] != prev_snap:
            ctx.fail(f"{at}: a getter changed the object", label, prev_snap, rs["snap"], key="motor-getter-pure")
            return
        evs = S.i_events(rs["events"])
        sleeps = [e[1][1] for e in evs if e[0] == "sleep" and e[1][0] == "f"]
        numeric = all(S.fnum(a) is not None for a in op[1:])
        if ok and op[0] == "ramp" and numeric and not safety_only:
            target = max(-1.0, min(1.0, S.fnum(op[1])))
            dur = S.fnum(op[2])
            speeds = [e[1][1] for e in evs if e[0] == "lvl"]
            start = S.fval(prev_get["get_speed"])
            end = S.fval(rs["get"]["get_speed"])
            if len(speeds) != 20:
                ctx.fail(f"{at}: ramp applied {len(speeds)} speed steps", label, 20, len(speeds), key="ramp-steps")
                return
            eps = 1e-12
            seq = [start] + speeds
            up = all(y >= x - eps for x, y in zip(seq, seq[1:]))
            down = all(y <= x + eps for x, y in zip(seq, seq[1:]))
            if not ((target >= start - eps and up) or (target <= start + eps and down)):
                ctx.fail(f"{at}: ramp steps are not monotone from the start speed towards the target", label,
                         "monotone", [float(x) for x in seq], key="ramp-monotone")
                return
            if not S.close(end, target) or not S.close(speeds[-1], target):
                ctx.fail(f"{at}: ramp does not end at the clamped target", label, float(target), float(end), key="ramp-target")
                return
            if len(sleeps) != len([e for e in evs if e[0] == "sleep"]) or not S.le(sum(sleeps), dur):
                ctx.fail(f"{at}: ramp slept longer than the requested duration", label, float(dur), [float(x) for x in sleeps], key="ramp-sleep")
                return
        if ok and op[0] == "run_for" and numeric and not safety_only:
            dur = S.fnum(op[1])
            if len(sleeps) != len([e for e in evs if e[0] == "sleep"]) or not S.close(sum(sleeps), dur):
                ctx.fail(f"{at}: run_for did not sleep exactly duration_ms", label, float(dur), [float(x) for x in sleeps], key="run_for-sleep")
                return
            if S.i_val(rs["get"]["get_mode"])[1] != "brake" or S.fval(rs["get"]["get_speed"]) != 0:
                ctx.fail(f"{at}: run_for did not end braked", label, {"mode": "brake", "speed": 0.0}, rs["get"], key="run_for-brake")
                return
        if ok and op[0] == "invert" and i > 0 and case[2][i - 1][0] == "invert" and r["steps"][i - 1]["res"] == "ok":
            before = r["steps"][i - 2]["get"] if i >= 2 else r["get0"]
            now = rs["get"]
            same_fields = all(S.same(S.i_val(before[g]), S.i_val(now[g])) for g in ("get_speed", "get_applied_speed", "is_inverted"))
            m0, m1 = S.i_val(before["get_mode"])[1], S.i_val(now["get_mode"])[1]
            if not same_fields or m1 != ("coast" if m0 == "brake" else m0):
                ctx.fail(f"{at}: invert(); invert() did not restore the motor", label, before, now, key="invert-involution")
                return
        prev_snap, prev_get = rs["snap"], rs["get"]


# --------------------------------------------------------------------------
# generators
# --------------------------------------------------------------------------

SPEEDS = [-2, Fr(-1), -H, -EPS, 0, EPS, H, Fr(1), 2, None, True]
DURS = [-1, 0, 20, 100, Fr(5, 2)]
DURS_X = DURS + [None, True]

PINS = [2, 3, 5]
CTORS = [
    [2, 3, 5], [2, 2, 5], [2, 3, 2], [5, 3, 3], [True, 1, 5], [False, 0, 5], [True, False, 5], [0, 1, 2],
    [Fr(2), 3, 5], [2, None, 5], [2, 3, None], [2, 2, None], [None, None, None], [-1, -2, -3], [1 << 40, 3, 5],
    [2, 3, Fr(5, 2)], [True, True, Fr(1)], [1, True, 7], [7, 0, False], [-1, 1, True], [3, 3, 3], [Fr(3), Fr(3), 3],
]

QUICK = (
    [("set_speed", v) for v in (-2, -H, -EPS, 0, H, Fr(1), None, True)]
    + [("backward",), ("backward", H), ("backward", -2), ("backward", None)]
    + [("stop",), ("coast",), ("invert",)]
    + [("ramp", t, d) for t, d in ((-2, 20), (H, 0), (0, 100), (EPS, Fr(5, 2)), (Fr(1), -1), (None, 20), (H, None), (-H, True), (None, -1))]
    + [("run_for", d, v) for d, v in ((20, H), (0, -2), (Fr(5, 2), 0), (-1, Fr(1)), (None, H), (20, None), (100, -EPS), (-1, None))]
    + [("get_speed",), ("get_applied_speed",), ("is_inverted",), ("get_mode",)]
)

FULL = (
    [("set_speed", v) for v in SPEEDS + [False, Fr(0), Fr(5, 2), Fr(1) + EPS, Fr(-1) - EPS, Fr(1) - EPS]]
    + [("backward",)] + [("backward", v) for v in SPEEDS]
    + [("stop",), ("coast",), ("invert",)]
    + [("ramp", t, d) for t in SPEEDS for d in DURS_X]
    + [("run_for", d, v) for d in DURS_X for v in SPEEDS]
    + [("get_speed",), ("get_applied_speed",), ("is_inverted",), ("get_mode",)]
)

SEEDS = [
    [], [("set_speed", H)], [("set_speed", -1)], [("invert",)], [("invert",), ("set_speed", H)],
    [("set_speed", H), ("stop",)], [("set_speed", H), ("coast",)], [("set_speed", EPS)],
    [("invert",), ("run_for", 20, 1)], [("ramp", Fr(1), 20)],
]


def rand_value(rng, pool_in, pool_edge, pool_bad):
    x = rng.random()
    return rng.choice(pool_in if x < 0.7 else pool_edge if x < 0.9 else pool_bad)


def random_seq(rng):
    n = rng.randint(3, 15)
    sp_in = [Fr(k, 8) for k in range(-8, 9)] + [Fr(k, 64) for k in (-63, -1, 1, 63)]
    sp_edge = [-2, Fr(-1), Fr(1), 2, -EPS, EPS, 0, Fr(0), True, False, Fr(5, 4), Fr(-9, 8)]
    sp_bad = [None]
    du_in = [0, 20, 100, Fr(5, 2), 1, 40, Fr(1, 4), 1000]
    du_edge = [0, Fr(0), True, False, Fr(1, 1024)]
    du_bad = [-1, None, Fr(-1, 2), -20, Fr(-1, 1024)]
    ops = []
    for _ in range(n):
        k = rng.random()
        if k < 0.22:
            ops.append(("set_speed", rand_value(rng, sp_in, sp_edge, sp_bad)))
        elif k < 0.30:
            ops.append(("backward",) if rng.random() < 0.3 else ("backward", rand_value(rng, sp_in, sp_edge, sp_bad)))
        elif k < 0.38:
            ops.append(("stop",))
        elif k < 0.44:
            ops.append(("coast",))
        elif k < 0.58:
            ops.append(("invert",))
        elif k < 0.74:
            ops.append(("ramp", rand_value(rng, sp_in, sp_edge, sp_bad), rand_value(rng, du_in, du_edge, du_bad)))
        elif k < 0.88:
            ops.append(("run_for", rand_value(rng, du_in, du_edge, du_bad), rand_value(rng, sp_in, sp_edge, sp_bad)))
        else:
            ops.append((rng.choice(["get_speed", "get_applied_speed", "is_inverted", "get_mode"]),))
    return ops


def generate(ctx):
    """returns list of (stream, case)"""
    rng = ctx.rng
    thorough = ctx.tier == "thorough"
    cases = []
    for c in CTORS:
        cases.append(("ctor-table", ("motor", c, [("get_mode",), ("set_speed", H), ("invert",), ("stop",)])))
    # every single op of the full alphabet from every seed, then invert twice; exhaustive pairs
    for pre in SEEDS:
        for a in FULL:
            cases.append(("singles", ("motor", PINS, pre + [a, ("invert",), ("invert",)])))
        for a in QUICK:
            second = FULL if thorough else QUICK
            for b in second:
                cases.append(("pairs", ("motor", PINS, pre + [a, b])))
        if thorough:
            for a in FULL:
                for b in QUICK:
                    cases.append(("pairs", ("motor", PINS, pre + [a, b])))
    for _ in range(8000 if thorough else 700):
        cases.append(("random", ("motor", PINS, random_seq(rng))))
    return cases


def specials_cases():
    """Outside the model, inside the guard (no NaN speed, durations that Reduino.Utils.sleep accepts): implementation only,
    oracle = invariant + atomicity of failing calls; the real Reduino.Utils.sleep validation is active."""
    big = 10 ** 400
    ops = [("set_speed", INF), ("set_speed", -INF), ("set_speed", -0.0), ("set_speed", "0.5"), ("set_speed", " -1e3 "), ("set_speed", "abc"),
           ("set_speed", big), ("set_speed", -big), ("backward", INF), ("backward", -INF), ("backward", "0.25"), ("backward", "x"), ("backward", big),
           ("ramp", INF, 20), ("ramp", -INF, 0), ("ramp", "0.25", 20), ("ramp", "x", 20), ("ramp", H, "5"), ("ramp", big, 5), ("ramp", H, -INF),
           ("ramp", H, NAN), ("ramp", H, -0.0), ("ramp", NAN, -1),
           ("run_for", 20, INF), ("run_for", 0, -INF), ("run_for", 20, "0.5"), ("run_for", 20, "x"), ("run_for", "5", H), ("run_for", 20, big),
           ("run_for", -INF, H), ("run_for", -0.0, H), ("run_for", -big, H), ("run_for", -1, NAN)]
    cases = []
    for pre in ([], [("set_speed", H)], [("invert",), ("set_speed", -H)], [("set_speed", H), ("stop",)]):
        for o in ops:
            cases.append(("motor", PINS, pre + [o, ("get_mode",), ("invert",), ("invert",)]))
    cases += [("motor", c, [("set_speed", H)]) for c in ([2.0, 3, 5], ["2", 3, 5], [NAN, 3, 5], [2, 3, INF], [big, 3, 5], [big, big, 5])]
    return cases


# --------------------------------------------------------------------------
# entry points
# --------------------------------------------------------------------------

def replay_findings(ctx):
    for f in ctx.findings:
        if f.get("unit") != UNIT or f.get("kind") == "fixed" or "witness" not in f:
            continue
        wc = S.witness_case(f["witness"])
        r = S.run_impl("motor", [wc], real_sleep=True)[0]
        if S.probe_oracle(ctx, oracle, wc, r, safety_only=True):
            ctx.known(f"{f['id']}: {f['what']}")


def run_unit(ctx: C.Ctx) -> dict:
    st = S.Stats()
    n_fail0 = len(ctx.failures)
    stream_cases = generate(ctx)
    cases = [c for _, c in stream_cases]
    for s, _ in stream_cases:
        st.bump(st.streams, s)
    impl = S.run_impl("motor", cases)
    exe = ctx.exes.get(UNIT)
    model = ctx.model([S.wire_case(c) for c in cases], unit=UNIT) if exe else [None] * len(cases)
    n_dis = 0
    for case, r, m in zip(cases, impl, model):
        S.account(st, case, r)
        oracle(ctx, st, case, r)
        if m is not None and n_dis < 25:
            if not S.compare_case(ctx, st, case, m, r):
                n_dis += 1
    spec = specials_cases()
    n_spec = 0
    for case, r in zip(spec, S.run_impl("motor", spec, real_sleep=True)):
        n_spec += len(r["steps"])
        oracle(ctx, st, case, r, safety_only=True)
    replay_findings(ctx)
    # report the shortest failing history of each class first (ctx.finish keeps the first per key)
    ctx.failures[n_fail0:] = sorted(ctx.failures[n_fail0:], key=lambda f: len(f["case"]["calls"]))

    samples = [S.show_case(cases[i]) for i in (0, len(cases) // 3, len(cases) // 2, len(cases) - 1)]
    dist = S.distribution(st)
    dist["specials_stream_ops_implementation_only"] = n_spec
    return {
        "unit": UNIT,
        "evaluations": st.steps,
        "distinct_nontrivial": len(st.nontrivial),
        "rule": ("DCMotor: constructor table (%d pin triples: ints, bools equal to ints, floats, None, duplicates) + every op of the full alphabet "
                 "(%d ops: speeds -2,-1,-1/2,-1/1024,0,1/1024,1/2,1,2,None,True x durations -1,0,20,100,5/2,None,True) followed by invert;invert from 10 "
                 "seed states + exhaustive pairs (quick: %dx%d, thorough: %dx%d and %dx%d) from the same seeds + seeded random histories (3-15 ops; 70%% in "
                 "range, 20%% boundary, 10%% invalid). evaluations = method calls executed on the real objects and compared field by field with the model; "
                 "distinct non-trivial = distinct (full state before, call) with a non-getter call that raised, changed state or emitted events."
                 % (len(CTORS), len(FULL), len(QUICK), len(QUICK), len(QUICK), len(FULL), len(FULL), len(QUICK))),
        "samples": samples,
        "distribution": dist,
        "guard": ("speed arguments are not NaN (F-C19-motor-nan-speed) and duration_ms is a finite number below 2**31 that Reduino.Utils.sleep/time.sleep "
                  "accept (F-C19-motor-nonfinite-duration); model streams use ints, bools, None and dyadic floats only"),
        "unmodelled": [
            "binary64 rounding: model floats are exact rationals; compared to 1e-9 (a ramp ending 1e-17 away from 0 with mode 'drive' is float rounding, tolerated and counted in float_zero_residue_steps_tolerated)",
            "IEEE specials (inf, -0.0), numeric strings accepted by float() in DCMotor._clamp_speed, other strings and ints beyond the float range: sent to the implementation only, oracle = invariant + atomicity of failing calls",
            "the wait itself: the package-level sleep is replaced by a recorder (as tests/test_actuators.py does); in the specials stream and the finding replays the recorder additionally runs the real Reduino.Utils.sleep validation and hands non-finite durations to the real time.sleep",
            "DCMotor.__repr__ (debug helper)", "keyword-argument calls (C08's subject); direct writes to the attributes; a patched _RAMP_STEPS <= 0 (the model follows the generated constant)",
        ],
        "trusted_base": [
            "harness/gen/c19_motor.py (reads DCMotor._RAMP_STEPS, the default of backward() and the public method signatures from the current source; fail-closed)",
            "harness/impl/c19_motor_impl.py + c19_sm_runner.py (drive the real class; sleeps recorded through Reduino.Actuators.sleep, level events by wrapping DCMotor._apply_speed/stop/coast)",
            "harness/props/c19_motor.py + harness/c19_sm.py (generators, comparison with 1e-9 float tolerance, oracle)",
        ],
        "assumptions": ["Python floats behave as exact rationals up to 1e-9 on the generated dyadic inputs (measured by the correspondence)",
                        "the last-command ghost changes only on successful stop/run_for/set_speed/backward/coast/invert/ramp (DESIGN.md A.4; proved for the model as C19_motor_ghost_step, compared per op with the history of real outcomes)",
                        "DCMotor objects are only driven through their public methods"],
    }


def replay_unit(data) -> int:
    """./check replay <file>: re-run the recorded case on the real class and evaluate the oracle again."""
    cj = (data.get("case") or {}).get("json") if isinstance(data.get("case"), dict) else None
    if not cj or cj.get("cls") != "motor":
        return 0
    case = S.from_json_case(cj)
    r = S.run_impl("motor", [case], real_sleep=True)[0]
    fails = S.probe_oracle(data.get("property", "C19"), oracle, case, r)
    print(json.dumps({"implementation": r["steps"][-1] if r["steps"] else r["ctor"], "oracle_failures": fails}, indent=1, default=str)[:4000])
    return 1 if fails else 0
