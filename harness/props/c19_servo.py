"""Unit C19_servo of property C19: host Servo invariants under every history.

run_unit(ctx) = correspondence (extracted Coq model coq/Wire/C19_servoW.v vs the real class, per
op: outcome, return value, every attribute, level events) + property oracle evaluated on the
real object after every op + constructor calls with NaN / infinite calibration bounds (model
with specials Host/ActuatorsX.v vs the real constructor, and the oracle) + an implementation-only
stream of IEEE specials / strings / huge ints (oracle: invariant + atomicity of failing calls) +
replay of this unit's findings.  The former finding of this unit (F-C19-servo-nonfinite-bound)
is repaired in the project (kind "fixed"): it excludes nothing, its witness is replayed FIRST on
every run and a witness that fails again is a VIOLATION whose replay is that witness.
The property module harness/props/c19.py calls run_unit and merges the coverage it returns.
"""
from __future__ import annotations

import json
from fractions import Fraction as Fr

from harness import common as C
from harness import c19_sm as S
from harness.c19_sm import ABSENT

UNIT = "C19_servo"

META_PART = (
    "Servo (unit C19_servo): C19_servo_inv_reachable (angle and pulse inside their bounds and images of each other "
    "under the configured linear map after every history from every accepted constructor call), C19_servo_roundtrip, "
    "C19_servo_maps_inverse/_endpoints/_monotone, C19_servo_failed_call_atomic, C19_servo_raises, C19_servo_ctor(_raises) "
    "(coq/Props/C19_servo.v) are proved for all calibrations, arguments (int/float/bool/non-number) and histories about a "
    "Gallina model of Servo.py over exact rationals (constructor defaults regenerated from the source on every run); "
    "C19_servo_bounds_finite / C19_servo_bounds (for ALL floats, NaN and the infinities included, the constructor's checks accept "
    "exactly four finite bounds with min < max on both axes - refuted before the repair of Servo.__init__ in the project); the "
    "extracted model is run against the real class on exhaustive op pairs over a boundary alphabet from 11 seed states of 3 "
    "calibrations, a constructor table and seeded random histories, comparing outcome, return value, every attribute and "
    "the level events per op. BINARY64 (Host/ServoFloat.v: the five rounded operations of each map, fl53, then the clamp to the configured bounds "
    "the class applies since the repair of F-C19-servo-bound-ulp): the bound clauses are exact inequalities - C19_servo_binary64_bounds_reachable / "
    "_bounds_run / _bounds_step / _map_within_bounds (angle and pulse within their bounds EXACTLY after every history from every accepted "
    "constructor call: no guard), C19_servo_binary64_pulse_bound_repaired / _angle_bound_repaired (the old witnesses end ON the bound; the raw "
    "interpolation is an ulp above it - the clamp is what keeps the clause), C19_servo_binary64_clamp_idle_inside_old_guard / "
    "_raw_map_within_bounds_partial (where the old guard top_ok holds the clamp never bites), C19_binary64_rounding_monotone / _idempotent, "
    "C19_servo_binary64_write_roundtrip / _write_us_roundtrip (the commanded coordinate is stored as given), _failed_call_atomic, "
    "_config_constant; the extracted binary64 model is compared BIT FOR BIT (no tolerance) with the real class on the pairs / random / "
    "random-decimal streams and on one-decimal calibrations on both sides of the old guard written at both ends, one ulp inside them and at decimal interior points."
)

H = Fr(1, 2)
EPS = Fr(1, 1024)
NAN, INF = float("nan"), float("inf")


# --------------------------------------------------------------------------
# property oracle on the real object (independent of the model)
# --------------------------------------------------------------------------

def oracle(ctx, st, case, r, safety_only=False):
    """C19 clauses for Servo on the values the real object reports after every call."""
    label = S.replayable(case)
    calls = label["calls"]
    if r["ctor"][0] != "ok":
        return
    ctor = case[1]
    snap0 = r["ctor"][1]
    # configured bounds: the explicit arguments (as floats); for omitted ones what the constructor stored
    conf = []
    for a, k in zip(ctor[1:], ["_min_angle", "_max_angle", "_min_pulse", "_max_pulse"]):
        conf.append(S.fnum(a) if a is not ABSENT else S.fval(snap0[k]))
    mina, maxa, minp, maxp = conf
    if None in conf or not (mina < maxa and minp < maxp):
        ctx.fail("Servo constructor accepted bounds that are not numbers with min < max", label, "ValueError/TypeError", "object built", key="servo-ctor")
        return
    sa, sp = max(abs(mina), abs(maxa)), max(abs(minp), abs(maxp))

    def inv(get, at):
        st.oracle_checks += 1
        a, p = S.fval(get["read"]), S.fval(get["read_us"])
        if a is None or p is None:
            ctx.fail(f"{at}: read()/read_us() is not a finite float", label, "floats", get, key="servo-nonfloat")
            return False
        # "angle and pulse stay within their bounds" are EXACT inequalities on the binary64 values the object holds
        # (no tolerance; one ulp above max is outside) - for every calibration: F-C19-servo-bound-ulp is repaired, no guard
        if not (mina <= a <= maxa):
            ctx.fail(f"{at}: angle outside its configured bounds", label, f"{float(mina)!r} <= angle <= {float(maxa)!r} (exact)", repr(float(a)), key="servo-angle-bounds")
            return False
        if not (minp <= p <= maxp):
            ctx.fail(f"{at}: pulse outside its configured bounds", label, f"{float(minp)!r} <= pulse <= {float(maxp)!r} (exact)", repr(float(p)), key="servo-pulse-bounds")
            return False
        want_p = minp + (a - mina) / (maxa - mina) * (maxp - minp)
        want_a = mina + (p - minp) / (maxp - minp) * (maxa - mina)
        if abs(p - want_p) > S.TOL * max(1, sp) or abs(a - want_a) > S.TOL * max(1, sa):
            ctx.fail(f"{at}: angle and pulse do not correspond under the configured linear map", label,
                     {"pulse(angle)": float(want_p), "angle(pulse)": float(want_a)}, {"angle": float(a), "pulse": float(p)}, key="servo-map")
            return False
        return True

    if not inv(r["get0"], "after construction"):
        return
    prev = snap0
    for i, rs in enumerate(r["steps"]):
        op = case[2][i]
        at = f"step {i} {calls[i + 1]}"
        if rs["res"] == "raise" and rs["snap"] != prev:
            ctx.fail(f"{at}: raised {rs['ret']} but changed the object", label, prev, rs["snap"], key="servo-atomic")
            return
        if rs["res"] == "raise" and rs["events"]:
            ctx.fail(f"{at}: raised {rs['ret']} after commanding a position", label, [], rs["events"], key="servo-atomic-events")
            return
        if not inv(rs["get"], at):
            return
        if op[0] in ("read", "read_us") and rs["snap"] != prev:
            ctx.fail(f"{at}: a getter changed the object", label, prev, rs["snap"], key="servo-getter-pure")
            return
        if op[0] in ("write", "write_us") and not safety_only:
            v = S.fnum(op[1])
            lo, hi, g = (mina, maxa, "read") if op[0] == "write" else (minp, maxp, "read_us")
            if v is not None and lo <= v <= hi:
                got = S.fval(rs["get"][g])
                if rs["res"] != "ok" or got != v:          # the commanded coordinate is stored as given: exact
                    ctx.fail(f"{at}: {g}() after {op[0]}({S.show(op[1])}) with an in-range argument does not return it", label,
                             float(v), {"outcome": [rs["res"], rs["ret"]], g: float(got)}, key="servo-roundtrip")
                    return
        prev = rs["snap"]


# --------------------------------------------------------------------------
# generators
# --------------------------------------------------------------------------

CALIBS = {
    # name: (ctor args, (min_angle, max_angle, min_pulse, max_pulse) as numbers)
    "default": ([ABSENT] * 5, (Fr(0), Fr(180), Fr(544), Fr(2400))),
    "neg": ([3, -90, 90, 1000, 2000], (Fr(-90), Fr(90), Fr(1000), Fr(2000))),
    "frac": ([ABSENT, Fr(21, 2), Fr(401, 4), Fr(1001, 2), 2500], (Fr(21, 2), Fr(401, 4), Fr(1001, 2), Fr(2500))),
}

BAD_CTORS = [
    [ABSENT, 180, 0, ABSENT, ABSENT], [ABSENT, 90, 90, ABSENT, ABSENT], [ABSENT, Fr(90), 90, ABSENT, ABSENT],
    [ABSENT, None, ABSENT, ABSENT, ABSENT], [ABSENT, ABSENT, None, ABSENT, ABSENT], [ABSENT, None, None, ABSENT, ABSENT],
    [ABSENT, ABSENT, ABSENT, 2400, 544], [ABSENT, ABSENT, ABSENT, 1000, 1000], [ABSENT, ABSENT, ABSENT, None, ABSENT],
    [ABSENT, ABSENT, ABSENT, ABSENT, None], [ABSENT, 10, 5, None, ABSENT], [ABSENT, None, ABSENT, 2400, 544],
    [ABSENT, True, False, ABSENT, ABSENT], [ABSENT, ABSENT, 0, ABSENT, ABSENT], [ABSENT, ABSENT, ABSENT, ABSENT, 544],
    [ABSENT, 180, ABSENT, ABSENT, ABSENT], [ABSENT, ABSENT, ABSENT, Fr(2400), ABSENT],
    [ABSENT, ABSENT, Fr(-1, 1024), ABSENT, ABSENT], [ABSENT, Fr(180) + EPS, ABSENT, ABSENT, ABSENT], [ABSENT, ABSENT, ABSENT, ABSENT, Fr(544) - EPS],
    [None, 5, 5, 7, 7], [None, 5, 6, 7, 7], [None, 5, 6, None, 7], [None, 6, 5, 8, None],
]
ODD_CTORS = [      # accepted, unusual argument types / narrow ranges
    [None, False, True, False, True], [True, ABSENT, 1, ABSENT, Fr(1089, 2)], [Fr(9, 2), -1, ABSENT, -1, ABSENT],
    [ABSENT, Fr(-1, 8), Fr(1, 4), Fr(-1, 8), Fr(1, 4)], [ABSENT, 0, 1, 0, 1 << 20], [ABSENT, Fr(180) - EPS, ABSENT, ABSENT, Fr(544) + EPS],
    [ABSENT, -(1 << 20), 1 << 20, 0, 1], [7, ABSENT, EPS, ABSENT, ABSENT],
]


def as_int_if_whole(q):
    return int(q) if q.denominator == 1 else q


def axis_values(lo, hi):
    """boundary alphabet for one axis: min, max, mid, min-eps, max+eps, +-1 outside, int/float variants, bools, None"""
    mid = (lo + hi) / 2
    vals = [lo, hi, mid, lo - EPS, hi + EPS, lo - 1, hi + 1, lo + EPS, hi - EPS, (lo + mid) / 2 + Fr(1, 8), True, False, None]
    out = []
    for v in vals:
        out.append(v)
        if isinstance(v, Fr) and v.denominator == 1 and v in (lo, hi, mid):
            out.append(int(v))          # the same number as a Python int
    return out


def alphabet(cal):
    mina, maxa, minp, maxp = CALIBS[cal][1]
    ops = [("write", v) for v in axis_values(mina, maxa)] + [("write_us", v) for v in axis_values(minp, maxp)]
    return ops + [("read",), ("read_us",)]


def seeds():
    out = []
    for cal, (ctor, (mina, maxa, minp, maxp)) in CALIBS.items():
        out.append((cal, ctor, []))
        out.append((cal, ctor, [("write", (mina + maxa) / 2)]))
        out.append((cal, ctor, [("write_us", maxp)]))
    out.append(("default", CALIBS["default"][0], [("write", 180), ("write_us", Fr(2001, 2))]))
    out.append(("neg", CALIBS["neg"][0], [("write_us", Fr(2501, 2)), ("write", None)]))
    return out


def random_calibration(rng):
    """a random accepted calibration (dyadic bounds, possibly negative / tiny / huge spans)"""
    def span():
        lo = Fr(rng.randint(-4000, 4000), rng.choice([1, 1, 2, 4, 8]))
        w = rng.choice([Fr(1, 8), Fr(1), Fr(180), Fr(1856), Fr(rng.randint(1, 100000), rng.choice([1, 2, 4]))])
        return lo, lo + w
    mina, maxa = span()
    minp, maxp = span()
    conv = lambda q: as_int_if_whole(q) if rng.random() < 0.5 else q
    pin = rng.choice([ABSENT, 9, 3, True, None])
    return [pin, conv(mina), conv(maxa), conv(minp), conv(maxp)], (mina, maxa, minp, maxp)


# calibrations whose bounds are binary64 values that are NOT short dyadic numbers (the exact value of the float is
# sent to the model; the float arithmetic of the two maps then differs from the rational one in the last ulp)
DECIMAL_CALIBS = [(Fr(0.1), Fr(179.9), Fr(544.5), Fr(2400.3)), (Fr(-33.3), Fr(66.6), Fr(1 / 3), Fr(1000.7)),
                  (Fr(0), Fr(180), Fr(0.7), Fr(0.9)),
                  # outside the old guard of the repaired F-C19-servo-bound-ulp: the clamp bites at the top of the range
                  (Fr(-90.7), Fr(90.1), Fr(543.9), Fr(2000.2)), (Fr(45.3), Fr(179.9), Fr(543.9), Fr(1999.3))]


def top_exact(lo, hi):
    """the OLD guard of the repaired finding F-C19-servo-bound-ulp (Host/ServoFloat.v top_ok): in binary64, lo + (hi - lo) <= hi -
    the raw image of the top of the range is not above the bound.  Now only a classifier: calibrations on both sides are generated
    (outside it the clamp of _angle_to_pulse / _pulse_to_angle must bite)"""
    lo, hi = float(lo), float(hi)
    return lo + (hi - lo) <= hi


def in_guard(bounds):
    mina, maxa, minp, maxp = bounds
    return top_exact(mina, maxa) and top_exact(minp, maxp)


# calibrations OUTSIDE the old guard (each reproduced the finding before the repair): (min_angle, max_angle, min_pulse, max_pulse)
OUTSIDE_OLD_GUARD = [(0.0, 180.0, 543.9, 2000.2), (-90.7, 90.1, 544.0, 2400.0), (-45.3, 0.1, 543.9, 1999.3), (45.3, 179.9, 544.0, 2400.0),
                     (-60.1, 120.3, -60.1, 2000.2), (0.3, 0.9, 544.0, 2400.0), (-0.1, 0.3, -0.1, 0.2), (-22.5, 120.3, 543.9, 2000.2),
                     (-90.7, 180.1, -90.7, 500.5), (-60.1, 45.3, 544.0, 2400.0)]

# streams whose cases are ALSO run through the binary64 model (Host/ServoFloat.v: sstep_fl) and compared EXACTLY
FLOAT_STREAMS = {"float-bounds", "float-bounds-clamp-bites", "random-decimal", "random", "pairs"}


def float_bound_cases(ctx):
    """Calibrations with one-decimal (non-dyadic) bounds - on BOTH sides of the old guard of F-C19-servo-bound-ulp; writes at both
    ends of each axis, one ulp inside the ends, at decimal interior points: where the five rounded operations of each map and the
    clamp after them matter for the exact bound clauses."""
    import math
    rng = ctx.rng
    thorough = ctx.tier == "thorough"
    out = []
    want_in, want_out = (1200, 600) if thorough else (150, 120)
    n_in = n_out = 0

    def emit(b, stream):
        mina, maxa, minp, maxp = (float(x) for x in b)
        ctor = [ABSENT, b[0], b[1], b[2], b[3]]
        ends = [("write", b[1]), ("write", b[0]), ("write_us", b[3]), ("write_us", b[2]),
                ("write", Fr(math.nextafter(maxa, mina))), ("write_us", Fr(math.nextafter(maxp, minp))),
                ("write", Fr(math.nextafter(mina, maxa))), ("write_us", Fr(math.nextafter(minp, maxp)))]
        out.append((stream, ("servo", ctor, ends + [("read",), ("read_us",)])))
        out.append((stream, ("servo", ctor, [("write", b[1]), ("read_us",)])))
        out.append((stream, ("servo", ctor, [("write_us", b[3]), ("read",)])))
        ops = []
        for _ in range(8):
            if rng.random() < 0.5:
                ops.append(("write", Fr(round(rng.uniform(mina, maxa), 1)) if rng.random() < 0.7 else Fr(rng.uniform(mina, maxa))))
            else:
                ops.append(("write_us", Fr(round(rng.uniform(minp, maxp), 1)) if rng.random() < 0.7 else Fr(rng.uniform(minp, maxp))))
        ops = [o for o in ops if (b[0] <= o[1] <= b[1] if o[0] == "write" else b[2] <= o[1] <= b[3])] + [("write", b[1]), ("write_us", b[3])]
        out.append((stream, ("servo", ctor, ops)))

    for c in OUTSIDE_OLD_GUARD:
        b = tuple(Fr(x) for x in c)
        if not in_guard(b):
            n_out += 1
            emit(b, "float-bounds-clamp-bites")
    tries = 0
    while (n_in < want_in or n_out < want_out) and tries < 200000:
        tries += 1
        mina = round(rng.uniform(-180, 180), rng.choice([0, 1, 1, 2]))
        maxa = round(mina + rng.choice([0.1, 1, 45.5, 90, 180, 270.3, rng.uniform(0.5, 360)]), rng.choice([0, 1, 1, 2]))
        minp = round(rng.uniform(0, 1500), rng.choice([0, 1, 1, 2]))
        maxp = round(minp + rng.choice([0.2, 10, 1000, 1856, 1855.9, rng.uniform(1, 2500)]), rng.choice([0, 1, 1, 2]))
        if not (mina < maxa and minp < maxp):
            continue
        b = (Fr(mina), Fr(maxa), Fr(minp), Fr(maxp))
        if in_guard(b):
            if n_in < want_in:
                n_in += 1
                emit(b, "float-bounds")
        elif n_out < want_out:
            n_out += 1
            emit(b, "float-bounds-clamp-bites")
    ctx.coverage["servo_calibrations_where_the_clamp_bites_generated"] = n_out
    ctx.coverage["servo_calibrations_inside_the_old_guard_generated"] = n_in
    return out


def as_float_value(q):
    """the binary64 nearest to q, as an exact Fraction"""
    return Fr(q.numerator / q.denominator)


def random_case(rng, thorough, decimal=False):
    if decimal:
        mina, maxa, minp, maxp = rng.choice(DECIMAL_CALIBS)
        ctor = [ABSENT, mina, maxa, minp, maxp]
    elif rng.random() < (0.5 if thorough else 0.3):
        ctor, (mina, maxa, minp, maxp) = random_calibration(rng)
    else:
        ctor, (mina, maxa, minp, maxp) = CALIBS[rng.choice(list(CALIBS))]
    n = rng.randint(3, 15)
    ops = []
    for _ in range(n):
        k = rng.random()
        if k < 0.8:
            name, lo, hi = ("write", mina, maxa) if rng.random() < 0.5 else ("write_us", minp, maxp)
            x = rng.random()
            if x < 0.7:
                v = lo + (hi - lo) * Fr(rng.randint(0, 64), 64)
                v = as_int_if_whole(v) if rng.random() < 0.3 else v
            elif x < 0.9:
                v = rng.choice([lo, hi, lo + EPS, hi - EPS, as_int_if_whole(lo), as_int_if_whole(hi)])
            else:
                v = rng.choice([lo - EPS, hi + EPS, lo - 1, hi + 1000, None, True, False, lo - Fr(1, 1 << 30), hi + Fr(1, 1 << 30)])
            if decimal and isinstance(v, Fr):
                v = as_float_value(v)
            ops.append((name, v))
        else:
            ops.append((rng.choice(["read", "read_us"]),))
    return ("servo", ctor, ops)


def generate(ctx):
    """returns list of (stream, case)"""
    rng = ctx.rng
    thorough = ctx.tier == "thorough"
    cases = []
    for c in BAD_CTORS + ODD_CTORS + [v[0] for v in CALIBS.values()]:
        cases.append(("ctor-table", ("servo", c, [("read",), ("read_us",), ("write", 1), ("write_us", 1), ("write", None)])))
    # exhaustive pairs over the boundary alphabet of the seed's calibration, from every seed
    for cal, ctor, pre in seeds():
        alpha = alphabet(cal)
        for a in alpha:
            for b in alpha:
                cases.append(("pairs", ("servo", ctor, pre + [a, b])))
    if thorough:
        # triples over a reduced alphabet from the plain seeds
        for cal, (ctor, (mina, maxa, minp, maxp)) in CALIBS.items():
            small = [("write", v) for v in (mina, maxa, (mina + maxa) / 2, maxa + EPS, None)] + \
                    [("write_us", v) for v in (minp, maxp, (minp + maxp) / 2 + H, minp - EPS, True)] + [("read",), ("read_us",)]
            for a in small:
                for b in small:
                    for c in small:
                        cases.append(("triples", ("servo", ctor, [a, b, c])))
    for _ in range(8000 if thorough else 700):
        cases.append(("random", random_case(rng, thorough)))
    for _ in range(3000 if thorough else 300):
        cases.append(("random-decimal", random_case(rng, thorough, decimal=True)))
    # long histories on one object (same calibration): the statement says "every sequence", the streams above stop at 15 calls
    for _ in range(60 if thorough else 8):
        cal = rng.choice(list(CALIBS))
        ctor, (mina, maxa, minp, maxp) = CALIBS[cal]
        ops = []
        for _ in range(rng.randint(40, 120)):
            ops.append(rng.choice(alphabet(cal)))
        cases.append(("random-long", ("servo", ctor, ops)))
    cases += float_bound_cases(ctx)
    return cases


def specials_cases():
    """IEEE specials, -0.0, strings and ints beyond the float range are outside the model: implementation only,
    oracle = invariant + atomicity of failing calls"""
    vals = [NAN, INF, -INF, -0.0, "90", "abc", 10 ** 400, -(10 ** 400)]
    cases = []
    for cal in ("default", "neg"):
        ctor, (mina, maxa, minp, maxp) = CALIBS[cal]
        for pre in ([], [("write", (mina + maxa) / 2)]):
            for v in vals:
                cases.append(("servo", ctor, pre + [("write", v), ("read",)]))
                cases.append(("servo", ctor, pre + [("write_us", v), ("read_us",)]))
    return cases


def x_stream(ctx, st):
    """Host/ActuatorsX.v servo_bounds_accepted vs the real constructor on bounds that may be IEEE specials; every case also
    goes through the property oracle (this region - NaN / infinite bounds - was outside the guard before the repair)."""
    vals = [NAN, INF, -INF, Fr(0), Fr(180), Fr(544), Fr(2400), Fr(-90)]
    combos = [(a, b, c, d) for a in vals for b in vals for c in vals for d in vals]
    cases = [("servo", [ABSENT, a, b, c, d], [("read",), ("read_us",), ("write", b), ("write_us", c), ("read",)]) for a, b, c, d in combos]
    # each special alone in each position (the other arguments omitted), and pairs on one axis
    for v in (NAN, INF, -INF):
        for k in range(1, 5):
            ctor = [ABSENT] * 5
            ctor[k] = v
            cases.append(("servo", ctor, [("read",), ("read_us",), ("write", 5), ("write_us", 1000), ("read_us",)]))
    impl = S.run_impl("servo", cases)
    for case, r in zip(cases, impl):
        got = "ok" if r["ctor"][0] == "ok" else r["ctor"][1]
        special = any(S.is_special(a) for a in case[1])
        st.bump(st.ctor, ("servo-special-bounds:" if special else "servo-float-bounds:") + got)
        oracle(ctx, st, case, r, safety_only=True)
    if not ctx.exes.get(UNIT):
        return len(cases)
    model = ctx.model([[1] + [S.WX(v) for v in combo] for combo in combos], unit=UNIT)
    n_dis = 0
    for case, m, r in zip(cases, model, impl):
        want = "ok" if m == [1] else "ValueError" if m == [0] else "?"
        got = "ok" if r["ctor"][0] == "ok" else r["ctor"][1]
        if want != got and n_dis < 5:
            n_dis += 1
            ctx.disagree("servo: constructor bound checks on floats with IEEE specials", S.replayable(case), want, got)
    return len(cases)


# --------------------------------------------------------------------------
# entry points
# --------------------------------------------------------------------------

def own_findings(ctx):
    """entries of this unit: known_findings.d/C19_servo.json (this package's own file) takes precedence over the merged
    known_findings.json, which ./check manifest assembles from it"""
    items = {f["id"]: f for f in ctx.findings if f.get("unit") == UNIT}
    own = C.VERIF / "known_findings.d" / (UNIT + ".json")
    if own.exists():
        for e in json.loads(own.read_text()):
            if e.get("unit") == UNIT:
                items[e["id"]] = e
    return [f for f in items.values() if "witness" in f]


def replay_fixed(ctx):
    """Repaired defects (kind "fixed") suppress nothing: their witnesses run FIRST through the same oracle as every
    generated case; one that fails again is a property failure (VIOLATION) whose replay is the witness - never a
    KNOWN-FINDING line.  The failure takes the key of its class, so the witness is the replay reported for the class."""
    n = 0
    for f in own_findings(ctx):
        if f.get("kind") != "fixed":
            continue
        n += 1
        wc = S.witness_case(f["witness"])
        r = S.run_impl("servo", [wc], real_sleep=True)[0]
        for g in S.probe_oracle(ctx, oracle, wc, r, safety_only=True)[:1]:
            ctx.fail(f"{f.get('fixed', 'fixed: ' + f['id'])} - the repaired defect {f['id']} is back: {g['what']}",
                     dict(g["case"], witness_of=f["id"]), g["expected"], g["observed"], key=g["key"])
    return n


def replay_findings(ctx):
    for f in own_findings(ctx):
        if f.get("kind") == "fixed":
            continue
        wc = S.witness_case(f["witness"])
        r = S.run_impl("servo", [wc], real_sleep=True)[0]
        if S.probe_oracle(ctx, oracle, wc, r, safety_only=True):
            ctx.known(f"{f['id']}: {f['what']}")


def run_unit(ctx: C.Ctx) -> dict:
    st = S.Stats()
    n_fixed = replay_fixed(ctx)
    n_fail0 = len(ctx.failures)          # failures of replayed fixed witnesses stay in front
    stream_cases = generate(ctx)
    cases = [c for _, c in stream_cases]
    for s, _ in stream_cases:
        st.bump(st.streams, s)
    impl = S.run_impl("servo", cases)
    exe = ctx.exes.get(UNIT)
    rational = [i for i, (s, _) in enumerate(stream_cases) if not s.startswith("float-")]
    binary64 = [i for i, (s, _) in enumerate(stream_cases) if s in FLOAT_STREAMS]
    model = [None] * len(cases)
    model_fl = [None] * len(cases)
    if exe:
        for i, m in zip(rational, ctx.model([S.wire_case(cases[i]) for i in rational], unit=UNIT)):
            model[i] = m
        # the same class with the two maps in binary64 (wire case 4): compared bit for bit, no tolerance
        for i, m in zip(binary64, ctx.model([[4] + S.wire_case(cases[i])[1:] for i in binary64], unit=UNIT)):
            model_fl[i] = m
    n_dis = n_dis_fl = n_exact = 0
    for case, r, m, mf in zip(cases, impl, model, model_fl):
        S.account(st, case, r)
        oracle(ctx, st, case, r)
        if m is not None and n_dis < 25:
            if not S.compare_case(ctx, st, case, m, r):
                n_dis += 1
        if mf is not None and n_dis_fl < 25:
            n_exact += len(case[2])
            if not S.compare_case(ctx, st, case, mf, r, exact=True):
                n_dis_fl += 1
    spec = specials_cases()
    n_spec = 0
    for case, r in zip(spec, S.run_impl("servo", spec, real_sleep=True)):
        n_spec += len(r["steps"])
        oracle(ctx, st, case, r, safety_only=True)
    n_x = x_stream(ctx, st)
    replay_findings(ctx)
    # report the shortest failing history of each class first (ctx.finish keeps the first per key)
    ctx.failures[n_fail0:] = sorted(ctx.failures[n_fail0:], key=lambda f: (len(f["case"]["calls"]), len(str(f["case"]["calls"]))))

    samples = [S.show_case(cases[i]) for i in (0, len(cases) // 3, len(cases) // 2, len(cases) - 1)]
    dist = S.distribution(st)
    dist["specials_stream_ops_implementation_only"] = n_spec
    dist["constructor_calls_with_ieee_special_bounds_compared_with_model_and_judged_by_the_oracle"] = n_x
    dist["fixed_witnesses_replayed_first"] = n_fixed
    dist["calls_compared_bit_for_bit_with_the_binary64_model"] = n_exact
    return {
        "unit": UNIT,
        "evaluations": st.steps,
        "distinct_nontrivial": len(st.nontrivial),
        "rule": ("Servo: constructor table (%d rejected, %d accepted with unusual types / narrow ranges, 3 calibrations) + exhaustive op pairs over the "
                 "boundary alphabet (min, max, mid, min-eps, max+eps, +-1 outside, int and float forms, bools, None; both write and write_us; getters) of each of "
                 "3 calibrations (default, negative angles, fractional) from 11 seed states%s + seeded random histories (3-15 ops; 70%% in range, 20%% boundary, "
                 "10%% invalid; %s random dyadic calibrations; a second stream uses non-dyadic binary64 bounds and angles such as 0.1, 179.9, 1/3) + the constructor on "
                 "all 8^4 quadruples over {NaN, inf, -inf, 0, 180, 544, 2400, -90} and each special alone in each position (model with IEEE specials vs "
                 "class, and oracle). evaluations = method calls executed on the real objects and compared field by field with the "
                 "model; distinct non-trivial = distinct (full state before, call) with a non-getter call that raised, changed state or emitted events."
                 % (len(BAD_CTORS), len(ODD_CTORS), " + triples over a reduced alphabet" if ctx.tier == "thorough" else "",
                    "50%" if ctx.tier == "thorough" else "30%")),
        "samples": samples,
        "distribution": dist,
        "guard": ("none: no listed finding excludes anything. F-C19-servo-bound-ulp (pulse / angle one ulp above the bound for calibrations whose binary64 sum "
                  "min + (max - min) exceeds max) and F-C19-servo-nonfinite-bound are repaired (kind=fixed): they suppress nothing, their witnesses are replayed "
                  "FIRST on every run and a witness that fails again is a VIOLATION whose replay is that witness; calibrations on both sides of the old guard are "
                  "generated (streams float-bounds / float-bounds-clamp-bites, counted in the coverage). The bound clauses and the write/read round trips are judged "
                  "with EXACT comparisons after every call (no tolerance); only the clause 'angle and pulse correspond under the linear map' - two float "
                  "computations of the same real quantity - is compared to 1e-9"),
        "unmodelled": [
            "binary64 overflow / subnormals: the binary64 model (fl53) has an unbounded exponent - it is IEEE-754 binary64 for bounds and arguments of magnitude 2^-1000 .. 2^1000, which is what is generated; the exact-rational model is still compared to 1e-9 on every stream",
            "IEEE specials (NaN, inf), -0.0, strings and ints beyond the float range as arguments of write/write_us: sent to the implementation only, oracle = invariant + atomicity of failing calls",
            "OverflowError of float() on a huge int calibration bound", "Servo.__repr__ (debug helper)", "keyword-argument calls (C08's subject); direct writes to the attributes",
        ],
        "trusted_base": [
            "harness/gen/c19_motor.py (reads the Servo constructor defaults and the public method signatures from the current source; fail-closed)",
            "harness/impl/c19_servo_impl.py + c19_sm_runner.py (drive the real class; level events recorded by wrapping Servo.write/write_us)",
            "harness/props/c19_servo.py + harness/c19_sm.py (generators, comparison with 1e-9 float tolerance for the rational model and bit for bit for the binary64 model, oracle with exact bound clauses)",
        ],
        "assumptions": ["Python floats behave as exact rationals up to 1e-9 on the generated dyadic inputs (measured by the correspondence)",
                        "Servo objects are only driven through their public methods"],
    }


def replay_unit(data) -> int:
    """./check replay <file>: re-run the recorded case on the real class and evaluate the oracle again."""
    cj = (data.get("case") or {}).get("json") if isinstance(data.get("case"), dict) else None
    if not cj or cj.get("cls") != "servo":
        return 0
    case = S.from_json_case(cj)
    r = S.run_impl("servo", [case], real_sleep=True)[0]
    fails = S.probe_oracle(data.get("property", "C19"), oracle, case, r)
    print(json.dumps({"implementation": r["steps"][-1] if r["steps"] else r["ctor"], "oracle_failures": fails}, indent=1, default=str)[:4000])
    return 1 if fails else 0
