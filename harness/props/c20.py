"""C20 - host sensor, Core-pin, timing and serial helpers are faithful small models.

Two engines per generated case (AGENT_GUIDE rule 5):
  * correspondence: the extracted Coq model (coq/Wire/C20W.v) against the real modules,
    call by call (return values of reads, exception kinds, final dict contents, sleeper
    calls, click positions, bytes written);
  * property oracle on the implementation: the clauses of C20 evaluated directly on what
    the real objects returned, against a reference memory semantics kept here
    (last value written per normalised pin, current mode, ...), exact rational
    arithmetic (fractions.Fraction) for map/sleep, rising edges for the button, ...
Every read is judged: there is no guard.  The former finding F-C20-pullup-stale (pin_mode stored the
pull-up level, so an unwritten pin kept reading HIGH after leaving INPUT_PULLUP) is repaired in /repo
(known_findings.d/C20.json kind "fixed"); its witness is replayed first on every run and, should it fail
again, reported as a VIOLATION (never as a KNOWN-FINDING).  The generators draw pull-up-then-other-mode
histories on purpose (the region the finding's guard used to exclude) and count the reads that fall there.
"""
from __future__ import annotations

import itertools
import math
import struct
from collections import Counter
from fractions import Fraction

from harness import common as C

META = {
    "id": "C20",
    "technique": "Coq proof (induction over call histories of Gallina models of Core/Utils/Button/Potentiometer/Ultrasonic/SerialMonitor; Q arithmetic by field/lra; a bit-exact binary64 model of Utils.map/sleep over Coq.Floats.SpecFloat with Flocq's IEEE-754 theorems: rounding sequence, end points, error bound) + extracted-model correspondence with the real modules (floats compared bit for bit through float.hex) + reference-memory oracle on the real modules",
    "level_text": "Theorems C20_* (coq/Props/C20.v) are proved for all call histories, pins, numeric arguments and provider sample sequences of Gallina models of Reduino.Core, Utils.map/sleep, Button, Potentiometer, Ultrasonic and SerialMonitor.write; digital_read is proved to be the property's reference memory for every history (C20_unwritten_default, unconditional since the repair of Core.pin_mode; C20_unwritten_high_iff_pullup, C20_mode_decides_unwritten: an unwritten pin reads HIGH exactly while its current mode is INPUT_PULLUP). The extracted models are run against the real modules on exhaustive short and seeded random histories, numeric grids and sample sequences; Utils.map and Utils.sleep have two models: exact rationals (C20_map_affine, C20_sleep) and the bit-exact binary64 one (Host/UtilsFloat.v: CPython's int/float/bool/None arithmetic, IEEE specials, signed zeros, OverflowError/ZeroDivisionError paths), proved to be the sequence of six correctly rounded operations (C20_fmap_rounding_sequence), exact at the lower end point under an overflow guard (C20_fmap_lower_endpoint_partial/_guard, refuted outside: finding F-C20-map-float-range), within 8*2^-53*(|to_low|+|ratio*(to_high-to_low)|) of the exact affine map and of the rational model (C20_fmap_error_bound, C20_fmap_error_vs_rational_model), and compared with the real function bit for bit. Core pins of any hashable type are inside the model (Host/CoreKeys.v, C20_xpin_same_key).",
    "level_note": "Trusted: Coq kernel, extraction (ExtrOcamlBasic), OCaml driver, harness/impl/c20_impl.py (fake serial backend, recording sleeper, provider callables), CPython as the meaning of str()/round()/bool(). The theorems are about the models; the correspondence check bounds their distance from the code. Theorems stated with real numbers (Flocq) depend on the axioms of Coq's classical reals, listed per theorem. Not modelled: str() of floats/objects, non-ASCII isdigit/isspace/upper, NaN/inf float pins and pins of exotic hashable types, SerialMonitor.read, pyserial; correct rounding of int/int true division is modelled and compared bit for bit but not proved.",
    "design_ref": "DESIGN.md section 4 C20, Appendix A.1 and A.5",
}

KIND = {1: "ValueError", 2: "TypeError", 3: "RuntimeError"}
PULLUP = "INPUT_PULLUP"

PINS = [0, 1, 7, 13, "7", "07", "13", "A0", "A1", "-7", ""]
MODES = ["INPUT", "OUTPUT", "INPUT_PULLUP", "bogus"]
DVALS = [0, 1, True, False, 2, -1]
AVALS = [-1, 0, 1, 127.5, 128.5, 254.5, 255, 256, 300, True, 2.5]
AVALS_EXTRA = [0.5, 1.5, -0.5, 255.5, 254.4999, 255.0, 1e6, -1e6, False, None, 254, 128]
ALIASES = {0: [0, "0", "00"], 1: [1, "1", "01"], 7: [7, "7", "07", "007"], 13: [13, "13", "013"]}


# ----------------------------------------------------------------------------
# encodings for the model
# ----------------------------------------------------------------------------

def enc_num(v):
    if v is None:
        return [3]
    if isinstance(v, bool):
        return [2, v]
    if isinstance(v, int):
        return [0, v]
    if isinstance(v, float):
        return [1, Fraction(v)]
    raise TypeError(f"not a model number: {v!r}")


def enc_pin(p):
    return [1, p] if isinstance(p, str) else [0, p]


def enc_opt_text(t):
    return [] if t is None else [t]


def enc_case(c):
    k = c[0]
    if k == "core":
        ops = []
        for o in c[1]:
            if o[0] == "pin_mode":
                ops.append([0, enc_pin(o[1]), o[2]])
            elif o[0] == "digital_write":
                ops.append([1, enc_pin(o[1]), enc_num(o[2])])
            elif o[0] == "analog_write":
                ops.append([2, enc_pin(o[1]), enc_num(o[2])])
            elif o[0] == "digital_read":
                ops.append([3, enc_pin(o[1])])
            else:
                ops.append([4, enc_pin(o[1])])
        return [0, ops]
    if k == "map":
        if not all(q_encodable(v) for v in c[1:6]):
            return [1] + [[3]] * 5                         # -> (3): outside the exact-rational model
        return [1] + [enc_num(v) for v in c[1:6]]
    if k == "sleep":
        if not q_encodable(c[1]):
            return [1] + [[3]] * 5                         # placeholder; the rational model is skipped
        return [2, enc_num(c[1])]
    if k == "corex":
        ops = []
        for o in c[1]:
            code = {"pin_mode": 0, "digital_write": 1, "analog_write": 2, "digital_read": 3, "analog_read": 4}[o[0]]
            if code == 0:
                ops.append([0, enc_xpin(o[1]), o[2]])
            elif code in (1, 2):
                ops.append([code, enc_xpin(o[1]), enc_num(o[2])])
            else:
                ops.append([code, enc_xpin(o[1])])
        return [9, ops]
    if k == "button":
        return [3, enc_num(c[1]), bool(c[2]), bool(c[3]), [[0 if o[0] == "set" else 1, enc_num(o[1])] for o in c[4]]]
    if k == "pot":
        return [4, enc_opt_text(c[1] if isinstance(c[1], str) else None), bool(c[2]), [enc_num(v) for v in c[3]]]
    if k == "ultra":
        return [5, enc_opt_text(c[1]), enc_opt_text(c[2]), enc_num(c[3]), enc_num(c[4]), enc_num(c[5]), bool(c[6]),
                [enc_num(v) for v in c[7]]]
    if k == "serial":
        ops = []
        for o in c[5]:
            if o[0] == "write":
                v = o[1]
                ops.append([0, [2, v] if isinstance(v, bool) else [0, v] if isinstance(v, int) else [4, v]])
            elif o[0] == "close":
                ops.append([1])
            else:
                ops.append([2])
        return [6, bool(c[1]), c[2], bool(c[3]), c[4], ops]
    raise ValueError(k)


def dec_pin(w):
    return w[1] if w[0] == 0 else C.wstr(w[1])


# ---- bit-exact floats on the wire: (0 s) zero | (1 s) inf | (2) nan | (3 s m e) canonical finite ----

INF = float("inf")
KINDF = {1: "ValueError", 2: "TypeError", 4: "OverflowError", 5: "ZeroDivisionError"}


def enc_sf(x: float):
    if x != x:
        return [2]
    s = 1 if math.copysign(1.0, x) < 0 else 0
    if x in (INF, -INF):
        return [1, s]
    if x == 0:
        return [0, s]
    m, e = math.frexp(abs(x))                  # abs(x) = m * 2**e, 0.5 <= m < 1
    ec = max(e - 53, -1074)
    mant = int(math.ldexp(m, e - ec))          # exact: an integer below 2**53
    assert math.ldexp(float(mant), ec) == abs(x)
    return [3, s, mant, ec]


def dec_sf(w) -> float:
    if w[0] == 2:
        return float("nan")
    if w[0] == 0:
        return -0.0 if w[1] else 0.0
    if w[0] == 1:
        return -INF if w[1] else INF
    v = math.ldexp(float(w[2]), w[3])          # exact: w[2] < 2**53, result representable
    return -v if w[1] else v


def enc_fnum(v):
    if v is None:
        return [3]
    if isinstance(v, bool):
        return [2, v]
    if isinstance(v, int):
        return [0, v]
    if isinstance(v, float):
        return [1, enc_sf(v)]
    raise TypeError(f"not a model number: {v!r}")


def enc_fcase(c):
    """the bit-exact (binary64) models of Host/UtilsFloat.v: map -> case 7, sleep -> case 8"""
    if c[0] == "map":
        return [7] + [enc_fnum(v) for v in c[1:6]]
    return [8, enc_fnum(c[1])]


def q_encodable(v):
    """the exact-rational models take finite numbers only"""
    return not isinstance(v, float) or (v == v and v not in (INF, -INF))


def enc_xpin(p):
    if p is None:
        return [4]
    if isinstance(p, bool):
        return [2, p]
    if isinstance(p, int):
        return [0, p]
    if isinstance(p, str):
        return [1, p]
    if isinstance(p, float):
        return [3, Fraction(p)]
    return [5]


def dec_xkey(w):
    """key of the model state -> the canonical form harness/impl/c20_impl.py canon_key reports"""
    if w[0] == 0:
        return w[1]
    t = w[1]
    if t and t[0] == -1:
        return ["float", t[1], t[2]]
    if t == [-2]:
        return ["none"]
    return C.wstr(t)


def close(a: Fraction, b: Fraction, scale: Fraction = Fraction(0)) -> bool:
    """float tolerance rule: 1e-9 relative (to the larger magnitude involved)."""
    return abs(a - b) <= Fraction(1, 10**9) * max(abs(a), abs(b), abs(scale)) + Fraction(1, 10**300)


def is_num(v):
    return isinstance(v, (int, float)) and not (isinstance(v, float) and (v != v or v in (float("inf"), float("-inf"))))


def frac(v):
    return Fraction(int(v)) if isinstance(v, bool) else Fraction(v)


# ----------------------------------------------------------------------------
# reference memory semantics of the property (Core)
# ----------------------------------------------------------------------------

def norm(p):
    return int(p) if isinstance(p, str) and p.isascii() and p.isdigit() else p


class RefMem:
    """last value written per normalised pin, current mode; `left_pullup` only feeds the statistics:
    pins that were put in INPUT_PULLUP while unwritten (the region the former finding's guard excluded
    is: such a pin, still unwritten, read while its current mode is not INPUT_PULLUP)."""

    def __init__(self):
        self.d, self.a, self.mode, self.was_pullup = {}, {}, {}, set()

    def expect(self, op):
        """expected value of a read; None for other calls."""
        k = norm(op[1])
        if op[0] == "digital_read":
            if k in self.d:
                return self.d[k]
            return 1 if self.mode.get(k) == PULLUP else 0
        if op[0] == "analog_read":
            return self.a.get(k, 0)
        return None

    def formerly_excluded(self, op):
        k = norm(op[1])
        return op[0] == "digital_read" and k not in self.d and k in self.was_pullup and self.mode.get(k) != PULLUP

    def apply(self, op):
        k = norm(op[1])
        if op[0] == "pin_mode":
            self.mode[k] = op[2]
            if op[2] == PULLUP and k not in self.d:
                self.was_pullup.add(k)
        elif op[0] == "digital_write":
            self.d[k] = 1 if op[2] else 0
        elif op[0] == "analog_write" and op[2] is not None:
            self.a[k] = max(0, min(255, round(frac(op[2]))))   # Fraction.__round__: half-even, exact


def alias_variant(ops, rng=None, flip=0):
    out = []
    for o in ops:
        k = norm(o[1])
        if isinstance(k, int) and k in ALIASES:
            al = ALIASES[k]
            p = rng.choice(al) if rng else al[(al.index(o[1]) + 1 + flip) % len(al)] if o[1] in al else al[0]
            out.append([o[0], p] + list(o[2:]))
        else:
            out.append(list(o))
    return out


# ----------------------------------------------------------------------------
# evaluation of one case: correspondence (if m is not None) + property oracle
# ----------------------------------------------------------------------------

class Stats:
    def __init__(self):
        self.n = Counter()
        self.distinct = set()


def res_matches(mres, ires):
    """model per-call result (0)|(0 z)|(1 k) against impl ["ok", v] | ["raise", name]"""
    if mres[0] == 1:
        return ires[0] == "raise" and ires[1] == KIND.get(mres[1])
    if ires[0] != "ok":
        return False
    if len(mres) == 1:
        return True          # the call returned normally; its return value is not part of C20
    v = ires[1]
    return isinstance(v, int) and v == mres[1]


def eval_core(ctx, st, case, r, m, oracle=True):
    ops = case[1]
    ref = RefMem()
    if r.get("odd_keys"):
        ctx.fail("Core dict holds a key that is neither int nor str", case, "int/str keys", r["odd_keys"], key="core-odd-key")
    for i, (op, ir) in enumerate(zip(ops, r["results"])):
        want = ref.expect(op)
        st.n["core_op:" + op[0]] += 1
        if ir[0] == "raise":
            st.n["core_raise:" + str(ir[1])] += 1
        if want is not None:
            if m is not None and m[3][i] != [want]:
                ctx.disagree("reference semantics: harness RefMem vs Coq history/ref_dread/ref_aread", case, m[3][i], [want])
            if ref.formerly_excluded(op):
                st.n["core_reads_unwritten_after_leaving_pullup"] += 1
            elif op[0] == "digital_read" and norm(op[1]) not in ref.d and ref.mode.get(norm(op[1])) == PULLUP:
                st.n["core_reads_unwritten_in_pullup"] += 1
            if oracle:
                st.n["core_reads_judged"] += 1
                if ir[0] != "ok" or not isinstance(ir[1], int) or ir[1] != want:
                    what = ("digital_read" if op[0] == "digital_read" else "analog_read") + \
                        f"({op[1]!r}) after {i} calls does not return what the memory semantics demands"
                    ctx.fail(what, {"case": case, "call_index": i}, want, ir,
                             key="core-" + op[0] + ("-unwritten" if norm(op[1]) not in (ref.d if op[0] == "digital_read" else ref.a) else "-written"))
            if op[0] == "analog_read" and oracle and ir[0] == "ok" and not (isinstance(ir[1], int) and 0 <= ir[1] <= 255):
                ctx.fail("analog_read returned a value outside 0..255", {"case": case, "call_index": i}, "0..255", ir, key="core-clamp")
        if m is not None and not res_matches(m[1][i], ir):
            ctx.disagree(f"Core call {i} {op}: model vs implementation", case, m[1][i], ir)
        if not (op[0] == "analog_write" and ir[0] == "raise"):
            ref.apply(op)
    if oracle:
        for x in r.get("interference", []):
            ctx.fail(f"{x['op']} changed what reads of the different pin {x['pin']!r} return", {"case": case, "call_index": x["op_index"]},
                     x["before"], x["after"], key="core-interference")
        for k, v in r["state"]["analog"]:
            if not (isinstance(v, int) and 0 <= v <= 255):
                ctx.fail("stored analog value outside 0..255", case, "0..255", [k, v], key="core-clamp-stored")
    if m is not None:
        ms = {"modes": {dec_pin(p): C.wstr(v) for p, v in m[2][0]},
              "digital": {dec_pin(p): v for p, v in m[2][1]},
              "analog": {dec_pin(p): v for p, v in m[2][2]}}
        is_ = {name: {k: v for k, v in r["state"][name]} for name in ("modes", "digital", "analog")}
        if ms != is_:
            ctx.disagree("Core dicts after the history: model vs implementation", case, ms, is_)


def exact_in_float(v):
    """an int that float() converts without rounding (bools and floats trivially)"""
    if isinstance(v, bool) or isinstance(v, float):
        return True
    try:
        return int(float(v)) == v
    except OverflowError:
        return False


def map_in_guard(args):
    """the range guard of C20_fmap_* / of the finding F-C20-map-float-range: finite numbers whose non-zero
    magnitudes lie in [1e-60, 1e60] (no intermediate overflow or underflow is possible: |differences| >= 1e-76,
    |ratio| in [5e-137, 2e136], |product| <= 4e196) and whose ints are exactly representable in binary64."""
    if not all(is_num(v) for v in args):
        return False
    for v in args:
        a = abs(frac(v))
        if a != 0 and not (Fraction(1, 10**60) <= a <= 10**60):
            return False
        if not exact_in_float(v):
            return False
    return True


def sleep_in_guard(d):
    return is_num(d) and abs(frac(d)) <= 10**300


def eval_map(ctx, st, case, r, m, oracle=True):
    args = case[1:6]
    st.n["map:" + (r[0] if r[0] == "ok" else str(r[1]))] += 1
    if all(is_num(v) for v in args) and not map_in_guard(args):
        st.n["map_outside_range_guard(bit-exact correspondence only)"] += 1
    if map_in_guard(args):
        st.n["map_judged_by_oracle"] += 1
        x, fl, fh, tl, th = (frac(v) for v in args)
        if oracle:
            if fl == fh:
                if not (r[0] == "raise" and r[1] == "ValueError"):
                    ctx.fail("Utils.map accepted a zero-width source range", case, "ValueError", r, key="map-zero-span")
            elif r[0] != "ok" or not is_num(r[1]):
                ctx.fail("Utils.map refused / failed on a non-degenerate source range", case, "a number", r, key="map-raised")
            else:
                want = tl + (x - fl) * (th - tl) / (fh - fl)
                if not close(frac(r[1]), want, abs(tl) + abs(want)):
                    ctx.fail("Utils.map is not the affine map through (from_low,to_low),(from_high,to_high)", case, float(want), r[1], key="map-affine")
    if m is not None:
        if m == [3]:
            st.n["map_unmodelled"] += 1
        elif m[0] == 1:
            if not (r[0] == "raise" and r[1] == KIND.get(m[1])):
                ctx.disagree("Utils.map: model raises, implementation differs", case, m, r)
        else:
            q = C.wq(m[1])
            if not map_in_guard(args):
                st.n["map_rational_model_not_compared(outside range guard)"] += 1
            elif r[0] != "ok" or not is_num(r[1]) or not close(frac(r[1]), q, abs(frac(args[3])) + abs(q)):
                ctx.disagree("Utils.map value: model vs implementation", case, float(q), r)


def sf_class(w):
    return {0: "zero", 1: "inf", 2: "nan", 3: "finite"}[w[0]] + ("-" if w[0] != 2 and w[1] else "")


def arg_kind(v):
    if v is None:
        return "None"
    if isinstance(v, bool):
        return "bool"
    if isinstance(v, int):
        return "int" if abs(v) <= 2**53 else "bigint" if abs(v) < 2**1023 else "hugeint"
    if v != v:
        return "nan"
    if v in (INF, -INF):
        return "inf"
    if v == 0:
        return "-0.0" if math.copysign(1.0, v) < 0 else "0.0"
    return "subnormal" if abs(v) < 2.2250738585072014e-308 else "float"


def eval_fmap(ctx, st, case, r, fm):
    """bit-exact correspondence: the binary64 model of Host/UtilsFloat.v against float.hex() of the real result"""
    for v in case[1:6]:
        st.n["fmap_arg:" + arg_kind(v)] += 1
    if fm[0] == 1:
        st.n["fmap:" + str(KINDF.get(fm[1]))] += 1
        same = r[0] == "raise" and r[1] == KINDF.get(fm[1])
        shown = ["raise", KINDF.get(fm[1])]
    else:
        want = dec_sf(fm[1])
        st.n["fmap:" + sf_class(fm[1])] += 1
        same = r[0] == "ok" and r[2] == "float" and r[3] == want.hex()
        shown = ["ok", want.hex()]
    if not same:
        ctx.disagree("Utils.map, bit for bit (float.hex): binary64 model vs implementation", case, shown, [r[0], r[3] if r[0] == "ok" else r[1], r[2]])


def eval_fsleep(ctx, st, case, r, fm):
    st.n["fsleep_arg:" + arg_kind(case[1])] += 1
    mcalls = [dec_sf(w).hex() for w in (fm[1] if fm[0] == 0 else fm[2])]
    st.n["fsleep:" + ("ok" if fm[0] == 0 else str(KINDF.get(fm[1])))] += 1
    for way, out in r.items():
        status, exc, _calls, hexes = out
        same = (status == "ok") == (fm[0] == 0) and (fm[0] == 0 or exc == KINDF.get(fm[1])) and hexes == mcalls
        if not same:
            ctx.disagree(f"Utils.sleep [{way}], bit for bit (float.hex): binary64 model vs implementation", case,
                         [("ok" if fm[0] == 0 else KINDF.get(fm[1])), mcalls], [status, exc, hexes])


def eval_corex(ctx, st, case, r, m, oracle=True):
    """Core over pins that are neither int nor str: correspondence only (the statement quantifies over int and
    str pin names; what True / 7.0 / None / a list do is modelled as it is, Host/CoreKeys.v)"""
    ops = case[1]
    for op, ir in zip(ops, r["results"]):
        st.n["corex_pin:" + ("unhashable" if isinstance(op[1], list) else type(op[1]).__name__)] += 1
        if ir[0] == "raise":
            st.n["corex_raise:" + str(ir[1])] += 1
    if m is None:
        return
    for i, (op, ir) in enumerate(zip(ops, r["results"])):
        if not res_matches(m[1][i], ir):
            ctx.disagree(f"Core call {i} {op} (extended pins): model vs implementation", case, m[1][i], ir)
            return
    key = lambda kv: repr(kv)
    ms = {name: sorted(([dec_xkey(p), (C.wstr(v) if name == "modes" else v)] for p, v in m[2][j]), key=key)
          for j, name in enumerate(("modes", "digital", "analog"))}
    is_ = {name: sorted(([k, v] for k, v in r["state"][name]), key=key) for name in ("modes", "digital", "analog")}
    if ms != is_:
        ctx.disagree("Core dicts after the history (extended pins, keys as dict lookup identifies them): model vs implementation", case, ms, is_)


def eval_sleep(ctx, st, case, r, m, oracle=True):
    d = case[1]
    for way, out in r.items():
        status, exc, calls = out[:3]
        st.n[f"sleep_{way}:" + (status if status == "ok" else str(exc))] += 1
        if oracle and sleep_in_guard(d):
            if frac(d) < 0:
                if not (status == "raise" and exc == "ValueError") or calls:
                    ctx.fail(f"sleep({d!r}) [{way}] did not refuse a negative duration before sleeping", case, ["ValueError", []], out, key="sleep-negative")
            else:
                ok = status == "ok" and len(calls) == 1 and is_num(calls[0]) and close(frac(calls[0]), frac(d) / 1000)
                if not ok:
                    ctx.fail(f"sleep({d!r}) [{way}] did not wait ms/1000 seconds exactly once", case, ["ok", [float(frac(d) / 1000)]], out, key="sleep-call")
        if m is not None:
            mcalls = [C.wq(q) for q in (m[1] if m[0] == 0 else m[2])]
            same = (status == "ok") == (m[0] == 0) and (m[0] == 0 or exc == KIND.get(m[1])) and len(calls) == len(mcalls) \
                and all(is_num(a) and close(frac(a), b) for a, b in zip(calls, mcalls))
            if not same:
                ctx.disagree(f"Utils.sleep [{way}]: model vs implementation", case, m, out)


def rising_edges(levels):
    prev, out = False, []
    for x in levels:
        out.append(bool(x and not prev))
        prev = x
    return out


def eval_button(ctx, st, case, r, m, oracle=True):
    _, pin, click, provider, ops = case
    st.n["button:" + ("ok" if r[0] == "ok" else r[1])] += 1
    if m is not None and (m[0] == 1) != (r[0] == "raise"):
        ctx.disagree("Button constructor: model vs implementation", case, m, r)
        return
    if r[0] == "raise":
        if m is not None and KIND.get(m[1]) != r[1]:
            ctx.disagree("Button constructor exception kind", case, m, r)
        if oracle and isinstance(pin, int):
            ctx.fail("Button refused an int pin", case, "constructed", r, key="button-ctor")
        return
    outs = r[1]
    # the signal is_pressed sees
    cur, seen = False, []
    for o in ops:
        if o[0] == "set":
            cur = bool(o[1])
        else:
            seen.append(bool(o[1]) if provider else cur)
    polls = [x for o, x in zip(ops, outs) if o[0] == "poll"]
    sets = [x for o, x in zip(ops, outs) if o[0] == "set"]
    st.n["button_polls"] += len(polls)
    st.n["button_rising"] += sum(rising_edges(seen))
    if oracle:
        want_fired = [int(e and click) for e in rising_edges(seen)]
        got_fired = [p[2] if p[0] == "ok" else None for p in polls]
        got_ret = [p[1] if p[0] == "ok" else None for p in polls]
        if any(s is not None for s in sets) or got_ret != [1 if x else 0 for x in seen]:
            ctx.fail("Button.is_pressed/set_pressed did not report the provided signal", case, [1 if x else 0 for x in seen], got_ret, key="button-level")
        elif got_fired != want_fired:
            ctx.fail("on_click calls are not exactly the rising edges of the provided signal", case, want_fired, got_fired, key="button-edges")
    if m is not None:
        mo = m[1]
        for i, (o, mi, ii) in enumerate(zip(ops, mo, outs)):
            if o[0] == "set":
                same = mi == [] and ii is None
            else:
                same = ii[0] == "ok" and isinstance(ii[1], int) and [ii[1], ii[2]] == [mi[0], mi[1]]
            if not same:
                ctx.disagree(f"Button call {i} {o}: model vs implementation", case, mi, ii)
                break


def eval_pot(ctx, st, case, r, m, oracle=True):
    _, pin, provider, samples = case
    st.n["pot:" + ("ok" if r[0] == "ok" else r[1])] += 1
    if m is not None:
        if (m[0] == 1) != (r[0] == "raise") or (m[0] == 1 and KIND.get(m[1]) != r[1]):
            ctx.disagree("Potentiometer constructor: model vs implementation", case, m, r)
            return
        if m[0] == 0 and C.wstr(m[1]) != r[1]:
            ctx.disagree("Potentiometer.pin: model vs implementation", case, C.wstr(m[1]), r[1])
    if r[0] == "raise":
        if oracle and isinstance(pin, str) and pin.isascii() and pin.strip()[:1] == "A" and pin.strip()[1:].isdigit():
            ctx.fail("Potentiometer refused an analogue pin name", case, "constructed", r, key="pot-ctor")
        return
    for i, (s, x) in enumerate(zip(samples, r[2])):
        st.n["pot_read:" + (x[0] if x[0] == "ok" else str(x[1]))] += 1
        if oracle and provider and isinstance(s, int):          # annotated domain: int-valued providers
            v = int(s)
            if 0 <= v <= 1023:
                if not (x[0] == "ok" and isinstance(x[1], int) and x[1] == v):
                    ctx.fail("Potentiometer.read did not return the provider's value", {"case": case, "sample": s}, v, x, key="pot-value")
            elif not (x[0] == "raise" and x[1] == "ValueError"):
                ctx.fail("Potentiometer.read accepted a value outside 0..1023", {"case": case, "sample": s}, "ValueError", x, key="pot-range")
        if m is not None:
            mi = m[2][i]
            same = (x[0] == "raise" and x[1] == KIND.get(mi[1])) if mi[0] == 1 else (x[0] == "ok" and isinstance(x[1], int) and x[1] == mi[1])
            if not same:
                ctx.disagree(f"Potentiometer.read sample {s!r}: model vs implementation", case, mi, x)


def eval_ultra(ctx, st, case, r, m, oracle=True):
    _, sensor, model, trig, echo, default, provider, samples = case
    st.n["ultra:" + ("ok" if r[0] == "ok" else r[1])] += 1
    if m is not None:
        if (m[0] == 1) != (r[0] == "raise") or (m[0] == 1 and KIND.get(m[1]) != r[1]):
            ctx.disagree("Ultrasonic factory: model vs implementation", case, m, r)
            return
    if r[0] == "raise":
        return
    for i, (s, x) in enumerate(zip(samples, r[1])):
        st.n["ultra_measure:" + (x[0] if x[0] == "ok" else str(x[1]))] += 1
        src = s if provider else default
        if oracle and is_num(src):
            v = frac(src)
            if v < 0:
                if not (x[0] == "raise" and x[1] == "ValueError"):
                    ctx.fail("measure_distance accepted a negative distance", {"case": case, "sample": src}, "ValueError", x, key="ultra-negative")
            elif not (x[0] == "ok" and is_num(x[1]) and close(frac(x[1]), v)):
                ctx.fail("measure_distance did not return the provider's value", {"case": case, "sample": src}, float(v), x, key="ultra-value")
        if m is not None:
            mi = m[1][i]
            same = (x[0] == "raise" and x[1] == KIND.get(mi[1])) if mi[0] == 1 else (x[0] == "ok" and is_num(x[1]) and close(frac(x[1]), C.wq(mi[1])))
            if not same:
                ctx.disagree(f"measure_distance sample {s!r}: model vs implementation", case, mi, x)


def eval_serial(ctx, st, case, r, m, oracle=True):
    _, backend, baud, port_given, newline, ops = case
    st.n["serial:" + ("ok" if r[0] == "ok" else r[1])] += 1
    if m is not None:
        if (m[0] == 1) != (r[0] == "raise") or (m[0] == 1 and KIND.get(m[1]) != r[1]):
            ctx.disagree("SerialMonitor constructor: model vs implementation", case, m, r)
            return
    if r[0] == "raise":
        return
    is_open = bool(port_given)
    for i, (o, x) in enumerate(zip(ops, r[1])):
        payloads, res = x
        st.n["serial_op:" + o[0]] += 1
        if o[0] == "write":
            text = str(o[1])
            if oracle:
                if res != ["ok", text]:
                    ctx.fail("SerialMonitor.write did not return str(value)", {"case": case, "call_index": i}, text, res, key="serial-return")
                elif is_open:
                    want = (text + newline).encode("utf-8").hex()
                    if [p.get("hex") for p in payloads] != [want]:
                        ctx.fail("SerialMonitor.write did not send exactly str(value)+newline", {"case": case, "call_index": i},
                                 [text + newline], [p.get("text") for p in payloads], key="serial-payload")
            st.n["serial_write_open" if is_open else "serial_write_closed"] += 1
        elif o[0] == "close":
            if res[0] == "ok":
                is_open = False
        elif res[0] == "ok":
            is_open = True
        if m is not None:
            mw, mr = m[1][i]
            mtexts = [C.wstr(t) for t in mw]
            if mr[0] == 1:
                same_res = res[0] == "raise" and res[1] == KIND.get(mr[1])
            elif len(mr) == 2:
                same_res = res == ["ok", C.wstr(mr[1])]
            else:
                same_res = res[0] == "ok"
            if not same_res or [p.get("text") for p in payloads] != mtexts:
                ctx.disagree(f"SerialMonitor call {i} {o}: model vs implementation", case, [mtexts, mr], x)


EVAL = {"core": eval_core, "corex": eval_corex, "map": eval_map, "sleep": eval_sleep, "button": eval_button,
        "pot": eval_pot, "ultra": eval_ultra, "serial": eval_serial}


# ----------------------------------------------------------------------------
# generators
# ----------------------------------------------------------------------------

def gen_core(rng, thorough):
    cases = []
    # (a) exhaustive short histories over a reduced boundary alphabet, each followed by probe reads
    sigma = []
    for p in (7, "07", "A0"):
        sigma += [["pin_mode", p, PULLUP], ["pin_mode", p, "OUTPUT"], ["digital_write", p, False], ["digital_write", p, 2]]
    for p in (7, "7", "A0"):
        sigma += [["analog_write", p, 127.5], ["analog_write", p, 256], ["digital_read", p], ["analog_read", p]]
    probes = [[k, p] for p in (7, "7", "A0", 13) for k in ("digital_read", "analog_read")]
    watch = [7, "07", "A0", 13]
    for n in (1, 2):
        for seq in itertools.product(sigma, repeat=n):
            cases.append(["core", [list(o) for o in seq] + probes, watch])
    triples = list(itertools.product(sigma, repeat=3))
    if not thorough:
        triples = rng.sample(triples, 3000)
    for seq in triples:
        cases.append(["core", [list(o) for o in seq] + probes, watch])
    n_exh = len(cases)
    # (b) every single call of the full alphabet from the empty state and after a pull-up / a write
    full = [["pin_mode", p, m] for p in PINS for m in MODES] + [["digital_write", p, v] for p in PINS for v in DVALS] + \
           [["analog_write", p, v] for p in PINS for v in AVALS + AVALS_EXTRA] + [["digital_read", p] for p in PINS] + [["analog_read", p] for p in PINS]
    all_probes = [[k, p] for p in PINS for k in ("digital_read", "analog_read")]
    for pre in ([], [["pin_mode", "7", PULLUP]], [["digital_write", 7, 1], ["analog_write", "07", 200]], [["pin_mode", 13, PULLUP], ["digital_write", "13", 0]]):
        for o in full:
            cases.append(["core", pre + [o] + all_probes, PINS])
    # (c) seeded random histories, length <= 20
    n_rand = 20000 if thorough else 1500
    for i in range(n_rand):
        hot = rng.sample(PINS, rng.randint(1, 4))
        if rng.random() < 0.5:
            hot += [a for h in hot if isinstance(norm(h), int) for a in ALIASES[norm(h)]]
        ops = []
        for _ in range(rng.randint(1, 20)):
            p = rng.choice(hot) if rng.random() < 0.85 else rng.choice(PINS)
            k = rng.random()
            if k < 0.2:
                ops.append(["pin_mode", p, rng.choice(MODES + [PULLUP])])
            elif k < 0.4:
                ops.append(["digital_write", p, rng.choice(DVALS)])
            elif k < 0.6:
                ops.append(["analog_write", p, rng.choice(AVALS if rng.random() < 0.75 else AVALS_EXTRA)])
            elif k < 0.8:
                ops.append(["digital_read", p])
            else:
                ops.append(["analog_read", p])
        if i % 2 == 0:
            ops += all_probes
        cases.append(["core", ops, PINS if i % 3 == 0 else None])
    # (e) the region the guard of the former finding F-C20-pullup-stale excluded: a never-written pin is put in
    #     INPUT_PULLUP (possibly several times, through aliases), then in another mode, and read - with calls that
    #     must not matter in between (other pins, analog writes and reads of the same pin), then pulled up again,
    #     then written, then re-configured.  Exhaustive over pins x leaving-modes x fillers; then seeded toggling.
    n_before_e = len(cases)
    fillers = [[], [["analog_write", "{p}", 200]], [["digital_read", "{p}"]], [["pin_mode", "{o}", PULLUP], ["digital_write", "{o}", 1]],
               [["digital_read", "{p}"], ["analog_read", "{p}"], ["pin_mode", "{p}", PULLUP]]]
    for p in PINS:
        al = ALIASES.get(norm(p), [p]) if isinstance(norm(p), int) else [p]
        other = "A1" if p != "A1" else 13
        for mode in ("OUTPUT", "INPUT", "bogus", "", "input_pullup", "INPUT_PULLUP "):
            for fi, fill in enumerate(fillers):
                mid = [[o[0], p if o[1] == "{p}" else other] + o[2:] for o in fill]
                q, q2 = al[(fi + 1) % len(al)], al[(fi + 2) % len(al)]
                ops = [["pin_mode", p, PULLUP], ["digital_read", q]] + mid + [["pin_mode", q, mode], ["digital_read", p], ["digital_read", q2],
                       ["pin_mode", q2, PULLUP], ["digital_read", p], ["pin_mode", p, mode], ["digital_read", q],
                       ["digital_write", q, fi % 2], ["digital_read", p], ["pin_mode", p, PULLUP], ["digital_read", q2],
                       ["pin_mode", q, mode], ["digital_read", p]]
                cases.append(["core", ops, [p, other, 0] if fi % 2 else None])
    for i in range(4000 if thorough else 400):
        hot = rng.sample(PINS, rng.randint(1, 3))
        hot += [a for h in hot if isinstance(norm(h), int) for a in ALIASES[norm(h)]]
        ops = []
        for _ in range(rng.randint(2, 16)):
            p = rng.choice(hot)
            k = rng.random()
            if k < 0.45:
                ops.append(["pin_mode", p, PULLUP if rng.random() < 0.5 else rng.choice(MODES)])
            elif k < 0.55:
                ops.append(["digital_write", p, rng.choice(DVALS)])
            elif k < 0.62:
                ops.append(["analog_write", p, rng.choice(AVALS)])
            else:
                ops.append(["digital_read", p])
        ops += [["digital_read", h] for h in hot]
        cases.append(["core", ops, hot[:3] if i % 4 == 0 else None])
    n_pull = len(cases) - n_before_e
    # (d) alias variants: the same history with pins respelled ("7" / "07" / 7): must behave identically
    pairs = []
    base = list(range(0, n_exh, 7 if thorough else 5)) + list(range(n_before_e - n_rand, n_before_e, 2)) + list(range(n_before_e, len(cases), 3))
    for idx in base:
        c = cases[idx]
        v = alias_variant(c[1], rng=rng if idx >= n_exh else None)
        if v != c[1]:
            pairs.append((idx, len(cases)))
            cases.append(["core", v, c[2]])
    return cases, pairs


def gen_map(rng, thorough):
    small = [-1, 0, 1, 2.5, True, 10] if thorough else [-1, 0, 2.5, True, 10]
    cases = [["map"] + list(t) for t in itertools.product(small, repeat=5)]
    pool = [-1000, -10, -2.5, -1, -0.5, 0, 0.0, 0.25, 0.5, 1, 1.0, True, False, 2, 2.5, 3, 5, 10, 100, 255, 1023, 1024, 0.1, 1e6, 180, 4095]
    for _ in range(40000 if thorough else 3000):
        t = [rng.choice(pool) for _ in range(5)]
        r = rng.random()
        if r < 0.1:
            t[2] = t[1]                                   # zero span, same spelling
        elif r < 0.15:
            t[1], t[2] = rng.choice([(1, True), (1, 1.0), (0, False), (0.0, 0), (True, 1.0)])   # zero span, different types
        elif r < 0.3:
            t[0] = rng.choice([t[1], t[2]])               # an end point
        elif r < 0.42:
            # a narrow (but non-zero) source window far from the origin, or a tiny one at it: still an affine map
            base = rng.choice([10 ** 9, 4 * 10 ** 9, 10 ** 12, -10 ** 9, 2 ** 31, 2.0 ** 40, 0, 0.0, 123456789])
            width = rng.choice([1, 2, 500, 0.5, -1, 3, 2.0 ** -20, 1e-12 if base == 0 else 7])
            t[1], t[2] = base, base + width
            t[0] = rng.choice([base, base + width, base + width / 2, base - width, t[0]])
        cases.append(["map"] + t)
    cases += [["map", None, 0, 1, 0, 1], ["map", 1, None, None, 0, 1], ["map", 1, 0, 1, None, 1]]
    return cases


NAN = float("nan")
DBL_MAX = 1.7976931348623157e308
FSPECIAL = [NAN, INF, -INF, 0.0, -0.0, 5e-324, -5e-324, 2.2250738585072014e-308, 2.225073858507201e-308, DBL_MAX, -DBL_MAX,
            1e308, -1e308, 2.0 ** 53, 2.0 ** 53 + 2, 1.5e-323, 1e16, 0.1, 0.3, 1 / 3, 1.0, -1.0, 1e-320, 2.0 ** 1023, 2.0 ** -1022, 1e-300, 1e300]
ISPECIAL = [0, 1, -1, True, False, 2 ** 53, 2 ** 53 + 1, 2 ** 53 - 1, -(2 ** 53 + 1), 2 ** 54 + 2, 2 ** 64, 2 ** 64 + 1, 10 ** 18 + 1,
            10 ** 400, -10 ** 400, 2 * 10 ** 400, 3 * 10 ** 400, 2 ** 1024, 2 ** 1024 - 2 ** 970, 2 ** 1024 - 2 ** 970 - 1,
            -(2 ** 1024 - 2 ** 970), 10 ** 308, 2 ** 1023, 7, 10, 1000, 3, 2 ** 1100 + 12345, 2 ** 2100]


def rand_float(rng):
    k = rng.random()
    if k < 0.30:
        return struct.unpack("<d", struct.pack("<Q", rng.getrandbits(64)))[0]      # any bit pattern (NaNs, subnormals, huge)
    if k < 0.50:
        return rng.choice(FSPECIAL)
    if k < 0.72:
        return rng.uniform(-1000, 1000)
    if k < 0.84:
        return rng.choice([1, -1]) * math.ldexp(rng.random(), rng.randint(-1080, 1023))
    return float(rng.randint(-2 ** 54, 2 ** 54))


def rand_int(rng):
    k = rng.random()
    if k < 0.4:
        return rng.choice(ISPECIAL)
    if k < 0.7:
        return rng.randint(-1100, 1100)
    return rng.choice([1, -1]) * rng.getrandbits(rng.choice([30, 53, 54, 64, 100, 500, 1023, 1024, 1025, 1100, 2200]))


def rand_num(rng, p_int=0.3):
    k = rng.random()
    if k < 0.03:
        return None
    return rand_int(rng) if k < 0.03 + p_int else rand_float(rng)


def gen_fmap(rng, thorough):
    """the stream for the bit-exact binary64 model: IEEE specials, signed zeros, subnormals, overflow and
    underflow, ints beyond 2^53 / beyond the float range, bools, None, zero spans across types"""
    cases = []
    sp = [NAN, INF, -INF, 0.0, -0.0, 5e-324, DBL_MAX, -DBL_MAX, 1, True, None, 2 ** 53 + 1, 10 ** 400, 0.1]
    for t in itertools.product(sp, repeat=2):
        cases.append(["map", 0.5, t[0], t[1], 0, 1])          # the == test across specials and types
        cases.append(["map", t[0], 0, 1, t[1], 1.5])
        cases.append(["map", t[0], t[1], 2, -1, 1])
        cases.append(["map", 1, 0, 2, t[0], t[1]])
    # the witnesses of the range guard (finding F-C20-map-float-range) and their neighbours
    cases += [["map", 0, 0, 1, -1e308, 1e308], ["map", 0.0, 0.0, 1.0, -1e308, 1e308], ["map", 1, 0, 1, -1e308, 1e308],
              ["map", 1, 2 ** 53 + 1, 2.0 ** 53, 0, 1], ["map", 1.0, 2 ** 53 + 1, 2.0 ** 53, 0, 1], ["map", 1, 2 ** 53 + 1, 2 ** 53, 0, 1],
              ["map", 10 ** 400, 0, 2 * 10 ** 400, 0, 1], ["map", 10 ** 400, 0, 2 * 10 ** 400, 0, 1.0], ["map", 10 ** 400, 0, 2 * 10 ** 400, 0.0, 1],
              ["map", 10 ** 400, 0.0, 2 * 10 ** 400, 0, 1], ["map", 1, 0, 1, 1e16, 1], ["map", 0, 0, -5, 0, 1], ["map", 0, 0, -5, -0.0, 0.0],
              ["map", 0, 1, -(10 ** 400), 0, 1], ["map", 1, 0, 10 ** 400, 0, 1], ["map", 2 ** 1024, 0, 1, 0, 1], ["map", 2 ** 1100, 0, 2 ** 80, 0, 1],
              ["map", 3, 0, 2 ** 1075, 0, 1], ["map", 1, 0, 2 ** 1074, 0, 1], ["map", 3, 0, 2 ** 1076, 0, 1], ["map", 2 ** 1024 - 2 ** 970, 0, 1, 0, 1],
              ["map", 2 ** 1024 - 2 ** 970 - 1, 0, 1, 0, 1], ["map", 2 ** 1024 - 2 ** 970 - 1, 0, 1.0, 0, 1], ["map", 2 ** 1024 - 2 ** 970, 0, 1.0, 0, 1]]
    for _ in range(60000 if thorough else 6000):
        k = rng.random()
        if k < 0.25:
            t = [rand_int(rng) for _ in range(3)] + [rand_num(rng, 0.5), rand_num(rng, 0.5)]     # int / int true division
        elif k < 0.45:
            t = [rand_float(rng) for _ in range(5)]
        else:
            t = [rand_num(rng) for _ in range(5)]
        r = rng.random()
        if r < 0.08:
            t[2] = t[1]
        elif r < 0.16 and t[1] is not None:
            v = t[1]                                       # the same value in another type, where one exists
            try:
                if isinstance(v, float) and v == int(v):
                    t[2] = int(v)
                elif isinstance(v, int):
                    t[2] = float(v)
            except (OverflowError, ValueError):
                pass
        elif r < 0.30:
            t[0] = rng.choice([t[1], t[2]])
        elif r < 0.36 and isinstance(t[1], float) and t[1] == t[1] and abs(t[1]) < INF:
            t[2] = math.nextafter(t[1], rng.choice([INF, -INF]))      # the narrowest non-zero span
        cases.append(["map"] + t)
    return cases


def gen_fsleep(rng, thorough):
    vals = list(FSPECIAL) + list(ISPECIAL) + [None, -1e-320, -2.0 ** -1074, 1000.0, 999.9999999999999, 1e-5]
    vals += [rand_num(rng, 0.4) for _ in range(3000 if thorough else 500)]
    return [["sleep", v, False] for v in vals]


XPINS = [1, True, 1.0, "1", "01", 0, False, 0.0, -0.0, "0", 7, 7.0, "7", "07", 7.5, "7.5", None, "None", [7], [], 2.5, -1, -1.0, "-1", 0.5, 255.0, "A0"]


def gen_corex(rng, thorough):
    cases = []
    for p in XPINS:
        for q in XPINS:
            cases.append(["corex", [["pin_mode", p, PULLUP], ["digital_read", q], ["analog_write", p, 200.5], ["digital_write", p, 0],
                                    ["digital_read", q], ["analog_read", q], ["pin_mode", q, "OUTPUT"], ["analog_write", q, None], ["analog_read", p]]])
    for _ in range(5000 if thorough else 500):
        hot = rng.sample(range(len(XPINS)), rng.randint(2, 6))
        ops = []
        for _ in range(rng.randint(1, 16)):
            p = XPINS[rng.choice(hot)]
            k = rng.random()
            if k < 0.2:
                ops.append(["pin_mode", p, rng.choice(MODES + [PULLUP])])
            elif k < 0.4:
                ops.append(["digital_write", p, rng.choice(DVALS)])
            elif k < 0.6:
                ops.append(["analog_write", p, rng.choice(AVALS + [None])])
            elif k < 0.8:
                ops.append(["digital_read", p])
            else:
                ops.append(["analog_read", p])
        cases.append(["corex", ops])
    return cases


def gen_sleep(rng, thorough):
    vals = [-1000, -1, -0.5, -1e-9, 0, 0.0, 1, True, False, 2.5, 0.001, 0.1, 10, 999, 1000, 1500, 1000.0, 1e6, 86400000, None, 3, 250]
    vals += [rng.choice([1, -1]) * rng.randint(0, 10**6) / rng.choice([1, 2, 4, 8]) for _ in range(400 if thorough else 80)]
    vals += [rng.randint(-5, 10**7) for _ in range(400 if thorough else 80)]
    # the monkeypatched-time.sleep path only gets durations that would be harmless if really slept
    return [["sleep", v, v is None or (is_num(v) and v <= 5)] for v in vals]


def gen_button(rng, thorough):
    cases = []
    for n in range(0, 9):
        for seq in itertools.product([False, True], repeat=n):
            cases.append(["button", 2, True, True, [["poll", s] for s in seq]])
            ops = []
            for s in seq:
                ops += [["set", s], ["poll", None]]
            cases.append(["button", 2, True, False, ops])
    samples = [True, False, 0, 1, 2, 0.0, 0.5, None, -1]
    for _ in range(3000 if thorough else 400):
        provider = rng.random() < 0.5
        click = rng.random() < 0.85
        pin = rng.choice([2, 2, 2, 0, -1, True, 1.0, None])
        ops = []
        for _ in range(rng.randint(0, 40)):
            if not provider and rng.random() < 0.45:
                ops.append(["set", rng.choice(samples)])
            elif provider and rng.random() < 0.1:
                ops.append(["set", rng.choice(samples)])      # ignored by is_pressed when a provider exists
            else:
                ops.append(["poll", rng.choice(samples) if provider else None])
        cases.append(["button", pin, click, provider, ops])
    return cases


def gen_pot(rng, thorough):
    pins = ["A0", " A0 ", "A", "a0", "A01", "A-1", "", " ", "A0x", "\tA5\n", "A 0", "A15", "B0", "0A", "AA0", "\x1cA1\x1f", "\x0bA2\x0c\r", "A1\x00", "_A1", None, 5]
    vals = [-1, 0, 1, 511, 1022, 1023, 1024, 2000, -1000, True, False, 0.0, -0.5, 0.5, 1023.0, 1023.9, 1024.0, -1.0, None]
    cases = [["pot", p, prov, vals] for p in pins for prov in (True, False)]
    for _ in range(300 if thorough else 40):
        cases.append(["pot", rng.choice(["A0", "A3", " A7"]), True,
                      [rng.choice([rng.randint(-3, 1027), rng.randint(-10**6, 10**6), rng.choice(vals)]) for _ in range(12)]])
    return cases


def gen_ultra(rng, thorough):
    names = [None, "HC-SR04", "hc-sr04", " hc_sr04 ", "HC_SR04", "Hc-Sr04\n", "x", "", "HCSR04", "HC--SR04", "HC-SR05", "hc sr04", "\x1chc-sr04\x0b", "hc-sr_04", "_hc-sr04"]
    pinv = [0, 1, 7, -1, True, 1.0, None]
    vals = [-1, 0, 5, 2.5, -0.5, True, False, None, -0.001, 400, 0.001, 0.0, 1e6, -1e6]
    cases = []
    for s in names:
        for mo in names:
            cases.append(["ultra", s, mo, 1, 2, 0.0, True, [5, -1]])
    for t in pinv:
        for e in pinv:
            cases.append(["ultra", None, rng.choice(["HC-SR04", "zz", None]), t, e, 0.0, True, [1.5]])
    for d in [0.0, 5, -1, True, None, 2.5, -0.25]:
        for prov in (True, False):
            cases.append(["ultra", None, None, 1, 2, d, prov, vals])
    for _ in range(400 if thorough else 60):
        cases.append(["ultra", rng.choice(names), rng.choice(names), rng.choice(pinv + [3, 4, 5]), rng.choice(pinv + [3, 4, 5]),
                      rng.choice([0.0, 5, -1, 2.5, None]), rng.random() < 0.8,
                      [rng.choice(vals + [rng.randint(-2000, 4000) / 8]) for _ in range(6)]])
    return cases


def gen_serial(rng, thorough):
    values = [0, 1, -1, -120, 42, 10**20, -(10**15), True, False, "", "hi", "héllo ✓", "a\nb", "7", " ", "True", 255, 1023]
    newlines = ["\n", "\r\n", "", "é", ";"]
    cases = []
    for backend in (True, False):
        for baud in (9600, 115200, 1, 0, -1):
            for port in (True, False):
                cases.append(["serial", backend, baud, port, "\n", [["write", 5], ["connect"], ["write", "x"], ["close"], ["write", True]]])
    for v in values:
        for nl in newlines:
            cases.append(["serial", True, 9600, True, nl, [["write", v]]])
            cases.append(["serial", True, 9600, False, nl, [["write", v], ["connect"], ["write", v]]])
    for _ in range(1500 if thorough else 200):
        ops = []
        for _ in range(rng.randint(1, 12)):
            k = rng.random()
            if k < 0.7:
                v = rng.choice(values) if rng.random() < 0.7 else rng.choice([rng.randint(-10**9, 10**9), "".join(chr(rng.choice([48, 65, 97, 32, 10, 233, 0x4E2D, 0x1F600])) for _ in range(rng.randint(0, 6)))])
                ops.append(["write", v])
            elif k < 0.85:
                ops.append(["close"])
            else:
                ops.append(["connect"])
        cases.append(["serial", rng.random() < 0.85, rng.choice([9600, 115200, 300]), rng.random() < 0.6, rng.choice(newlines), ops])
    return cases


# ----------------------------------------------------------------------------
# shrinking of a failing Core history (delta debugging by single deletions)
# ----------------------------------------------------------------------------

def core_fails(case, r):
    probe = C.Ctx("C20", "quick", 0)
    probe.findings = []
    eval_core(probe, Stats(), case, r, None)
    return probe.failures


def shrink_core(case, budget=12):
    ops = list(case[1])
    for _ in range(budget):
        cands = [ops[:i] + ops[i + 1:] for i in range(len(ops))]
        if not cands:
            break
        res = C.run_impl("c20_impl.py", {"cases": [["core", c, case[2]] for c in cands]})
        nxt = None
        for c, r in zip(cands, res):
            if core_fails(["core", c, case[2]], r):
                nxt = c
                break
        if nxt is None:
            break
        ops = nxt
    return ["core", ops, case[2]]


# ----------------------------------------------------------------------------
# run
# ----------------------------------------------------------------------------

def listed_findings(ctx):
    """the entries of known_findings.json for C20, plus those of this work package's own list that are not merged yet"""
    import json
    findings = list(ctx.findings or [])
    own = C.VERIF / "known_findings.d" / "C20.json"
    if own.exists():
        have = {e.get("id") for e in findings}
        findings += [e for e in json.loads(own.read_text()) if e.get("property") == "C20" and e.get("id") not in have]
    return findings


def replay_map_witness(f):
    """the calls of a Utils.map finding, judged WITHOUT the range guard: each must return a finite number within
    the float tolerance of the exact affine map; -> list of failing calls"""
    calls = f["witness"]["calls"]
    res = C.run_impl("c20_impl.py", {"cases": calls})
    bad = []
    for c, r in zip(calls, res):
        x, fl, fh, tl, th = (frac(v) for v in c[1:6])
        want = tl + (x - fl) * (th - tl) / (fh - fl)
        if r[0] != "ok" or not is_num(r[1]) or not close(frac(r[1]), want, abs(tl) + abs(want)):
            bad.append([c, r[:3]])
    return bad


def replay_witness(f):
    """run the witness history of a listed entry on the real code; -> (case, impl result, oracle failures)"""
    if "calls" in f["witness"]:
        bad = replay_map_witness(f)
        return f["witness"]["calls"], None, bad
    case = ["core", f["witness"]["ops"], None]
    r = C.run_impl("c20_impl.py", {"cases": [case]})[0]
    probe = C.Ctx("C20", "quick", 0)
    probe.findings = []
    eval_core(probe, Stats(), case, r, None)
    return case, r, probe.failures


def run(ctx: C.Ctx):
    rng = ctx.rng
    thorough = ctx.tier == "thorough"
    st = Stats()

    # repaired defects (kind "fixed") suppress nothing: their witnesses are replayed first, and a witness that
    # fails again is a VIOLATION whose replay is that witness (same key as the generated cases of its class, so
    # the witness is the one replay reported for the class)
    findings = listed_findings(ctx)
    n_fixed_replayed = 0
    for f in findings:
        if f.get("kind") != "fixed":
            continue
        n_fixed_replayed += 1
        case, r, fails = replay_witness(f)
        if fails:
            ctx.fail(f"{f.get('fixed', f['id'])} -- the repaired defect {f['id']} is back: {fails[0]['what']}",
                     {"case": case, "call_index": fails[0]["case"]["call_index"], "witness_of": f["id"]},
                     f["witness"].get("expected"), [x[1] if x[0] == "ok" else x for x in r["results"]], key=fails[0]["key"])

    core_cases, alias_pairs = gen_core(rng, thorough)
    groups = {
        "core": core_cases,
        "corex": gen_corex(rng, thorough),
        "map": gen_map(rng, thorough) + gen_fmap(rng, thorough),
        "sleep": gen_sleep(rng, thorough) + gen_fsleep(rng, thorough),
        "button": gen_button(rng, thorough),
        "pot": gen_pot(rng, thorough),
        "ultra": gen_ultra(rng, thorough),
        "serial": gen_serial(rng, thorough),
    }
    cases = [c for g in groups.values() for c in g]
    impl = C.run_impl("c20_impl.py", {"cases": cases}, timeout=900)
    fcases = [c for c in cases if c[0] in ("map", "sleep")]
    if ctx.exe:
        model = ctx.model([enc_case(c) for c in cases])
        fmodel = ctx.model([enc_fcase(c) for c in fcases])
    else:
        model = [None] * len(cases)
        fmodel = None

    n_fail0 = len(ctx.failures)
    for c, r, m in zip(cases, impl, model):
        if m == [2]:
            ctx.disagree("model could not decode the case (harness encoding bug)", c, m, None)
            m = None
        if c[0] == "sleep" and not (c[1] is None or sleep_in_guard(c[1])):
            m = None                      # the exact-rational sleep model takes finite numbers float() can hold
        EVAL[c[0]](ctx, st, c, r, m)
        st.distinct.add(repr(c[:2]) if c[0] == "core" else repr(c))

    # bit-exact correspondence of Utils.map / Utils.sleep (binary64 model, float.hex on both sides)
    if fmodel is not None:
        impl_of = {id(c): r for c, r in zip(cases, impl)}
        for c, fm in zip(fcases, fmodel):
            if fm == [2]:
                ctx.disagree("binary64 model could not decode the case (harness encoding bug)", c, fm, None)
                continue
            (eval_fmap if c[0] == "map" else eval_fsleep)(ctx, st, c, impl_of[id(c)], fm)

    # alias oracle on the implementation: respelled histories behave identically
    n_alias = 0
    for i, j in alias_pairs:
        a, b = impl[i], impl[j]
        n_alias += 1
        na = {name: sorted(((repr(norm(k)), v) for k, v in a["state"][name])) for name in a["state"]}
        nb = {name: sorted(((repr(norm(k)), v) for k, v in b["state"][name])) for name in b["state"]}
        if a["results"] != b["results"] or na != nb:
            ctx.fail("a history and its respelling through pin aliases (7 / \"7\" / \"07\") behave differently",
                     {"case": core_cases[i], "respelled": core_cases[j]}, a["results"], b["results"], key="core-alias")

    # shrink the first failing Core history so the replay is small
    for f in ctx.failures[n_fail0:]:
        c = f["case"].get("case") if isinstance(f["case"], dict) else f["case"]
        if isinstance(c, list) and c and c[0] == "core" and (f.get("key") or "").startswith("core-") and f["key"] not in ("core-alias",):
            try:
                small = shrink_core(c)
                r = C.run_impl("c20_impl.py", {"cases": [small]})[0]
                fs = core_fails(small, r)
                if fs:
                    f.update({"case": fs[0]["case"], "expected": fs[0]["expected"], "observed": fs[0]["observed"], "what": fs[0]["what"], "shrunk_from_length": len(c[1])})
            except Exception:  # shrinking is best effort
                pass
            break

    # known findings still open (none at present): replay every listed witness on the real code
    for f in findings:
        if f.get("kind") == "fixed":
            continue
        if replay_witness(f)[2]:
            ctx.known(f"{f['id']}: {f['what']}")

    def nontrivial(c):
        if c[0] == "core":
            seen_w = set()
            for o in c[1]:
                if o[0] in ("digital_write", "analog_write", "pin_mode"):
                    seen_w.add(norm(o[1]))
                elif norm(o[1]) in seen_w:
                    return True
            return False
        if c[0] == "button":
            return any(o[0] == "poll" for o in c[4])
        return True

    sizes = Counter(min(len(c[1]) // 5 * 5, 40) for c in core_cases)
    ctx.coverage.update({
        "evaluations": len(cases),
        "distinct_nontrivial": len({repr(c) for c in cases if nontrivial(c)}),
        "rule": "Core: all histories of length <=2 (quick: + 3000 sampled of the 13824 length-3 ones; thorough: all) over a 24-call boundary alphabet, each followed by 8 probe reads; every single call of the full alphabet (11 pins x modes/values) from 4 start states followed by reads of all pins; seeded random histories of length <=20 (hot-pin biased, aliases mixed); pull-up histories (11 pins x 6 leaving modes x 5 fillers: INPUT_PULLUP, read, filler, other mode through an alias, reads, pull-up again, write, re-configure; plus seeded pin_mode-heavy toggling histories) - the region the former finding's guard excluded, counted as core_reads_unwritten_after_leaving_pullup; respelled copies for the alias oracle. map: full 5-fold product of a small boundary set + seeded draws from a 26-value pool with forced zero spans, end points, and narrow non-zero source windows at large magnitude (1e9..1e12, widths 2^-20..500) or tiny ones at the origin. Bit-exact stream for map (every map case, old and new, also goes through the binary64 model and is compared by float.hex): products of 14 specials (nan, +-inf, +-0.0, 5e-324, +-DBL_MAX, 1, True, None, 2^53+1, 10^400, 0.1) in four argument positions, the witnesses of F-C20-map-float-range and their neighbours, seeded draws mixing arbitrary 64-bit patterns (NaNs, subnormals), special floats, ints up to 2200 bits (around 2^53, 2^64, 2^1024-2^970, 10^400), bools, None, int-only triples (true division of ints), zero spans across types, end points, one-ulp spans. sleep: boundary list + seeded values + the same specials/ints/seeded numbers for the bit-exact model. Core over extended pins (corex): all ordered pairs of 27 pins (1, True, 1.0, '1', '01', 0, False, 0.0, -0.0, 7, 7.0, 7.5, '7.5', None, 'None', [7], [], ...) in a 9-call history + seeded histories of length <= 16. Button: all bool sequences of length <=8 through the provider and through set_pressed + seeded long mixed histories. pot/ultra: constructor grids x boundary provider values. serial: constructor grid, values x newlines, seeded write/close/connect histories. Non-trivial = a Core history in which some pin is read after a call that addressed it / a button history with at least one poll / every other case.",
        "samples": [core_cases[30], core_cases[-1], groups["corex"][40], groups["map"][17], ["map", 0, 0, 1, -1e308, 1e308], ["map", 1, 2 ** 53 + 1, 2.0 ** 53, 0, 1], groups["sleep"][3], groups["button"][700], groups["pot"][2], groups["ultra"][5], groups["serial"][60]],
        "distribution": {"cases_per_submodel": {k: len(v) for k, v in groups.items()},
                         "core_history_lengths(bucketed by 5)": dict(sorted(sizes.items())),
                         "alias_pairs_compared": n_alias,
                         "counts": dict(sorted(st.n.items()))},
        "exhaustive": False,
        "guard": "none for Core: every read of every generated history is judged (the guard of the former finding F-C20-pullup-stale is gone with the repair of Core.pin_mode; its witness is replayed first on every run, fixed entries replayed: " + str(n_fixed_replayed) + "). Utils.map ORACLE guard (finding F-C20-map-float-range): finite arguments, every non-zero magnitude in [1e-60, 1e60], every int exactly representable in binary64 (map_in_guard) - outside it only the bit-exact correspondence judges (model = code for nan/inf/overflow/huge ints too); Utils.sleep oracle: finite, |d| <= 1e300. Pins judged by the oracle: int or ASCII str (other hashable pins: correspondence only, the statement quantifies over int and str names); text: ASCII for strip/upper/isdigit.",
        "unmodelled": ["str() of floats and arbitrary objects in SerialMonitor.write", "SerialMonitor.read and pyserial itself",
                       "int / int true division: the model's int_truediv (quotient with >= 65 significant bits plus a sticky bit, rounded once) is compared with CPython bit for bit on ints up to 2200 bits, but its equality with the correctly rounded quotient is not proved (the float/float and int/float paths are: C20_fmap_rounding_sequence, C20_float_of_int)",
                       "the error bound C20_fmap_error_bound is stated for the all-float path and with the intermediate quotient and product outside the subnormal range; no bound is proved for subnormal intermediates or for ints that float() has to round",
                       "NaN payloads and the sign of NaN (one NaN in the model; float.hex prints 'nan' for all)",
                       "non-ASCII characters in str.isdigit / str.strip / str.upper (e.g. pin '\u00b2' makes Core raise ValueError; Potentiometer('A\u00b2') is accepted)",
                       "Core pins that are NaN / infinite floats or of exotic hashable types (tuples, bytes, Fraction, objects with __hash__): int, str, bool, finite float, None and unhashable pins are inside the model (Host/CoreKeys.v)",
                       "Potentiometer with float-valued providers truncates before the range check (-0.5 reads 0): outside the annotated int domain, modelled faithfully, not judged by the oracle",
                       "return values of pin_mode/digital_write/analog_write/set_pressed/close/connect (not part of C20; only raise-vs-return is compared)"],
        "trusted_base": C.COMMON_TRUSTED + ["harness/impl/c20_impl.py (clears Core's three dicts per history; recording sleep_func and monkeypatched time.sleep; provider callables fed from the sample list; fake serial backend injected as Reduino.Communication.serial like tests/test_utils.py)",
                                            "harness/props/c20.py RefMem (reference memory semantics), cross-checked on every read against Coq ref_dread/ref_aread/guard through the wire",
                                            "CPython fractions.Fraction (exact arithmetic and round-half-even of the oracle)",
                                            "bit-exact float codec of harness/props/c20.py (enc_sf/dec_sf: math.frexp/ldexp to (sign, 53-bit mantissa, exponent) and back, self-checked by an assert on every encoded value) and float.hex() as the observation of a binary64 result",
                                            "Coq.Floats.SpecFloat (standard library, pure Gallina over Z: no primitive floats, no axioms) as the definition of the binary64 operations of Host/UtilsFloat.v - this is what is extracted and run; Proofs/UtilsFloatP.v proves these operations equal to Flocq 4.1.0 IEEE754.BinarySingleNaN Bplus/Bminus/Bmult/Bdiv (mode_NE)",
                                            "Flocq 4.1.0 + Coq Reals for the theorems stated with real numbers (C20_fmap_eq_floats, C20_fmap_rounding_sequence, C20_fmap_lower_endpoint_partial/_guard, C20_fmap_upper_endpoint_partial, C20_fmap_error_bound, C20_float_value_is_fraction, C20_fmap_error_vs_rational_model, C20_fmap_hypotheses_nonvacuous, C20_float_valid_is_B, C20_float_of_int, C20_fsleep_int, C20_fsleep_float): Print Assumptions lists ClassicalDedekindReals.sig_not_dec, ClassicalDedekindReals.sig_forall_dec, FunctionalExtensionality.functional_extensionality_dep and Classical_Prop.classic for them (standard-library axioms of the classical real numbers); C20_fmap_agrees_with_primitive_floats evaluates Coq's primitive binary64 floats by vm_compute and Print Assumptions lists the kernel primitives it uses (PrimFloat.add/sub/mul/div/eqb/..., PrimInt63.*: primitive operations of the kernel, not logical axioms; Coq.Floats.FloatAxioms is not imported); every other C20 theorem is closed under the global context"],
    })
    ctx.assumptions += ["two models of Utils.map/sleep: the exact-rational one takes finite numbers and computes on their exact values; the binary64 one (SpecFloat) takes every float (nan, inf, signed zeros, subnormals), every int, bool and None",
                        "axioms: the real-number theorems about the binary64 model depend on ClassicalDedekindReals.sig_not_dec, ClassicalDedekindReals.sig_forall_dec, FunctionalExtensionality.functional_extensionality_dep, Classical_Prop.classic (Coq Reals, through Flocq); the primitive-float cross-check lists the kernel's PrimFloat/PrimInt63 primitives; no axiom of ours",
                        "the implementation runner observes Core only through its five functions and its three module-level dicts"]


def replay(data):
    """./check replay <file>: re-run the recorded case on the real code and re-judge it."""
    case = data.get("case")
    if isinstance(case, dict):
        case = case.get("case")
    if not (isinstance(case, list) and case and case[0] in EVAL):
        print("replay: nothing to re-run")
        return 0
    r = C.run_impl("c20_impl.py", {"cases": [case]})[0]
    probe = C.Ctx("C20", "quick", 0)
    probe.findings = []
    EVAL[case[0]](probe, Stats(), case, r, None)
    print("implementation output:", r)
    for f in probe.failures:
        print("STILL FAILS:", f["what"], "expected", f["expected"], "observed", f["observed"])
    return 1 if probe.failures else 0

